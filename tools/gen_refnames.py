#!/usr/bin/env python3
"""(Re)generate verifier/refnames.json from the current /repo tree: per function, its locals in first-binding order with the
shape hash of each binding statement.  Used only to recover renamed locals (verifier/e1_names.py); run it after a reviewed
change of /repo that legitimately introduces new local names the rules should use."""
import ast, json, os, sys
ROOT = os.path.dirname(os.path.dirname(os.path.abspath(__file__)))
sys.path.insert(0, ROOT)
from verifier import e1_names  # noqa
repo = os.environ.get("VERIF_REPO", "/repo")
out = {}
for d, dn, fn in os.walk(os.path.join(repo, "pyyeti")):
    dn[:] = sorted(x for x in dn if x not in ("tests", "__pycache__"))
    for f in sorted(fn):
        if not f.endswith(".py"):
            continue
        p = os.path.join(d, f)
        rel = os.path.relpath(p, repo)
        tree = ast.parse(open(p).read())
        tab = {}

        def visit(node, prefix, seen):
            for c in ast.iter_child_nodes(node):
                if isinstance(c, (ast.FunctionDef, ast.AsyncFunctionDef)):
                    q = prefix + c.name
                    k = q
                    i = 2
                    while k in seen:
                        k = f"{q}#{i}"
                        i += 1
                    seen.add(k)
                    lo = e1_names.locals_in_order(c)
                    if lo:
                        tab[k] = lo
                    visit(c, q + ".", seen)
                elif isinstance(c, ast.ClassDef):
                    visit(c, prefix + c.name + ".", seen)
                else:
                    visit(c, prefix, seen)
        visit(tree, "", set())
        if tab:
            out[rel] = tab
json.dump(out, open(os.path.join(ROOT, "verifier", "refnames.json"), "w"), separators=(",", ":"), sort_keys=True)
print("files", len(out), "functions", sum(len(v) for v in out.values()), "bytes", os.path.getsize(os.path.join(ROOT, "verifier", "refnames.json")))
