"""Fill meta.json of every seeded change with the agent's own description (title, clause broken, what it needs to manifest)
parsed from NOTES.agent.md, and print the markdown table `seed -> rules that report it` used in DESIGN.md."""
import json, os, re, sys
ROOT = os.path.dirname(os.path.dirname(os.path.abspath(__file__)))
sd = os.path.join(ROOT, "seeded")
rows = []
for d in sorted(os.listdir(sd)):
    mp = os.path.join(sd, d, "meta.json")
    if not os.path.exists(mp):
        continue
    meta = json.load(open(mp))
    which = d.split("-")[1]
    notes = open(os.path.join(sd, d, "NOTES.agent.md")).read() if os.path.exists(os.path.join(sd, d, "NOTES.agent.md")) else ""
    secs = re.split(r"(?m)^##+\s*(?:Change|Regression|Seed)?\s*([A-S])\b", notes)
    sec = ""
    for i in range(1, len(secs) - 1, 2):
        if secs[i] == which:
            sec = secs[i + 1]
            break
    title = " ".join(sec.strip().splitlines()[0:1]).strip(" -:–—()") if sec else ""
    paras = [" ".join(p.split()) for p in re.split(r"\n\s*\n", sec)]
    def find(rx):
        for p in paras:
            if re.match(rx, p, re.I):
                return p
        for p in paras:
            if re.search(rx.lstrip("^"), p, re.I):
                return p
        return ""
    needs = find(r"^\W*(needs to manifest|what it needs|needs|manifests|to manifest|trigger|when it shows)")
    clause = find(r"^\W*(clauses? broken|clause|property clause|breaks)")
    meta["title"] = title[:300]
    meta["clause_broken"] = clause[:900]
    meta["needs_to_manifest"] = needs[:1200] or "see NOTES.agent.md"
    hunk = ""
    for line in open(os.path.join(sd, d, "patch.diff")):
        if line.startswith("@@"):
            hunk = line.split("@@")[-1].strip()
            break
    rules = []
    for pid, c in sorted((meta.get("checks") or {}).items()):
        for ln in c.get("lines", []):
            m = re.search(r"FAIL (C\d\d-R\w+)", ln)
            if m and m.group(1) not in rules:
                rules.append(m.group(1))
    meta["reported_by_rules"] = rules
    json.dump(meta, open(mp, "w"), indent=1)
    rows.append((d, ", ".join(meta.get("files", [])).replace("pyyeti/", ""), hunk[:60], title[:110], ", ".join(rules) or "-",
                 "yes" if meta.get("valid_seed") else "NO", f"{meta.get('suite_passed')}/{meta.get('suite_baseline')}"))
print("| seed | file | site | change | reported by | confirmed | suite |")
print("|---|---|---|---|---|---|---|")
for r in rows:
    print("| " + " | ".join(str(x).replace("|", "/") for x in r) + " |")
