#!/usr/bin/env python3
"""Confirm one seeded change and run the checks against it.

usage: seed_eval.py <PROP> <A|B> [--deliver /tmp/wt/<PROP>/deliver] [--no-suite]

Steps (all in a scratch git worktree of /repo under /tmp, removed at the end):
  1 demo on the clean tree must exit 0      2 the patch must apply and byte-compile
  3 demo with the patch must exit non-zero  4 the full test suite must still pass the 490 baseline tests
  5 every registered check of that property (and optionally all others) is run with --repo <worktree>
Result: /verif/seeded/<PROP>-<X>/{patch.diff, demo.py, meta.json}
"""
import json
import os
import re
import shutil
import subprocess
import sys
import time
import xml.etree.ElementTree as ET

VERIF = os.path.dirname(os.path.dirname(os.path.abspath(__file__)))
PY = "/venv/bin/python"


def sh(cmd, cwd=None, timeout=3600, env=None):
    r = subprocess.run(cmd, shell=True, cwd=cwd, capture_output=True, text=True, timeout=timeout, env=env)
    return r.returncode, r.stdout + r.stderr


def main():
    prop, which = sys.argv[1], sys.argv[2]
    deliver = f"/tmp/wt/{prop}/deliver"
    do_suite = "--no-suite" not in sys.argv
    all_checks = "--all-checks" in sys.argv
    if "--deliver" in sys.argv:
        deliver = sys.argv[sys.argv.index("--deliver") + 1]
    sid = f"{prop}-{which}"
    out = os.path.join(VERIF, "seeded", sid)
    os.makedirs(out, exist_ok=True)
    patch = os.path.join(deliver, f"{which}.diff")
    demo = os.path.join(deliver, f"demo_{which}.py")
    if not (os.path.exists(patch) and os.path.exists(demo)):
        # already stored under /verif/seeded: re-confirm from there
        patch, demo = os.path.join(out, "patch.diff"), os.path.join(out, "demo.py")
        if not (os.path.exists(patch) and os.path.exists(demo)):
            print(f"{sid}: missing deliverables in {deliver} and {out}")
            return 2
    else:
        shutil.copy(patch, os.path.join(out, "patch.diff"))
        shutil.copy(demo, os.path.join(out, "demo.py"))
    notes = os.path.join(deliver, "NOTES.md")
    if os.path.exists(notes):
        shutil.copy(notes, os.path.join(out, "NOTES.agent.md"))
    wt = f"/tmp/sw/{sid}"
    sh(f"git -C /repo worktree remove --force {wt}")
    shutil.rmtree(wt, ignore_errors=True)
    os.makedirs("/tmp/sw", exist_ok=True)
    rc, o = sh(f"git -C /repo worktree add --detach {wt} HEAD")
    meta = {"id": sid, "property": prop, "base_commit": sh("git -C /repo rev-parse --short HEAD")[1].strip(), "ran": []}
    try:
        if rc:
            meta["error"] = "worktree: " + o[-300:]
            return 2
        shutil.copy(demo, os.path.join(wt, "demo_seed.py"))
        touches_c = "c_rain.c" in open(patch).read()
        env = dict(os.environ, PYTHONDONTWRITEBYTECODE="1", OMP_NUM_THREADS="1", OPENBLAS_NUM_THREADS="1", MKL_NUM_THREADS="1")
        if touches_c or prop == "C05":
            rc, o = sh(f"{PY} setup.py build_ext --inplace", cwd=wt, env=env)
            meta["ran"].append(f"build_ext (clean): rc={rc}")
        t0 = time.time()
        rc0, o0 = sh(f"{PY} demo_seed.py", cwd=wt, timeout=1800, env=env)
        meta["demo_clean_rc"] = rc0
        meta["ran"].append(f"demo on clean HEAD: rc={rc0} ({time.time() - t0:.0f}s)")
        rc, o = sh(f"git apply --whitespace=nowarn {patch}", cwd=wt)
        if rc:
            rc, o2 = sh(f"patch -p1 -s --no-backup-if-mismatch < {patch}", cwd=wt)
            o += o2
        meta["patch_applies"] = rc == 0
        if rc:
            meta["error"] = "patch does not apply to current HEAD: " + o[-400:]
            return 1
        files = [l[6:].strip() for l in open(patch) if l.startswith("+++ b/")]
        meta["files"] = files
        pyfiles = [f for f in files if f.endswith(".py")]
        if pyfiles:
            rc, o = sh(f"{PY} -m py_compile " + " ".join(pyfiles), cwd=wt, env=env)
            meta["compiles"] = rc == 0
        if touches_c:
            rc, o = sh(f"{PY} setup.py build_ext --inplace", cwd=wt, env=env)
            meta["compiles"] = rc == 0
            meta["ran"].append(f"build_ext (patched): rc={rc}")
        t0 = time.time()
        rc1, o1 = sh(f"{PY} demo_seed.py", cwd=wt, timeout=1800, env=env)
        meta["demo_patched_rc"] = rc1
        meta["demo_patched_tail"] = o1[-400:]
        meta["ran"].append(f"demo with patch: rc={rc1} ({time.time() - t0:.0f}s)")
        if do_suite:
            t0 = time.time()
            xml = f"/tmp/sw/{sid}.junit.xml"
            rc, o = sh(f"{PY} -m pytest -q -p no:cacheprovider --timeout=900 --continue-on-collection-errors --junitxml={xml} -x --co -q >/dev/null 2>&1; "
                       f"{PY} -m pytest -q -p no:cacheprovider --timeout=900 --continue-on-collection-errors -n 6 --dist loadfile --junitxml={xml}", cwd=wt,
                       timeout=7200, env=env)
            base = json.load(open("/root/.vp/BASELINE.json"))
            want = set(base["stable_pass"])
            passed = set()
            try:
                for tc in ET.parse(xml).getroot().iter("testcase"):
                    bad = any(c.tag in ("failure", "error", "skipped") for c in tc)
                    nm = f"{tc.get('classname')}::{tc.get('name')}"
                    if not bad:
                        passed.add(nm)
            except Exception as e:  # noqa
                meta["suite_error"] = str(e)
            missing = sorted(want - passed)
            # tests that are flaky on the clean tree under load (unseeded random data, text comparison of near-zero numbers): re-run alone
            if 0 < len(missing) <= 4:
                still = []
                for nm in missing:
                    modname, tname = nm.split("::")
                    path = modname.replace(".", "/") + ".py::" + tname
                    okk = False
                    for _ in range(3):
                        rc2, o2 = sh(f"{PY} -m pytest -q -p no:cacheprovider --timeout=900 {path}", cwd=wt, timeout=1800, env=env)
                        if rc2 == 0:
                            okk = True
                            break
                    if okk:
                        passed.add(nm)
                        meta.setdefault("reran_alone_and_passed", []).append(nm)
                    else:
                        still.append(nm)
                missing = still
            meta["suite_passed"] = len(passed & want)
            meta["suite_baseline"] = len(want)
            meta["suite_missing"] = missing[:20]
            meta["ran"].append(f"full suite with patch: {len(passed & want)}/{len(want)} baseline tests pass ({time.time() - t0:.0f}s)")
            try:
                os.remove(xml)
            except OSError:
                pass
        # run the checks
        man = json.load(open(os.path.join(VERIF, "MANIFEST.json")))
        det = {}
        for c in man["checks"]:
            pid = c["property_id"]
            if pid != prop and not all_checks:
                continue
            rc, o = sh(f"{PY} -I -S verifier/run.py {pid} --no-evidence --repo {wt}", cwd=VERIF, timeout=600)
            lines = [l for l in o.splitlines() if l.startswith(("VIOLATION", "  FAIL", "ANALYSIS-ERROR", "  ERROR"))]
            det[pid] = {"rc": rc, "lines": [l[:300] for l in lines[:8]]}
        meta["checks"] = det
        own = det.get(prop)
        meta["detected_by_own_property"] = bool(own and own["rc"] == 1)
        meta["detected_by"] = sorted(p for p, d in det.items() if d["rc"] == 1)
        meta["valid_seed"] = bool(meta.get("demo_clean_rc") == 0 and meta.get("demo_patched_rc") not in (0, None)
                                  and meta.get("compiles", True) and (not do_suite or not meta.get("suite_missing")))
        return 0
    finally:
        json.dump(meta, open(os.path.join(out, "meta.json"), "w"), indent=1)
        sh(f"git -C /repo worktree remove --force {wt}")
        shutil.rmtree(wt, ignore_errors=True)
        print(f"{sid}: valid={meta.get('valid_seed')} demo clean/patched rc={meta.get('demo_clean_rc')}/{meta.get('demo_patched_rc')} "
              f"suite={meta.get('suite_passed')}/{meta.get('suite_baseline')} detected_by={meta.get('detected_by')} "
              f"{meta.get('error', '')}")


if __name__ == "__main__":
    sys.exit(main())
