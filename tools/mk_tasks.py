#!/usr/bin/env python3
"""Development aid: set up scratch worktrees + PROPERTY.md + TASK.md for fresh seeding / refactoring agents.
usage: mk_tasks.py seed <root> "L M P" C01 C02 ...      (three letters = names of the three changes)
       mk_tasks.py neutral <root> C01 C02 ...            (patch numbers continue after the highest stored /verif/neutral/<P>-N<k>)
The agents get only the property text and their own worktree under <root> (outside /repo and /verif); nothing from /verif."""
import json, os, re, subprocess, sys
props={}
for l in open('/verif/properties.jsonl'):
    p=json.loads(l); props[p['id']]=p
def propmd(p):
    a=p['anchors']
    s=f"# Property {p['id']}: {p['title']}\n\n## Statement\n{p['statement']}\n\n## Quantifier\nover: {', '.join(p['quantifier']['over'])}\n\n{p['quantifier']['text']}\n\n## Why the existing tests cannot settle it\n{p['why_tests_cant']}\n\n## Anchors\nfiles: {', '.join(a['files'])}\n\nstate:\n"
    for x in a['state']: s+=f"- {x['name']}: {x['meaning']} ({x['where']})\n"
    s+="\nmechanism:\n"
    for x in a['mechanism']: s+=f"- {x['name']} ({x['where']})\n"
    s+="\nobserve at:\n"
    for x in a['observe_at']: s+=f"- {x}\n"
    return s
SEED="""# Task

You are helping evaluate a verification effort for the open-source Python package pyYeti (a structural-dynamics toolkit).
You have your own private scratch git worktree of the repository at {wt} (detached HEAD; nobody else uses it).
Work only inside that directory. Never touch /repo. Do not read or touch /verif at all.

Read {wt}/PROPERTY.md. It states one semantic property of pyYeti (statement, quantifier domain, why the existing tests
cannot settle it, and anchors: files / state / mechanisms / observation points).

Produce THREE independent changes (C.diff, D.diff, E.diff) to pyYeti's *source* (never the tests), each of which

* breaks the stated property for some input / configuration / history inside its quantifier domain;
* still byte-compiles and leaves the results of the existing test suite unchanged. The baseline command is
  `cd {wt} && /venv/bin/python -m pytest -q -p no:cacheprovider --timeout=900 pyyeti/tests` (about 4-5 minutes; 16 tests fail on
  the clean tree because of numpy-2 incompatibilities - the set of failing tests must be the same before and after your change).
  Run only the relevant test files while you iterate, and the full suite once per final diff;
* looks like a plausible developer edit (optimisation, clean-up, refactoring, "simplification", off-by-one, wrong partition or
  index space, swapped argument, stale cache, wrong branch condition at a boundary, unit/sign slip ...), not sabotage in plain sight;
* needs something specific to manifest: an unusual input, a particular option combination, a multi-step sequence of operations,
  a particular order or interleaving, a boundary between two regimes, or two cooperating sites that each look fine alone -
  NOT something ordinary use would expose at once.

The three changes must hit three DIFFERENT mechanisms from the "mechanism" list in the anchors (prefer the ones that are easy to
overlook, and spread over different files / functions where the anchors allow), and be independent: each diff applies alone to
clean HEAD with `git apply`.

For each change write a demonstration script (demo_C.py, demo_D.py, demo_E.py): a stand-alone program, run as
`cd {wt} && /venv/bin/python deliver/demo_C.py`, that checks the property on suitable inputs with an oracle that is independent of
the changed code (closed form, brute force, an independent re-implementation, or an unchanged sibling code path), exits 0 on the
clean tree and exits non-zero (an assertion with a clear message) with the change applied. Keep each demo under about 60 s.
Every demo must begin with

    import os, sys
    os.environ.setdefault("OMP_NUM_THREADS", "1"); os.environ.setdefault("OPENBLAS_NUM_THREADS", "1"); os.environ.setdefault("MKL_NUM_THREADS", "1")
    sys.path.insert(0, os.path.dirname(os.path.dirname(os.path.abspath(__file__))))

so that it imports the worktree's pyyeti (and because small-matrix BLAS calls are extremely slow multi-threaded on this machine).
The compiled extension pyyeti/rainflow/c_rain*.so has been copied into the worktree; if you change c_rain.c, rebuild it with
`/venv/bin/python setup.py build_ext --inplace` (and mention that in the notes).

Deliver in {wt}/deliver/ : C.diff, D.diff, E.diff (`git diff` against clean HEAD, source files only), demo_C.py, demo_D.py,
demo_E.py and NOTES.md giving for each change: the site (file / function), the edit, which clause of the property it breaks,
exactly what is needed for it to manifest, and the commands you ran with their outcomes (demo on clean and changed tree, pytest
summary before and after). Leave the worktree at clean HEAD (`git checkout -- .`) when finished; deliver/ is untracked and stays.

No network is available; install nothing; do not modify tests; do not commit.
"""
NEUT="""# Task

You are helping evaluate a verification effort for the open-source Python package pyYeti (a structural-dynamics toolkit).
You have your own private scratch git worktree of the repository at {wt} (detached HEAD; nobody else uses it).
Work only inside that directory. Never touch /repo. Do not read or touch /verif at all.

Read {wt}/PROPERTY.md. It states one semantic property of pyYeti with anchors (files / state / mechanisms).

Produce FOUR independent *behaviour-preserving* clean-up patches (N1.diff .. N4.diff) to the source code named in the anchors -
the kind of edit a maintainer makes without any intention to change behaviour:

* rename local variables / loop indices / private helper parameters;
* introduce named temporaries, inline temporaries, split or merge statements;
* reorder independent statements; hoist loop-invariant expressions;
* restructure control flow: invert a condition and swap the arms, `else` after return removed, nested ifs merged with `and`,
  `if/elif` chains reordered where the tests are mutually exclusive, a `for` loop turned into an equivalent comprehension or back;
* extract a private helper function from a block, or inline a small private helper;
* change formatting style with identical output (`%` <-> `str.format` <-> f-string), move a literal to a module-level constant,
  `x ** 2` <-> `x * x` only where bit-identical, `np.dot(a, b)` <-> `a @ b`, `a.T` <-> `np.transpose(a)`;
* reflow / reformat (black-style), add type hints, comments, docstring edits.

Each patch must touch several of the functions listed under "mechanism" in the anchors and mix several kinds of edit; different
patches should favour different kinds (N1 mostly renames and temporaries, N2 control-flow restructuring, N3 helper extraction /
inlining and statement reordering, N4 anything else you think a static analyser might stumble on while the behaviour is
unchanged). They must not change behaviour at all: results bit-identical for every input, same exceptions. Each diff applies alone to clean
HEAD with `git apply`. Touch source only, never tests.

Verify each patch (a) with the relevant existing tests (`cd {wt} && /venv/bin/python -m pytest -q -p no:cacheprovider --timeout=900
pyyeti/tests/<relevant files>`; some tests fail on the clean tree because of numpy-2 incompatibilities - the failing set must not
change) and (b) with a comparison script of your own that runs the touched functions over many configurations and compares a
digest of the raw bytes of every output (and every exception message) between the clean and the patched tree. Start such scripts with

    import os, sys
    os.environ.setdefault("OMP_NUM_THREADS", "1"); os.environ.setdefault("OPENBLAS_NUM_THREADS", "1"); os.environ.setdefault("MKL_NUM_THREADS", "1")
    sys.path.insert(0, <worktree root>)

(small-matrix BLAS calls are extremely slow multi-threaded on this machine). The compiled extension pyyeti/rainflow/c_rain*.so
has been copied into the worktree.

Deliver in {wt}/deliver/ : N1.diff .. N4.diff (`git diff` against clean HEAD) and NOTES.md listing for each patch the functions
touched, the kinds of edit, and the verification outcome. Leave the worktree at clean HEAD (`git checkout -- .`) when finished;
deliver/ is untracked and stays. No network; install nothing; do not commit.
"""

EXTRA = """
IMPORTANT: never use `git stash` (the stash stack is shared with other worktrees of the same repository): save work in progress with
`git diff > file` and restore with `git apply`. The tests pyyeti/tests/test_cb.py::test_cbcheck_determinate,
test_cbcheck_indeterminate_rb_norm2, test_fdepsd_absacce, test_fdepsd_pvelo and test_eig_si fail intermittently on the clean tree;
ignore them. Set OMP_NUM_THREADS=1 and run the full suite as `... -n 6 --dist loadfile`. You have about 35 minutes.
"""


def main():
    kind, root = sys.argv[1], sys.argv[2]
    if kind == "seed":
        letters, plist = sys.argv[3].split(), sys.argv[4:]
    else:
        plist = sys.argv[3:]
    for pid in plist:
        wt = f"{root}/{pid}"
        os.makedirs(root, exist_ok=True)
        subprocess.run(["git", "-C", "/repo", "worktree", "add", "-q", "--detach", wt, "HEAD"], check=True)
        subprocess.run(f"cp /repo/pyyeti/rainflow/c_rain*.so {wt}/pyyeti/rainflow/", shell=True)
        open(f"{wt}/PROPERTY.md", "w").write(propmd(props[pid]))
        if kind == "seed":
            t = SEED.format(wt=wt)
            for old, new in zip("CDE", letters):
                t = t.replace(f"{old}.diff", f"{new}.diff").replace(f"demo_{old}.py", f"demo_{new}.py")
        else:
            ks = [int(m.group(1)) for d in os.listdir("/verif/neutral") if (m := re.fullmatch(pid + r"-N(\d+)", d))]
            k = max(ks, default=0) + 1
            t = NEUT.format(wt=wt).replace("N1.diff .. N4.diff", f"N{k}.diff .. N{k+3}.diff")
            t = t.replace("(N1 mostly", f"(N{k} mostly").replace(", N2 control", f", N{k+1} control").replace("restructuring, N3 helper", f"restructuring, N{k+2} helper").replace("reordering, N4 anything", f"reordering, N{k+3} anything")
        open(f"{wt}/TASK.md", "w").write(t + EXTRA)
        print(wt)


main()
