#!/usr/bin/env python3
"""Development aid: run the property's checker against delivered (not yet confirmed) diffs.
usage: quick_detect.py <root> [PROP ...]     e.g. quick_detect.py /tmp/wt3 C01 C02   (all properties when none given)
For every <root>/<PROP>/deliver/*.diff: copy /repo/pyyeti to a scratch directory under /tmp, apply, run `run.py PROP --no-evidence --repo`, print rc and
the failing rules.  Scratch copies are removed."""
import glob
import os
import shutil
import subprocess
import sys
import tempfile
from concurrent.futures import ThreadPoolExecutor

VERIF = os.path.dirname(os.path.dirname(os.path.abspath(__file__)))


def one(args):
    prop, diff = args
    d = tempfile.mkdtemp(prefix="qd_")
    try:
        shutil.copytree("/repo/pyyeti", os.path.join(d, "pyyeti"), ignore=shutil.ignore_patterns("tests", "__pycache__", "*.so"))
        shutil.copy("/repo/setup.py", d)
        r = subprocess.run(f"patch -p1 -s --no-backup-if-mismatch < {diff}", shell=True, cwd=d, capture_output=True, text=True)
        if r.returncode:
            return prop, diff, "noapply", []
        r = subprocess.run(["/venv/bin/python", "-I", "-S", "verifier/run.py", prop, "--no-evidence", "--repo", d], cwd=VERIF, capture_output=True, text=True)
        rules = sorted({l.split()[1] for l in r.stdout.splitlines() if l.startswith(("  FAIL", "  ERROR"))})
        return prop, diff, r.returncode, rules
    finally:
        shutil.rmtree(d, ignore_errors=True)


def main():
    root = sys.argv[1]
    props = sys.argv[2:] or sorted(os.listdir(root))
    jobs = []
    for p in props:
        for f in sorted(glob.glob(os.path.join(root, p, "deliver", "*.diff"))):
            jobs.append((p, f))
    with ThreadPoolExecutor(6) as ex:
        for prop, diff, rc, rules in ex.map(one, jobs):
            print(f"{prop} {os.path.basename(diff):8s} rc={rc} {' '.join(rules)}", flush=True)


if __name__ == "__main__":
    main()
