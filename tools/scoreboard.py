#!/usr/bin/env python3
"""Development aid: one table of how the registered checkers fare on every stored patch.

usage: scoreboard.py [PROP ...] [--extra /tmp/wt3] [--jobs 8]
  seeded/<id>/patch.diff  (behaviour-breaking; want exit 1 from the checker of its property)
  neutral/<id>/patch.diff (behaviour-preserving; want exit 0)
  with --extra <root>: also <root>/<PROP>/deliver/{C..H}.diff (seeded, not yet confirmed) and N*.diff (neutral)
Each patch is applied to a scratch copy of /repo/pyyeti under /tmp (removed afterwards) and only the checker of the patch's own property is run.
Prints one line per patch and a summary per property; writes nothing under /verif."""
import glob
import json
import os
import re
import shutil
import subprocess
import sys
import tempfile
from concurrent.futures import ThreadPoolExecutor

VERIF = os.path.dirname(os.path.dirname(os.path.abspath(__file__)))


def one(job):
    kind, pid, prop, diff = job
    d = tempfile.mkdtemp(prefix="sb_")
    try:
        shutil.copytree("/repo/pyyeti", os.path.join(d, "pyyeti"), ignore=shutil.ignore_patterns("tests", "__pycache__", "*.so"))
        shutil.copy("/repo/setup.py", d)
        r = subprocess.run(f"patch -p1 -s --no-backup-if-mismatch < {diff}", shell=True, cwd=d, capture_output=True, text=True)
        if r.returncode:
            return kind, pid, prop, "noapply", []
        try:
            r = subprocess.run(["/venv/bin/python", "-I", "-S", "verifier/run.py", prop, "--no-evidence", "--repo", d], cwd=VERIF, capture_output=True, text=True,
                               timeout=900)
        except subprocess.TimeoutExpired:
            return kind, pid, prop, "timeout", []
        rules = sorted({l.split()[1] for l in r.stdout.splitlines() if l.startswith(("  FAIL", "  ERROR"))})
        return kind, pid, prop, r.returncode, rules
    finally:
        shutil.rmtree(d, ignore_errors=True)


def main():
    args = sys.argv[1:]
    extra = args[args.index("--extra") + 1] if "--extra" in args else None
    jobs_n = int(args[args.index("--jobs") + 1]) if "--jobs" in args else 8
    props = [a for a in args if re.fullmatch(r"C\d\d", a)]
    jobs = []
    for d in sorted(glob.glob(os.path.join(VERIF, "seeded", "*"))):
        pid = os.path.basename(d)
        prop = pid.split("-")[0]
        if (not props or prop in props) and os.path.exists(os.path.join(d, "patch.diff")):
            jobs.append(("seed", pid, prop, os.path.join(d, "patch.diff")))
    for d in sorted(glob.glob(os.path.join(VERIF, "neutral", "*"))):
        pid = os.path.basename(d)
        prop = pid.split("-")[0]
        if (not props or prop in props) and os.path.exists(os.path.join(d, "patch.diff")):
            jobs.append(("neutral", pid, prop, os.path.join(d, "patch.diff")))
    if extra:
        have = {j[1] for j in jobs}
        for f in sorted(glob.glob(os.path.join(extra, "C??", "deliver", "*.diff"))):
            prop = f.split(os.sep)[-3]
            nm = os.path.basename(f)[:-5]
            pid = f"{prop}-{nm}"
            if (props and prop not in props) or pid in have:
                continue
            jobs.append(("neutral" if nm.startswith("N") else "seed", pid + "*", prop, f))
    per = {}
    with ThreadPoolExecutor(jobs_n) as ex:
        for kind, pid, prop, rc, rules in ex.map(one, jobs):
            good = (rc == 1) if kind == "seed" else (rc == 0)
            a = per.setdefault(prop, {"seed": [0, 0, 0], "neutral": [0, 0]})
            if kind == "seed":
                a["seed"][0] += 1
                a["seed"][1] += rc == 1
                a["seed"][2] += rc == 2
            else:
                a["neutral"][0] += 1
                a["neutral"][1] += rc == 0
            print(f"{'ok ' if good else 'BAD'} {kind:7s} {pid:10s} rc={rc} {' '.join(rules)[:100]}", flush=True)
    print("\nproperty  seeds detected (exit 2)   neutral silent")
    ts = [0, 0, 0]
    tn = [0, 0]
    for prop in sorted(per):
        s, n = per[prop]["seed"], per[prop]["neutral"]
        print(f"{prop}       {s[1]:2d}/{s[0]:2d} ({s[2]})                {n[1]:2d}/{n[0]:2d}")
        for i in range(3):
            ts[i] += s[i]
        tn[0] += n[0]
        tn[1] += n[1]
    print(f"total     {ts[1]}/{ts[0]} ({ts[2]})              {tn[1]}/{tn[0]}")


if __name__ == "__main__":
    main()
