#!/usr/bin/env python3
"""Automatic behaviour-preserving variants of /repo for false-alarm testing of the checks (never part of a registered command).

  T1 rename   every local variable of every function consulted by the property's check gets a new name
  T2 unparse  every consulted file is round-tripped through ast.unparse (layout, quotes, parentheses, line numbers change)

usage: neutral_auto.py [Cxx ...]   -> prints one line per (property, transform): rc and the first report lines
"""
import ast, builtins, json, os, shutil, subprocess, sys, tempfile
VERIF = os.path.dirname(os.path.dirname(os.path.abspath(__file__)))
PY = "/venv/bin/python"


class Renamer(ast.NodeTransformer):
    def __init__(self, mp):
        self.mp = mp

    def visit_Name(self, n):
        if n.id in self.mp:
            n.id = self.mp[n.id]
        return n

    # nested scopes: do not descend (their free variables could refer to our locals: such locals are excluded by the caller)
    def visit_FunctionDef(self, n):
        return n

    visit_AsyncFunctionDef = visit_Lambda = visit_ClassDef = visit_FunctionDef


def locals_of(fn):
    params = {a.arg for a in fn.args.args + fn.args.kwonlyargs + fn.args.posonlyargs}
    if fn.args.vararg:
        params.add(fn.args.vararg.arg)
    if fn.args.kwarg:
        params.add(fn.args.kwarg.arg)
    assigned, banned = set(), set(params)
    nested_used = set()

    def walk(node, top=True):
        for c in ast.iter_child_nodes(node):
            if isinstance(c, (ast.FunctionDef, ast.AsyncFunctionDef, ast.Lambda, ast.ClassDef)):
                if hasattr(c, "name"):
                    banned.add(c.name)
                for x in ast.walk(c):
                    if isinstance(x, ast.Name):
                        nested_used.add(x.id)
                continue
            if isinstance(c, (ast.ListComp, ast.SetComp, ast.DictComp, ast.GeneratorExp)):
                for x in ast.walk(c):
                    if isinstance(x, ast.Name):
                        nested_used.add(x.id)     # comprehension scopes: leave every name they touch alone
                continue
            if isinstance(c, (ast.Global, ast.Nonlocal)):
                banned.update(c.names)
            if isinstance(c, ast.Name) and isinstance(c.ctx, (ast.Store, ast.Del)):
                assigned.add(c.id)
            if isinstance(c, (ast.Import, ast.ImportFrom)):
                for a in c.names:
                    banned.add((a.asname or a.name).split(".")[0])
            if isinstance(c, ast.ExceptHandler) and c.name:
                banned.add(c.name)
            if isinstance(c, ast.Call) and isinstance(c.func, ast.Name) and c.func.id in ("locals", "vars", "eval", "exec"):
                banned.add("*")
            walk(c, False)
    walk(fn)
    if "*" in banned:
        return set()
    return {n for n in assigned if n not in banned and n not in nested_used and not hasattr(builtins, n) and not n.startswith("__")}


class Temps(ast.NodeTransformer):
    """x = a <op> b  ->  _t1 = a; x = _t1 <op> b   (evaluation order is unchanged)"""

    def __init__(self):
        self.k = 0

    def _block(self, stmts):
        out = []
        for st in stmts:
            st = self.visit(st)
            if isinstance(st, ast.Assign) and isinstance(st.value, ast.BinOp) and not isinstance(st.value.left, (ast.Constant, ast.Name)):
                self.k += 1
                nm = f"_t{self.k}"
                out.append(ast.Assign(targets=[ast.Name(id=nm, ctx=ast.Store())], value=st.value.left, lineno=st.lineno, col_offset=0))
                st.value.left = ast.Name(id=nm, ctx=ast.Load())
            out.append(st)
        return out

    def generic_visit(self, node):
        for f in ("body", "orelse", "finalbody"):
            v = getattr(node, f, None)
            if isinstance(v, list) and v and isinstance(v[0], ast.stmt):
                setattr(node, f, self._block(v))
        if isinstance(node, ast.Try):
            for h in node.handlers:
                h.body = self._block(h.body)
        return node

    def visit_Lambda(self, node):
        return node


class Commute(ast.NodeTransformer):
    """a * b -> b * a (elementwise products commute bit for bit); matrix products (@) and sums are left alone"""

    def visit_BinOp(self, node):
        self.generic_visit(node)
        if isinstance(node.op, ast.Mult) and not any(isinstance(x, (ast.List, ast.Tuple, ast.JoinedStr)) or
                                                    (isinstance(x, ast.Constant) and isinstance(x.value, (str, bytes))) for x in (node.left, node.right)):
            node.left, node.right = node.right, node.left
        return node


class SwapIf(ast.NodeTransformer):
    """if t: A else: B -> if not t: B else: A   (only two-armed ifs that are not elif chains)"""

    def visit_If(self, node):
        self.generic_visit(node)
        if node.orelse and not (len(node.orelse) == 1 and isinstance(node.orelse[0], ast.If)):
            node.test = ast.UnaryOp(op=ast.Not(), operand=node.test)
            node.body, node.orelse = node.orelse, node.body
        return node


def _in_functions(tree, quals, fnvisit):
    def visit(node, prefix):
        for c in ast.iter_child_nodes(node):
            if isinstance(c, (ast.FunctionDef, ast.AsyncFunctionDef)):
                q = prefix + c.name
                if q in quals:
                    fnvisit(c)
                visit(c, q + ".")
            elif isinstance(c, ast.ClassDef):
                visit(c, prefix + c.name + ".")
            else:
                visit(c, prefix)
    visit(tree, "")


def transform(path, quals, mode):
    src = open(path).read()
    tree = ast.parse(src)
    if mode == "temps":
        t = Temps()
        _in_functions(tree, quals, lambda fn: t.generic_visit(fn))
    if mode == "commute":
        _in_functions(tree, quals, lambda fn: Commute().generic_visit(fn))
    if mode == "swapif":
        _in_functions(tree, quals, lambda fn: SwapIf().generic_visit(fn))
    if mode == "rename":
        def visit(node, prefix):
            for c in ast.iter_child_nodes(node):
                if isinstance(c, (ast.FunctionDef, ast.AsyncFunctionDef)):
                    q = prefix + c.name
                    if q in quals or any(x.startswith(q + ".") for x in quals):
                        if q in quals:
                            mp = {n: n + "_rn" for n in locals_of(c)}
                            r = Renamer(mp)
                            c.body = [r.visit(s) for s in c.body]
                        visit(c, q + ".")
                elif isinstance(c, ast.ClassDef):
                    visit(c, prefix + c.name + ".")
                else:
                    visit(c, prefix)
        visit(tree, "")
    ast.fix_missing_locations(tree)
    out = ast.unparse(tree)
    open(path, "w").write(out + "\n")


def main():
    props = sys.argv[1:] or [f"C{i:02d}" for i in range(1, 20)]
    base = tempfile.mkdtemp(prefix="verif_neutral_")
    try:
        for pid in props:
            ev = json.load(open(os.path.join(VERIF, "evidence", f"{pid}.json")))
            fc = ev["coverage"]["functions_consulted"]
            byfile = {}
            for f in fc:
                rel, q = f.split(":", 1)
                byfile.setdefault(rel, set()).add(q.split("#")[0])
            for mode in os.environ.get("MODES", "unparse,rename,temps,commute,swapif").split(","):
                d = os.path.join(base, f"{pid}_{mode}")
                shutil.copytree("/repo/pyyeti", os.path.join(d, "pyyeti"), ignore=shutil.ignore_patterns("tests", "__pycache__", "*.so"))
                for extra in ("setup.py", "pyproject.toml", "setup.cfg"):
                    if os.path.exists(os.path.join("/repo", extra)):
                        shutil.copy(os.path.join("/repo", extra), os.path.join(d, extra))
                for rel, quals in byfile.items():
                    if rel.endswith(".py"):
                        transform(os.path.join(d, rel), quals, mode)
                        subprocess.run([PY, "-m", "py_compile", os.path.join(d, rel)], check=True)
                r = subprocess.run([PY, "-I", "-S", "verifier/run.py", pid, "--no-evidence", "--repo", d], cwd=VERIF, capture_output=True, text=True)
                lines = [l for l in r.stdout.splitlines() if l.startswith(("  FAIL", "  ERROR", "ANALYSIS"))]
                print(f"{pid} {mode:8s} rc={r.returncode} fails={sum(l.startswith('  FAIL') for l in lines)} errors={sum(l.startswith('  ERROR') for l in lines)}")
                for l in lines[:int(os.environ.get('NLINES', '3'))]:
                    print("      " + l[:260])
                shutil.rmtree(d, ignore_errors=True)
    finally:
        shutil.rmtree(base, ignore_errors=True)


if __name__ == "__main__":
    main()
