#!/usr/bin/env python3
"""Mutation sweep: how much of the anchored code do the static rules actually constrain?

usage: mutate.py <PROP> [--jobs 16] [--max-per-func 60] [--funcs re] [--out /tmp/mut_<PROP>.json]

For every function the property's rules consult (evidence/<PROP>.json -> functions_consulted) and every function of the anchored
files whose name occurs in the property's anchor text, generate first-order AST mutants (operator, comparison, constant, sibling
name, index order, argument order, statement deletion, augmented-assignment), write each into a scratch copy of /repo/pyyeti
(outside /repo and /verif, removed at the end), byte-compile it and run the property's checker with --repo.  Reports per function:
mutants, detected (exit 1), analysis errors (exit 2), silent (exit 0), and lists the silent ones.  This is a development tool: it is
not a registered check and produces no evidence; silent mutants are read by hand (many are equivalent or outside the property)."""
import ast
import json
import multiprocessing as mp
import os
import py_compile
import re
import shutil
import subprocess
import sys
import tempfile

VERIF = os.path.dirname(os.path.dirname(os.path.abspath(__file__)))
PY = "/venv/bin/python"
REPO = "/repo"

SIB = [("rb", "_rb"), ("el", "_el"), ("sin", "cos"), ("maximum", "minimum"), ("fmax", "fmin"), ("nanargmax", "nanargmin"),
       ("argmax", "argmin"), ("max", "min"), ("real", "imag"), ("floor", "ceil"), ("mx", "mn"), ("maxcase", "mincase"),
       ("mx_x", "mn_x"), ("nan_argmax", "nan_argmin"), ("rows", "cols"), ("d", "v"), ("F", "G"), ("A", "B"), ("Fp", "Gp"),
       ("Ap", "Bp"), ("P", "Q"), ("d0", "v0"), ("nonzero", "all"), ("any", "all"), ("rf", "nonrf"), ("kdof", "nonrf"),
       ("ur_d", "ur_v"), ("ur_inv_d", "ur_inv_v"), ("E_dd", "E_vv"), ("E_dv", "E_vd"), ("i", "j"), ("lo", "hi"),
       ("left", "right"), ("start", "stop"), ("bset", "qset"), ("b", "q"), ("M", "N"), ("S", "M"), ("amp", "mean"),
       ("ceil", "round"), ("hstack", "vstack"), ("cumsum", "sum"), ("float32", "float64"), ("int32", "int64"),
       ("euf", "duf"), ("ruf", "suf"), ("d_static", "d_dynamic"), ("pvrb", "pvel"), ("SAM", "LAM"), ("Source", "Load")]
SIBMAP = {}
for a, b in SIB:
    SIBMAP.setdefault(a, []).append(b)
    SIBMAP.setdefault(b, []).append(a)

BINSWAP = {ast.Add: [ast.Sub], ast.Sub: [ast.Add], ast.Mult: [ast.Div], ast.Div: [ast.Mult], ast.FloorDiv: [ast.Div],
           ast.Mod: [ast.FloorDiv], ast.LShift: [ast.RShift], ast.RShift: [ast.LShift], ast.BitAnd: [ast.BitOr],
           ast.BitOr: [ast.BitAnd], ast.Pow: [ast.Mult], ast.MatMult: []}
CMPSWAP = {ast.Lt: [ast.LtE, ast.Gt], ast.LtE: [ast.Lt], ast.Gt: [ast.GtE, ast.Lt], ast.GtE: [ast.Gt], ast.Eq: [ast.NotEq],
           ast.NotEq: [ast.Eq], ast.In: [ast.NotIn], ast.NotIn: [ast.In], ast.Is: [ast.IsNot], ast.IsNot: [ast.Is]}


def seg_replace(src_lines, node, new_text):
    """replace the source segment of node by new_text (single or multi line)"""
    l0, c0, l1, c1 = node.lineno - 1, node.col_offset, node.end_lineno - 1, node.end_col_offset
    lines = list(src_lines)
    # col offsets are utf8 byte offsets
    b0 = lines[l0].encode()
    b1 = lines[l1].encode()
    head = b0[:c0].decode()
    tail = b1[c1:].decode()
    lines[l0:l1 + 1] = [head + new_text + tail]
    return lines


def mutants_of(func, src_lines):
    """yield (description, new_source_lines)"""
    import copy
    out = []

    def emit(node, new_node, what):
        try:
            txt = ast.unparse(new_node)
        except Exception:
            return
        if isinstance(node, ast.expr) and not isinstance(new_node, (ast.Name, ast.Constant, ast.Attribute, ast.Subscript, ast.Call)):
            txt = "(" + txt + ")"
        old = ast.get_source_segment("".join(src_lines), node) or ""
        if " ".join(txt.split()) == " ".join(old.split()):
            return
        out.append((f"L{node.lineno}: {what}: `{old[:70]}` -> `{txt[:70]}`", seg_replace(src_lines, node, txt)))

    doc = ast.get_docstring(func, clean=False)
    for node in ast.walk(func):
        if isinstance(node, ast.Expr) and isinstance(node.value, ast.Constant) and isinstance(node.value.value, str):
            continue
        if isinstance(node, ast.BinOp):
            for new in BINSWAP.get(type(node.op), []):
                n2 = copy.deepcopy(node)
                n2.op = new()
                emit(node, n2, "binop")
        elif isinstance(node, ast.Compare) and len(node.ops) == 1:
            for new in CMPSWAP.get(type(node.ops[0]), []):
                n2 = copy.deepcopy(node)
                n2.ops = [new()]
                emit(node, n2, "cmp")
        elif isinstance(node, ast.BoolOp):
            n2 = copy.deepcopy(node)
            n2.op = ast.Or() if isinstance(node.op, ast.And) else ast.And()
            emit(node, n2, "boolop")
        elif isinstance(node, ast.UnaryOp) and isinstance(node.op, (ast.USub, ast.Not, ast.Invert)):
            emit(node, copy.deepcopy(node.operand), "drop-unary")
        elif isinstance(node, ast.Constant) and not isinstance(node.value, (str, bytes, bool)) and node.value is not None \
                and node.value is not Ellipsis:
            v = node.value
            if isinstance(v, int):
                for nv in ({v + 1, v - 1} if abs(v) < 70000 else {v + 1}):
                    if nv < 0:
                        continue
                    emit(node, ast.Constant(nv), "const")
            elif isinstance(v, float):
                emit(node, ast.Constant(v * 2), "const")
                if v not in (0.0, 1.0, 2.0, 0.5):
                    emit(node, ast.Constant(float(repr(v * (1 + 1e-6)))), "const-nudge")
        elif isinstance(node, ast.Name) and isinstance(node.ctx, ast.Load) and node.id in SIBMAP:
            for s in SIBMAP[node.id]:
                emit(node, ast.Name(s, ast.Load()), "sibling-name")
        elif isinstance(node, ast.Attribute) and isinstance(node.ctx, ast.Load) and node.attr in SIBMAP:
            for s in SIBMAP[node.attr]:
                n2 = copy.deepcopy(node)
                n2.attr = s
                emit(node, n2, "sibling-attr")
        elif isinstance(node, ast.Subscript):
            sl = node.slice
            if isinstance(sl, ast.Tuple) and len(sl.elts) == 2 and ast.dump(sl.elts[0]) != ast.dump(sl.elts[1]):
                n2 = copy.deepcopy(node)
                n2.slice.elts = [n2.slice.elts[1], n2.slice.elts[0]]
                emit(node, n2, "index-order")
            if isinstance(sl, ast.Slice):
                for fld in ("lower", "upper"):
                    b = getattr(sl, fld)
                    if b is not None and not isinstance(b, ast.Constant):
                        n2 = copy.deepcopy(node)
                        setattr(n2.slice, fld, ast.BinOp(copy.deepcopy(b), ast.Add(), ast.Constant(1)))
                        emit(node, n2, "slice-bound+1")
                    elif b is None and fld == "lower" and sl.upper is not None:
                        pass
        elif isinstance(node, ast.Call) and len(node.args) >= 2 and not any(isinstance(a, ast.Starred) for a in node.args):
            if ast.dump(node.args[0]) != ast.dump(node.args[1]):
                n2 = copy.deepcopy(node)
                n2.args[0], n2.args[1] = n2.args[1], n2.args[0]
                emit(node, n2, "arg-swap")
        elif isinstance(node, ast.AugAssign):
            n2 = copy.deepcopy(node)
            if isinstance(node.op, ast.Add):
                n2.op = ast.Sub()
            elif isinstance(node.op, ast.Sub):
                n2.op = ast.Add()
            elif isinstance(node.op, ast.Mult):
                n2.op = ast.Div()
            elif isinstance(node.op, ast.Div):
                n2.op = ast.Mult()
            else:
                n2 = None
            if n2 is not None:
                emit(node, n2, "augop")
            emit(node, ast.Assign([copy.deepcopy(node.target)], copy.deepcopy(node.value), lineno=node.lineno), "aug->assign")
        elif isinstance(node, ast.IfExp):
            n2 = copy.deepcopy(node)
            n2.body, n2.orelse = n2.orelse, n2.body
            emit(node, n2, "ifexp-swap")
    # statement deletion
    for node in ast.walk(func):
        for fld in ("body", "orelse", "finalbody"):
            body = getattr(node, fld, None)
            if not isinstance(body, list) or len(body) < 2:
                continue
            for st in body:
                if isinstance(st, (ast.Assign, ast.AugAssign)) or (isinstance(st, ast.Expr) and isinstance(st.value, ast.Call)):
                    old = ast.get_source_segment("".join(src_lines), st) or ""
                    out.append((f"L{st.lineno}: delete-stmt: `{old[:90]}`", seg_replace(src_lines, st, "pass")))
    return out


def targets(prop):
    ev = json.load(open(os.path.join(VERIF, "evidence", f"{prop}.json")))
    cons = set(ev["coverage"]["functions_consulted"])
    p = None
    for l in open(os.path.join(VERIF, "properties.jsonl")):
        q = json.loads(l)
        if q["id"] == prop:
            p = q
    text = json.dumps(p["anchors"])
    words = set(re.findall(r"[A-Za-z_][A-Za-z_0-9]*", text))
    res = {}
    files = set(p["anchors"]["files"]) | {c.split(":")[0] for c in cons}
    for rel in sorted(files):
        path = os.path.join(REPO, rel)
        if not rel.endswith(".py") or not os.path.exists(path):
            continue
        tree = ast.parse(open(path).read())

        def walk(node, prefix):
            for ch in ast.iter_child_nodes(node):
                if isinstance(ch, (ast.FunctionDef, ast.AsyncFunctionDef)):
                    q = prefix + ch.name
                    why = None
                    if f"{rel}:{q}" in cons:
                        why = "consulted"
                    elif ch.name in words and len(ch.name) > 3:
                        why = "anchor-text"
                    if why:
                        res[(rel, q)] = (ch, why)
                    walk(ch, q + ".")
                elif isinstance(ch, ast.ClassDef):
                    walk(ch, prefix + ch.name + ".")
                else:
                    walk(ch, prefix)
        walk(tree, "")
    return res


_WT = None


def _init_worker(base):
    global _WT
    _WT = tempfile.mkdtemp(prefix="w_", dir=base)
    shutil.copytree(os.path.join(REPO, "pyyeti"), os.path.join(_WT, "pyyeti"),
                    ignore=shutil.ignore_patterns("tests", "__pycache__", "*.so"))
    for extra in ("setup.py", "pyproject.toml", "setup.cfg"):
        if os.path.exists(os.path.join(REPO, extra)):
            shutil.copy(os.path.join(REPO, extra), os.path.join(_WT, extra))


def _run_one(job):
    prop, rel, qual, what, new_src = job
    path = os.path.join(_WT, rel)
    orig = open(os.path.join(REPO, rel)).read()
    try:
        with open(path, "w") as f:
            f.write(new_src)
        try:
            compile(new_src, path, "exec")
        except Exception:
            return (rel, qual, what, "nocompile", [])
        r = subprocess.run([PY, "-I", "-S", "verifier/run.py", prop, "--no-evidence", "--repo", _WT], cwd=VERIF,
                           capture_output=True, text=True, timeout=600)
        rules = sorted({l.split()[1] for l in r.stdout.splitlines() if l.startswith(("  FAIL", "  ERROR"))})
        return (rel, qual, what, {0: "silent", 1: "detected", 2: "error"}.get(r.returncode, f"rc{r.returncode}"), rules)
    finally:
        with open(path, "w") as f:
            f.write(orig)


def main():
    prop = sys.argv[1]
    jobs = int(sys.argv[sys.argv.index("--jobs") + 1]) if "--jobs" in sys.argv else 16
    maxper = int(sys.argv[sys.argv.index("--max-per-func") + 1]) if "--max-per-func" in sys.argv else 80
    fre = re.compile(sys.argv[sys.argv.index("--funcs") + 1]) if "--funcs" in sys.argv else None
    out = sys.argv[sys.argv.index("--out") + 1] if "--out" in sys.argv else f"/tmp/mut_{prop}.json"
    tg = targets(prop)
    joblist = []
    import random
    rnd = random.Random(1)
    for (rel, qual), (fn, why) in sorted(tg.items()):
        if fre and not fre.search(qual):
            continue
        src_lines = open(os.path.join(REPO, rel)).read().splitlines(keepends=True)
        ms = mutants_of(fn, src_lines)
        if len(ms) > maxper:
            ms = rnd.sample(ms, maxper)
        for what, new_lines in ms:
            joblist.append((prop, rel, qual, what, "".join(new_lines)))
    print(f"{prop}: {len(tg)} target functions, {len(joblist)} mutants", flush=True)
    base = tempfile.mkdtemp(prefix="verif_mut_")
    res = []
    try:
        with mp.Pool(jobs, initializer=_init_worker, initargs=(base,)) as pool:
            for k, r in enumerate(pool.imap_unordered(_run_one, joblist)):
                res.append(r)
                if (k + 1) % 200 == 0:
                    print(f"  {k + 1}/{len(joblist)}", flush=True)
    finally:
        shutil.rmtree(base, ignore_errors=True)
    per = {}
    for rel, qual, what, st, rules in res:
        a = per.setdefault((rel, qual), {"detected": 0, "error": 0, "silent": 0, "nocompile": 0})
        a[st] = a.get(st, 0) + 1
    print(f"{'function':70s} why        mut  det  err  silent")
    tot = {"detected": 0, "error": 0, "silent": 0}
    for (rel, qual), a in sorted(per.items()):
        n = a["detected"] + a["error"] + a["silent"]
        for k in tot:
            tot[k] += a[k]
        print(f"{(rel.replace('pyyeti/', '') + ':' + qual)[:70]:70s} {tg[(rel, qual)][1][:9]:9s} {n:4d} {a['detected']:4d} {a['error']:4d} {a['silent']:6d}")
    n = sum(tot.values())
    print(f"TOTAL {n} mutants: detected {tot['detected']} ({100 * tot['detected'] // max(n, 1)}%), error {tot['error']}, silent {tot['silent']}")
    json.dump([{"file": r[0], "func": r[1], "what": r[2], "status": r[3], "rules": r[4]} for r in sorted(res)], open(out, "w"), indent=0)
    print("details:", out)


if __name__ == "__main__":
    main()
