#!/usr/bin/env python3
"""Re-run the registered checkers against every confirmed seeded change and every stored refactoring patch and refresh the `checks` /
`detected_by` / `silent` fields of their meta.json (the checkers evolve after a change was confirmed; demo and suite results are not touched).
usage: refresh_seed_checks.py [--all-checks] [--jobs 8]     (default: only the checker of the patch's own property)"""
import glob
import json
import os
import shutil
import subprocess
import sys
import tempfile
from concurrent.futures import ThreadPoolExecutor

VERIF = os.path.dirname(os.path.dirname(os.path.abspath(__file__)))
ALL = "--all-checks" in sys.argv
JOBS = int(sys.argv[sys.argv.index("--jobs") + 1]) if "--jobs" in sys.argv else 8
PROPS = [f"C{i:02d}" for i in range(1, 21)]


def one(d):
    mp = os.path.join(d, "meta.json")
    pf = os.path.join(d, "patch.diff")
    if not (os.path.exists(mp) and os.path.exists(pf)):
        return os.path.basename(d), None
    meta = json.load(open(mp))
    prop = os.path.basename(d).split("-")[0]
    t = tempfile.mkdtemp(prefix="rf_")
    try:
        shutil.copytree("/repo/pyyeti", os.path.join(t, "pyyeti"), ignore=shutil.ignore_patterns("tests", "__pycache__", "*.so"))
        shutil.copy("/repo/setup.py", t)
        r = subprocess.run(f"patch -p1 -s --no-backup-if-mismatch < {pf}", shell=True, cwd=t, capture_output=True, text=True)
        if r.returncode:
            meta["applies_to_current_head"] = False
            json.dump(meta, open(mp, "w"), indent=1)
            return os.path.basename(d), "noapply"
        det = {}
        for pid in (PROPS if ALL else [prop]):
            r = subprocess.run(["/venv/bin/python", "-I", "-S", "verifier/run.py", pid, "--no-evidence", "--repo", t], cwd=VERIF, capture_output=True, text=True)
            lines = [l for l in r.stdout.splitlines() if l.startswith(("VIOLATION", "  FAIL", "ANALYSIS-ERROR", "  ERROR"))]
            det[pid] = {"rc": r.returncode, "lines": [l[:300] for l in lines[:8]]}
        if "seeded" in d:
            old = meta.get("checks") or {}
            old.update(det)
            meta["checks"] = old
            meta["detected_by_own_property"] = det[prop]["rc"] == 1
            meta["detected_by"] = sorted(p for p, x in old.items() if x["rc"] == 1)
        else:
            old = meta.get("checks") or {}
            old.update(det)
            meta["checks"] = old
            meta["silent"] = all(x["rc"] == 0 for x in old.values())
        json.dump(meta, open(mp, "w"), indent=1)
        return os.path.basename(d), det[prop]["rc"]
    finally:
        shutil.rmtree(t, ignore_errors=True)


dirs = sorted(glob.glob(os.path.join(VERIF, "seeded", "*"))) + sorted(glob.glob(os.path.join(VERIF, "neutral", "*")))
with ThreadPoolExecutor(JOBS) as ex:
    for name, rc in ex.map(one, dirs):
        print(name, rc, flush=True)
