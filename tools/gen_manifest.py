"""Regenerate MANIFEST.json from the checker modules that exist (run with any python3)."""
import importlib
import json
import os
import sys

HERE = os.path.dirname(os.path.dirname(os.path.abspath(__file__)))
sys.path.insert(0, HERE)

NA_FIXED = {}

props = [json.loads(l) for l in open(os.path.join(HERE, "properties.jsonl"))]
checks, na = [], []
PY = "/venv/bin/python -I -S verifier/run.py"
for p in props:
    pid = p["id"]
    if pid in NA_FIXED:
        na.append({"property_id": pid, "reason": NA_FIXED[pid]})
        continue
    try:
        mod = importlib.import_module(f"verifier.{pid.lower()}")
        M = mod.MANIFEST
    except (ImportError, AttributeError):
        na.append({"property_id": pid, "reason": "rules designed in DESIGN.md section 3 but not built yet; no check is claimed until "
                                                 "its rule runs on the current tree"})
        continue
    checks.append({
        "property_id": pid,
        "quick_cmd": f"{PY} {pid} --tier quick",
        "thorough_cmd": f"{PY} {pid} --tier thorough",
        "evidence_file": f"/verif/evidence/{pid}.json",
        "replay_cmd_template": f"{PY} {pid} --replay {{path}}",
        "engine": "verifier",
        "level_claimed": {"category": mod.LEVEL, "text": M["text"], "design_ref": f"DESIGN.md section 3, {pid}"},
        "level_note": M["note"],
        "technique": M["technique"],
    })
man = {
    "version": 1,
    "setup_cmd": "/venv/bin/python -I -S -m compileall -q verifier",
    "hooks": {
        "guard": "PYYETI_VERIF",
        "enable": "none needed: every check is a static analysis of /repo's source text; no instrumentation exists, the guard is declared but unused",
        "baseline_off_cmd": "cd /repo && /venv/bin/python -m pytest -ra -q -p no:cacheprovider --timeout=900 --continue-on-collection-errors",
        "source_commits": json.load(open(os.path.join(HERE, "known_findings.json"))).get("fix_commits", []) if os.path.exists(os.path.join(HERE, "known_findings.json")) else [],
        "add_only": True,
    },
    "engines": [
        {"name": "verifier", "path": "verifier/", "serves_properties": [c["property_id"] for c in checks],
         "kind_free_text": "repo-specific static analysis on the CPython ast of /repo's current source (and clang-14's JSON AST of c_rain.c): "
                           "formula extraction into exact rational normal forms, partition/frame typing, effect and carried-state analysis, "
                           "format-width abstract interpretation, reader/writer layout comparison; no pyyeti code is imported or executed"},
    ],
    "checks": checks,
    "not_applicable": na,
    "notes": "All checks are static (DESIGN.md). Exit 0 = all obligations discharged (known findings print KNOWN-FINDING lines); "
             "exit 1 + VIOLATION line = an obligation failed; exit 2 + ANALYSIS-ERROR = a rule could not be bound to the tree (never a silent pass).",
}
json.dump(man, open(os.path.join(HERE, "MANIFEST.json"), "w"), indent=1)
print("checks:", [c["property_id"] for c in checks])
print("n/a   :", [c["property_id"] for c in na])
