#!/usr/bin/env python3
"""Run the checks against behaviour-preserving refactorings delivered by the clean-up agents (or stored under /verif/neutral).

usage: neutral_eval.py <PROP> [--from /tmp/wt2/<PROP>/deliver] [--all-checks]
Each N*.diff is applied to a scratch copy of /repo (outside /repo and /verif, removed afterwards); the property's check must
exit 0.  Patches are stored under /verif/neutral/<PROP>-N<k>/ with the agent's notes and the outcome."""
import json, os, re, shutil, subprocess, sys, tempfile
VERIF = os.path.dirname(os.path.dirname(os.path.abspath(__file__)))
PY = "/venv/bin/python"


def main():
    prop = sys.argv[1]
    src = f"/tmp/wt2/{prop}/deliver"
    if "--from" in sys.argv:
        src = sys.argv[sys.argv.index("--from") + 1]
    allc = "--all-checks" in sys.argv
    store = os.path.join(VERIF, "neutral")
    os.makedirs(store, exist_ok=True)
    patches = []
    if os.path.isdir(src):
        for f in sorted(os.listdir(src)):
            m = re.fullmatch(r"N(\d+)\.diff", f)
            if m:
                d = os.path.join(store, f"{prop}-N{m.group(1)}")
                os.makedirs(d, exist_ok=True)
                shutil.copy(os.path.join(src, f), os.path.join(d, "patch.diff"))
                if os.path.exists(os.path.join(src, "NOTES.md")):
                    shutil.copy(os.path.join(src, "NOTES.md"), os.path.join(d, "NOTES.agent.md"))
    for d in sorted(os.listdir(store)):
        if d.startswith(prop + "-N") and os.path.exists(os.path.join(store, d, "patch.diff")):
            patches.append(d)
    man = json.load(open(os.path.join(VERIF, "MANIFEST.json")))
    props = [c["property_id"] for c in man["checks"]] if allc else [prop]
    base = tempfile.mkdtemp(prefix="verif_neval_")
    try:
        for d in patches:
            wt = os.path.join(base, d)
            os.makedirs(wt)
            shutil.copytree("/repo/pyyeti", os.path.join(wt, "pyyeti"), ignore=shutil.ignore_patterns("tests", "__pycache__", "*.so"))
            for extra in ("setup.py", "pyproject.toml", "setup.cfg"):
                if os.path.exists(os.path.join("/repo", extra)):
                    shutil.copy(os.path.join("/repo", extra), os.path.join(wt, extra))
            r = subprocess.run(f"patch -p1 -s --no-backup-if-mismatch < {os.path.join(store, d, 'patch.diff')}", shell=True, cwd=wt, capture_output=True, text=True)
            meta = {"id": d, "property": prop, "kind": "behaviour-preserving refactoring", "applies": r.returncode == 0, "checks": {}}
            if r.returncode:
                print(f"{d}: patch does not apply: {r.stdout[-200:]}{r.stderr[-200:]}")
                json.dump(meta, open(os.path.join(store, d, "meta.json"), "w"), indent=1)
                continue
            worst = 0
            for pid in props:
                r = subprocess.run([PY, "-I", "-S", "verifier/run.py", pid, "--no-evidence", "--repo", wt], cwd=VERIF, capture_output=True, text=True)
                lines = [l for l in r.stdout.splitlines() if l.startswith(("  FAIL", "  ERROR"))]
                meta["checks"][pid] = {"rc": r.returncode, "lines": [l[:300] for l in lines[:10]]}
                worst = max(worst, r.returncode)
                if r.returncode:
                    print(f"{d}: {pid} rc={r.returncode}")
                    for l in lines[:int(os.environ.get('NLINES', '6'))]:
                        print("      " + l[:280])
            if not worst:
                print(f"{d}: silent")
            meta["silent"] = worst == 0
            json.dump(meta, open(os.path.join(store, d, "meta.json"), "w"), indent=1)
    finally:
        shutil.rmtree(base, ignore_errors=True)


if __name__ == "__main__":
    main()
