#!/bin/bash
# usage: seed_batch.sh <deliver-root> <letters> <PROP>...      e.g.  seed_batch.sh /tmp/wt3 "C D E" C10 C06
# Confirms delivered seeded changes (tools/seed_eval.py: demo clean/changed, byte-compile, full suite vs BASELINE.json, every check) two
# properties at a time; already confirmed ones (meta.json with valid_seed) are skipped.  Development tool, not a registered check.
root=$1; shift
letters=$1; shift
for p in "$@"; do
  ( for x in $letters; do
      if [ -f /verif/seeded/$p-$x/meta.json ] && grep -q '"valid_seed"' /verif/seeded/$p-$x/meta.json; then continue; fi
      /venv/bin/python /verif/tools/seed_eval.py $p $x --deliver $root/$p/deliver --all-checks >> /tmp/seed_$p.log 2>&1
    done; echo done >> /tmp/seed_$p.log ) &
  while [ $(jobs -rp | wc -l) -ge ${LANES:-2} ]; do sleep 5; done
done
wait
