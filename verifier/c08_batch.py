"""C08 engine, batch side -- one generic time step of a batch solver body, on *values*.

`BatchEval` runs a batch solver (`SolveUnc._solve_real_unc`, `_solve_real_unc_cdforces`, `_solve_complex_unc`, `SolveExp2.tsolve`) with the
machinery of `GenEval` (configuration decides the tests, helpers are followed on their argument values, array accesses are references that
compose through views) plus what a batch body needs:

  * a time history taken whole or as a column range (`force[kdof]`, `force[kdof, :-1]`, `w[:, 1:]`) is a *series*: the reference keeps its
    column range, formulas built from series are series, and indexing such a formula with a column (`ABF[:, i]`, `PQF[ksize:, i]`) selects that
    column in every series it was built from (`:-1` is column i, `1:` is column i + 1);
  * a `for i in range(..)` loop over the time steps is run for ONE generic iteration.  Locals that carry a value from one iteration to the next
    start from their value before the loop with the first column generalised to the column the iteration reads (`di = D[:, 0]` before
    `for i in range(nt - 1)` -> D[:, i]); after the body the evaluator checks that the new value is the same thing one step later (values stored
    into the arrays in this iteration are forwarded).  A carried local for which that is not a syntactic identity (the damping force
    `dmpfrc0`, the modal state `y`) is reported as *unverified*: the rule uses its generalised initial value as a lemma and compares its new value;
  * columns are named relative to the column T the iteration stores into: T - 1 is `prev`, T is `cur`, whatever the loop variable counts
    (`range(1, nt)` storing into column i, `range(nt - 1)` storing into column i + 1);
  * a statement that stores a whole series (`d[kdof, 1:] = rur_d @ y[:, 1:].real - ...`, `a[rb] = rbforce`) is the store of the generic column T:
    a series read on the right is the column of the same step (a local array filled by the loop: the value the generic iteration stored).

Nothing here knows how a local is called."""
from __future__ import annotations

import ast

from . import e2_formula as F
from . import sem
from .c08_gen import ALLM, NONE, _NEWAXIS, GenEval, _store_targets, free_syms, is_all, symname
from .core import Unsupported
from .e1_srcmodel import dotted
from .e2_eval import Unknown, is_unknown

LOOPVAR = F.sym("@i")
SEP = "|"


def _is_rat(v):
    return isinstance(v, F.Rat)


def series_lo(col):
    """first column of a column range (`:` -> 0, `a:b` -> a) or None when `col` is not a range"""
    if is_all(col):
        return 0
    u = sem.unfn(col)
    if u is None or u[0] != "slice":
        return None
    lo, hi, step = u[1]
    if symname(step) != "None":
        raise Unsupported("column range with a step")
    if symname(lo) == "None":
        return 0
    if lo.is_const() and lo.const_value().denominator == 1 and lo.const_value() >= 0:
        return int(lo.const_value())
    raise Unsupported("column range that does not start at a constant column")


def _hi(col):
    if is_all(col):
        return 0
    hi = sem.unfn(col)[1][1]
    if symname(hi) == "None":
        return 0
    if hi.is_const() and hi.const_value().denominator == 1 and hi.const_value() <= 0:
        return int(hi.const_value())
    raise Unsupported("column range that does not end a constant number of columns before the last")


def compose_col(s, c):
    """column (or column range) `c` of the column range `s`"""
    lo = series_lo(s)
    if lo is None:
        raise Unsupported("two indices into a selected column")
    lo2 = series_lo(c)
    if lo2 is None:
        if not _is_rat(c):
            raise Unsupported("column index")
        if c.is_const() and c.const_value() < 0:
            raise Unsupported("negative column of a column range")
        return c + lo
    a, b = lo + lo2, _hi(s) + _hi(c)
    if a == 0 and b == 0:
        return ALLM
    return F.fn("slice", NONE if a == 0 else F.const(a), NONE if b == 0 else F.const(b), NONE)


def ref_atoms(v, out=None):
    """{atom id: (root, rows, col)} of every reference atom inside a value (through opaque applications too)"""
    out = {} if out is None else out
    if v is None or is_unknown(v):
        return out
    if isinstance(v, tuple):
        for x in v:
            ref_atoms(x, out)
        return out
    if not _is_rat(v):
        return out
    for p_ in (v.n, v.d):
        for a in p_.atoms():
            _walk_atom(a, out)
    return out


def _walk_atom(a, out):
    if a in out:
        return
    d = F.atom_desc(a)
    if d[0] in ("exp", "sin", "cos", "sqrt"):
        for a2 in F._poly_from_key(d[1]).atoms():
            _walk_atom(a2, out)
    elif d[0] == "fn":
        args = []
        for k in d[2]:
            if isinstance(k, tuple) and k and k[0] == "rat":
                n_, d_ = F._poly_from_key(k[1]), F._poly_from_key(k[2])
                args.append(F.Rat(n_, d_))
                for a2 in n_.atoms():
                    _walk_atom(a2, out)
                for a2 in d_.atoms():
                    _walk_atom(a2, out)
            else:
                args.append(k)
        if d[1] == "ref" and len(args) == 3:
            out[a] = tuple(args)


def rewrite(v, mapping):
    """replace atoms (by id) inside a value"""
    if not mapping:
        return v
    if isinstance(v, tuple):
        return tuple(rewrite(x, mapping) for x in v)
    if not _is_rat(v):
        return v
    return F._subs_poly(v.n, mapping) / F._subs_poly(v.d, mapping)


def series_atoms(v):
    return {a: r for a, r in ref_atoms(v).items() if series_lo(r[2]) is not None}


class BatchCanon:
    """reference hook of a batch body: which array, which partition, which column relative to the loop variable"""

    def __init__(self, rootname, cfg, mode):
        self.rootname = rootname            # root value -> 'd' | 'v' | 'a' | 'force' | None
        self.cfg, self.mode = cfg, mode

    def rows(self, rows):
        if rows is None:
            return None
        rn = "all" if is_all(rows) else {"self.kdof": "k", "self.rf": "rf", "self.rb": "rb"}.get(symname(rows))
        if rn is None and self.mode == "U" and symname(rows) == "self.nonrf":
            rn = "k"                     # _common_precalcs: kdof = nonrf (only get_su_eig, mode E, narrows kdof to the elastic set)
        if rn == "all" and self.mode == "U":
            if self.cfg.get("k", True) and not self.cfg.get("rf", True):
                rn = "k"
            elif self.cfg.get("rf", True) and not self.cfg.get("k", True):
                rn = "rf"
        return rn

    def classify(self, ev, root, rows):
        arr = self.rootname(root)
        if arr is None and symname(root) in ev.fresh:
            arr = symname(root)                                       # an array allocated by the body
        return arr, self.rows(rows)

    def __call__(self, ev, root, rows, col):
        arr, rn = self.classify(ev, root, rows)
        if arr is None or rn is None or not _is_rat(col) or series_lo(col) is not None:
            return None
        if col.is_const() and col.const_value().denominator == 1:
            return F.sym(f"@{arr}{SEP}{rn}{SEP}c{int(col.const_value())}")
        k = col - LOOPVAR
        if k.is_const() and k.const_value().denominator == 1:
            return F.sym(f"@{arr}{SEP}{rn}{SEP}i{int(k.const_value()):+d}")
        return None


def _parse(name):
    """'@arr|rn|i+1' -> (arr, rn, 'i', 1) ; '@arr|rn|c0' -> (arr, rn, 'c', 0)"""
    if not name.startswith("@") or name.count(SEP) != 2:
        return None
    arr, rn, c = name[1:].split(SEP)
    try:
        return arr, rn, c[0], int(c[1:])
    except ValueError:
        return None


class Shared:
    def __init__(self, namer):
        self.namer = namer          # (arr, rn, 'prev' | 'cur' | 't+2' ...) -> canonical value
        self.cells = []             # dict(arr, rn, cn, value, node): stores into the generic column T (cn 'cur') of a time history / local array
        self.carried = []           # dict(name, hyp, final, verified, loop)
        self.loops = []
        self.active = None          # the loop being run


class BatchEval(GenEval):
    def __init__(self, *a, shared=None, **k):
        k.setdefault("fresh_arrays", "ctor")
        super().__init__(*a, **k)
        self.B = shared

    def _sub(self, fn, env, strict=True):
        sub = super()._sub(fn, env, strict)
        sub.B = self.B
        return sub

    # ---- shapes of the time histories
    def attr_value(self, base, attr, node=None):
        if attr == "shape" and _is_rat(base) and self.refhook.rootname(base) is not None:
            return (F.sym("@n"), F.sym("@nt"))
        return super().attr_value(base, attr, node)

    # ---- series
    def _index(self, base, comps):
        comps2 = [c for c in comps if c is not _NEWAXIS]
        u = sem.unfn(base)
        if u is not None and u[0] == "ref":
            root, rows, col = u[1]
            if len(comps2) == 2 and not is_all(col):
                r, c = comps2
                if not is_all(r):
                    rows = r if is_all(rows) else F.fn("sub", rows, r)
                return self.mkref(root, rows, compose_col(col, c))
            return super()._index(base, comps)
        if len(comps2) == 2 and _is_rat(base) and series_atoms(base):
            r, c = comps2
            v = self.at_column(base, c)
            if is_all(r):
                return v
            ur = sem.unfn(r)
            if ur is not None and ur[0] == "slice":
                return F.fn("rowsel", *ur[1]) * v
            raise Unsupported("row selection of a formula over time histories")
        return super()._index(base, comps)

    def at_column(self, v, c):
        mp = {a: self.mkref(root, rows, compose_col(col, c)) for a, (root, rows, col) in series_atoms(v).items()}
        return rewrite(v, mp)

    # ---- the time loop
    def _for(self, st):
        it = self.ev(st.iter)
        if isinstance(it, tuple):
            return super()._for(st)
        if not (isinstance(st.iter, ast.Call) and dotted(st.iter.func) == "range" and 1 <= len(st.iter.args) <= 2 and not st.iter.keywords
                and isinstance(st.target, ast.Name) and not st.orelse):
            raise Unsupported(f"for loop over `{ast.unparse(st.iter)}`")
        if self.B.active is not None:
            raise Unsupported("nested time loops")
        lo = 0
        if len(st.iter.args) == 2:
            lov = self.ev(st.iter.args[0])
            if not _is_rat(lov) or not lov.is_const() or lov.const_value().denominator != 1:
                raise Unsupported("time loop that does not start at a constant step")
            lo = int(lov.const_value())
        var = st.target.id
        names = []
        for t_ in _store_targets(st.body):
            d = t_.id if isinstance(t_, ast.Name) else self.canon_dotted(t_)
            if d and d != var and d not in names:
                names.append(d)
        hyp = {}
        for d in names:
            if d in self.env and self._plain(self.env[d]):
                hyp[d] = self._generalise(self.env[d], lo)
                self.env[d] = hyp[d]
            else:
                self.env.pop(d, None)            # not bound before the loop: reading it before the body assigns it is an error
        self.env[var] = LOOPVAR
        n0 = len(self.gcells)
        self.B.active = st
        self.run(st.body)
        self.B.active = None
        self.B.loops.append(st)
        # columns stored in this iteration
        stored, toff, recs = {}, None, []
        for c in self.gcells[n0:]:
            if c["root"] is None:
                raise Unsupported(f"store `{c['text']}` inside the time loop")
            arr, rn = self.refhook.classify(self, c["root"], c["rows"])
            col = c["col"]
            k = (col - LOOPVAR) if _is_rat(col) and series_lo(col) is None else None
            if arr is None or rn is None or k is None or not k.is_const() or k.const_value().denominator != 1:
                raise Unsupported(f"store `{c['text']}` inside the time loop is not a store into one column of a partition of a time history")
            k = int(k.const_value())
            if toff is not None and k != toff:
                raise Unsupported("one iteration of the time loop stores into two different columns")
            toff = k
            stored[f"@{arr}{SEP}{rn}{SEP}i{k:+d}"] = c["value"]
            recs.append((arr, rn, c))
        if toff is None:
            raise Unsupported("a time loop that stores nothing")
        # a local array the loop fills column by column and reads back (`y[:, i] = Fe * y[:, i - 1] + ...`): the column read is a carried value
        # whose value at the start of the iteration is what the store before the loop put into the first column, generalised
        fwd = {k_: v_ for k_, v_ in stored.items() if self._plain(v_) and not isinstance(v_, tuple)}
        bufhyp = {}
        for c in self.gcells[:n0]:
            if c["root"] is None or symname(c["root"]) not in self.fresh or not _is_rat(c["col"]) or not c["col"].is_const() or not self._plain(c["value"]) \
                    or isinstance(c["value"], tuple):
                continue
            arr, rn = self.refhook.classify(self, c["root"], c["rows"])
            if arr is None or rn is None:
                continue
            k = int(c["col"].const_value()) - lo
            if k + 1 == toff:
                bufhyp[f"@{arr}{SEP}{rn}{SEP}i{k:+d}"] = self._generalise(c["value"], lo)

        def place(v):
            """columns of local arrays read in the body -> the value they hold at the start of the iteration"""
            if isinstance(v, tuple):
                return tuple(place(x) for x in v)
            if not _is_rat(v):
                return v
            mp = {s_: bufhyp[s_] for s_ in free_syms(v) if s_ in bufhyp}
            return v.subs(mp) if mp else v

        used = set()
        for v in [c["value"] for _, _, c in recs] + [self.env.get(d) for d in hyp]:
            used |= {s_ for s_ in free_syms(v) if s_ in bufhyp}
        ren = lambda v: self._rename(place(v), toff)      # noqa: E731
        for arr, rn, c in recs:
            self.B.cells.append(dict(arr=arr, rn=rn, cn="cur", value=ren(c["value"]), node=c["node"], loop=st))
        for s_ in sorted(used):
            p_ = _parse(s_)
            nxt = stored.get(f"@{p_[0]}{SEP}{p_[1]}{SEP}i{p_[3] + 1:+d}")
            self.B.carried.append(dict(name=f"column {p_[2]}{p_[3]:+d} of a local array", hyp=ren(bufhyp[s_]), final=ren(nxt), verified=False, loop=st))

        def carried(d, h, fin):
            if isinstance(h, tuple) and isinstance(fin, tuple) and len(h) == len(fin):
                for k_, (h_, f_) in enumerate(zip(h, fin)):
                    carried(f"{d}[{k_}]", h_, f_)
                return
            want = self._shift(h)
            want = want.subs(fwd) if _is_rat(want) else want
            self.B.carried.append(dict(name=d, hyp=ren(h), final=ren(fin), verified=self._same(fin, want), loop=st))

        for d, h in hyp.items():
            carried(d, h, self.env.get(d))
            self.env[d] = Unknown(f"`{d}` after the time loop")
        self.env[var] = Unknown("the loop variable after the time loop")

    @staticmethod
    def _plain(v):
        if isinstance(v, tuple):
            return all(BatchEval._plain(x) for x in v)
        return _is_rat(v)

    @staticmethod
    def _same(a, b):
        if isinstance(a, tuple) or isinstance(b, tuple):
            return isinstance(a, tuple) and isinstance(b, tuple) and len(a) == len(b) and all(BatchEval._same(x, y) for x, y in zip(a, b))
        return _is_rat(a) and _is_rat(b) and a.equals(b)

    def _map_syms(self, v, f):
        if isinstance(v, tuple):
            return tuple(self._map_syms(x, f) for x in v)
        if not _is_rat(v):
            return v
        mp = {}
        for s_ in free_syms(v):
            p_ = _parse(s_)
            if p_ is not None:
                r = f(s_, p_)
                if r is not None:
                    mp[s_] = r
        return v.subs(mp) if mp else v

    def _generalise(self, v, lo):
        """the value a carried local has when iteration i starts, from its value before the first iteration (i = lo): column c -> i + (c - lo)"""
        return self._map_syms(v, lambda s_, p_: F.sym(f"@{p_[0]}{SEP}{p_[1]}{SEP}i{p_[3] - lo:+d}") if p_[2] == "c" else None)

    def _shift(self, v):
        return self._map_syms(v, lambda s_, p_: F.sym(f"@{p_[0]}{SEP}{p_[1]}{SEP}i{p_[3] + 1:+d}") if p_[2] == "i" else None)

    def _rename(self, v, toff):
        def f(s_, p_):
            if p_[2] != "i":
                return None
            rel = p_[3] - toff
            return self.B.namer(p_[0], p_[1], {-1: "prev", 0: "cur"}.get(rel, f"t{rel:+d}"))
        return self._map_syms(v, f)

    # ---- stores of whole series outside the loop: the store of the generic column T
    def _assign(self, target, v, st, aug=False):
        n0 = len(self.gcells)
        super()._assign(target, v, st, aug)
        if self.B is None or self.B.active is not None or not isinstance(target, ast.Subscript):
            return
        for c in self.gcells[n0:]:
            if c["root"] is None or c["col"] is None:
                continue
            lo_t = series_lo(c["col"])
            if lo_t is None:
                continue
            arr, rn = self.refhook.classify(self, c["root"], c["rows"])
            if arr is None or rn is None or self.refhook.rootname(c["root"]) is None:
                continue
            val = c["value"]
            if aug or not self._plain(val):
                raise Unsupported(f"store of a whole time history `{c['text']}`")
            mp = {}
            for a, (root, rows, col) in series_atoms(val).items():
                arr2, rn2 = self.refhook.classify(self, root, rows)
                if arr2 is None or rn2 is None:
                    raise Unsupported(f"time history `{ast.unparse(target)}` computed from a series that is not a partition of a time history")
                rel = series_lo(col) - lo_t
                cn = {-1: "prev", 0: "cur"}.get(rel, f"t{rel:+d}")
                if self.refhook.rootname(root) is None:
                    # a local array: what the generic iteration stored into its column T
                    hit = [x for x in self.B.cells if x["arr"] == arr2 and x["rn"] == rn2 and x["cn"] == cn]
                    if not hit:
                        raise Unsupported(f"column {cn} of the local array read by `{ast.unparse(st)[:60]}` is not stored by the time loop")
                    mp[a] = hit[-1]["value"]
                else:
                    mp[a] = self.B.namer(arr2, rn2, cn)
            self.B.cells.append(dict(arr=arr, rn=rn, cn="cur", value=rewrite(val, mp), node=st, loop=None))


def leftovers(v):
    """columns of local arrays the engine could not resolve to a value: such a batch value must not be compared (a leftover column of a time
    history - a fixed column, a column two steps away - is a genuine dependence and is compared)"""
    return sorted(s_ for s_ in free_syms(v) if s_.startswith("@new#") and SEP in s_)
