"""C08 engine, batch side -- one generic time step of a batch solver body, on *values*.

`BatchEval` runs a batch solver (`SolveUnc._solve_real_unc`, `_solve_real_unc_cdforces`, `_solve_complex_unc`, `SolveExp2.tsolve`) with the
machinery of `GenEval` (configuration decides the tests, helpers are followed on their argument values, array accesses are references that
compose through views) plus what a batch body needs:

  * a time history taken whole or as a column range (`force[kdof]`, `force[kdof, :-1]`, `w[:, 1:]`) is a *series*: the reference keeps its
    column range, formulas built from series are series, and indexing such a formula with a column (`ABF[:, i]`, `PQF[ksize:, i]`) selects that
    column in every series it was built from (`:-1` is column i, `1:` is column i + 1);
  * a `for i in range(..)` loop over the time steps is run for ONE generic iteration.  Locals that carry a value from one iteration to the next
    start from their value before the loop with the first column generalised to the column the iteration reads (`di = D[:, 0]` before
    `for i in range(nt - 1)` -> D[:, i]); after the body the evaluator checks that the new value is the same thing one step later (values stored
    into the arrays in this iteration are forwarded).  A carried local for which that is not a syntactic identity (the damping force
    `dmpfrc0`, the modal state `y`) is reported as *unverified*: the rule uses its generalised initial value as a lemma and compares its new value;
  * columns are named relative to the column T the iteration stores into: T - 1 is `prev`, T is `cur`, whatever the loop variable counts
    (`range(1, nt)` storing into column i, `range(nt - 1)` storing into column i + 1);
  * a statement that stores a whole series (`d[kdof, 1:] = rur_d @ y[:, 1:].real - ...`, `a[rb] = rbforce`) is the store of the generic column T:
    a series read on the right is the column of the same step (a local array filled by the loop: the value the generic iteration stored).

Nothing here knows how a local is called."""
from __future__ import annotations

import ast

from . import e2_formula as F
from . import sem
from .c08_gen import ALLM, NONE, _NEWAXIS, GenEval, _store_targets, free_syms, is_all, symname
from .core import Unsupported
from .e1_srcmodel import dotted
from .e2_eval import Unknown, is_unknown

LOOPVAR = F.sym("@i")
SEP = "|"


def _is_rat(v):
    return isinstance(v, F.Rat)


NT = F.sym("@nt")


def series_span(col):
    """(first column, columns missing at the end) of a column range - `:` -> (0, 0), `1:` -> (1, 0), `:-1` -> (0, 1), `a:nt-1` -> (a, 1) - or None
    when `col` is not a range.  A range that ends at a fixed column (`:1`, `:0`) or has a step is not a time history the engine can place."""
    if is_all(col):
        return 0, 0
    u = sem.unfn(col)
    if u is None or u[0] != "slice":
        return None
    lo, hi, step = u[1]
    if symname(step) != "None":
        raise Unsupported("column range with a step")
    if symname(lo) == "None":
        a = 0
    elif lo.is_const() and lo.const_value().denominator == 1 and lo.const_value() >= 0:
        a = int(lo.const_value())
    else:
        raise Unsupported("column range that does not start at a constant column")
    if symname(hi) == "None":
        b = 0
    elif hi.is_const() and hi.const_value().denominator == 1 and hi.const_value() < 0:
        b = -int(hi.const_value())
    elif (hi - NT).is_const() and (hi - NT).const_value().denominator == 1 and (hi - NT).const_value() <= 0:
        b = -int((hi - NT).const_value())
    else:
        raise Unsupported("column range that ends at a fixed column")
    return a, b


def series_lo(col):
    sp = series_span(col)
    return None if sp is None else sp[0]


def mkrange(a, b):
    if a == 0 and b == 0:
        return ALLM
    return F.fn("slice", NONE if a == 0 else F.const(a), NONE if b == 0 else F.const(-b), NONE)


def compose_col(s, c):
    """column (or column range) `c` of the column range `s`"""
    sp = series_span(s)
    if sp is None:
        raise Unsupported("two indices into a selected column")
    sp2 = series_span(c)
    if sp2 is None:
        if not _is_rat(c):
            raise Unsupported("column index")
        if c.is_const() and c.const_value() < 0:
            raise Unsupported("negative column of a column range")
        return c + sp[0]
    u = sem.unfn(c)
    if u is not None and u[0] == "slice" and symname(u[1][1]) != "None" and not u[1][1].is_const():
        # an end given as a column count (`: nt - 1`) counts columns of the range it is applied to, which starts at column sp[0] of the history
        k = int((u[1][1] - NT).const_value())                  # end = nt + k (k <= 0) in the coordinates of the range
        return mkrange(sp[0] + sp2[0], max(sp[1], -(sp[0] + k)))
    return mkrange(sp[0] + sp2[0], sp[1] + sp2[1])


def ref_atoms(v, out=None):
    """{atom id: (root, rows, col)} of every reference atom inside a value (through opaque applications too)"""
    out = {} if out is None else out
    if v is None or is_unknown(v):
        return out
    if isinstance(v, tuple):
        for x in v:
            ref_atoms(x, out)
        return out
    if not _is_rat(v):
        return out
    for p_ in (v.n, v.d):
        for a in p_.atoms():
            _walk_atom(a, out)
    return out


def _walk_atom(a, out):
    if a in out:
        return
    d = F.atom_desc(a)
    if d[0] in ("exp", "sin", "cos", "sqrt"):
        for a2 in F._poly_from_key(d[1]).atoms():
            _walk_atom(a2, out)
    elif d[0] == "fn":
        args = []
        for k in d[2]:
            if isinstance(k, tuple) and k and k[0] == "rat":
                n_, d_ = F._poly_from_key(k[1]), F._poly_from_key(k[2])
                args.append(F.Rat(n_, d_))
                for a2 in n_.atoms():
                    _walk_atom(a2, out)
                for a2 in d_.atoms():
                    _walk_atom(a2, out)
            else:
                args.append(k)
        if d[1] == "ref" and len(args) == 3:
            out[a] = tuple(args)


def rewrite(v, mapping):
    """replace atoms (by id) inside a value"""
    if not mapping:
        return v
    if isinstance(v, tuple):
        return tuple(rewrite(x, mapping) for x in v)
    if not _is_rat(v):
        return v
    return F._subs_poly(v.n, mapping) / F._subs_poly(v.d, mapping)


def series_atoms(v):
    return {a: r for a, r in ref_atoms(v).items() if series_lo(r[2]) is not None}


class BatchCanon:
    """reference hook of a batch body: which array, which partition, which column relative to the loop variable"""

    def __init__(self, rootname, cfg, mode):
        self.rootname = rootname            # root value -> 'd' | 'v' | 'a' | 'force' | None
        self.cfg, self.mode = cfg, mode

    def rows(self, rows):
        if rows is None:
            return None
        rn = "all" if is_all(rows) else {"self.kdof": "k", "self.rf": "rf", "self.rb": "rb"}.get(symname(rows))
        if rn is None and self.mode == "U" and symname(rows) == "self.nonrf":
            rn = "k"                     # _common_precalcs: kdof = nonrf (only get_su_eig, mode E, narrows kdof to the elastic set)
        if rn == "all" and self.mode == "U":
            if self.cfg.get("k", True) and not self.cfg.get("rf", True):
                rn = "k"
            elif self.cfg.get("rf", True) and not self.cfg.get("k", True):
                rn = "rf"
        return rn

    def classify(self, ev, root, rows):
        arr = self.rootname(root)
        if arr is None and symname(root) in ev.fresh:
            arr = symname(root)                                       # an array allocated by the body
        return arr, self.rows(rows)

    def __call__(self, ev, root, rows, col):
        arr, rn = self.classify(ev, root, rows)
        if arr is None or rn is None or not _is_rat(col) or series_lo(col) is not None:
            return None
        if col.is_const() and col.const_value().denominator == 1:
            return F.sym(f"@{arr}{SEP}{rn}{SEP}c{int(col.const_value())}")
        k = col - LOOPVAR
        if k.is_const() and k.const_value().denominator == 1:
            return F.sym(f"@{arr}{SEP}{rn}{SEP}i{int(k.const_value()):+d}")
        return None


def _parse(name):
    """'@arr|rn|i+1' -> (arr, rn, 'i', 1) ; '@arr|rn|c0' -> (arr, rn, 'c', 0)"""
    if not name.startswith("@") or name.count(SEP) != 2:
        return None
    arr, rn, c = name[1:].split(SEP)
    try:
        return arr, rn, c[0], int(c[1:])
    except ValueError:
        return None


class Shared:
    def __init__(self, namer):
        self.namer = namer          # (arr, rn, 'prev' | 'cur' | 't+2' ...) -> canonical value
        self.cells = []             # dict(arr, rn, cn, value, node): stores into the generic column T (cn 'cur') of a time history / local array
        self.carried = []           # dict(name, hyp, final, verified, loop)
        self.loops = []
        self.active = None          # the loop being run
        self.upper = None           # ... its loop variable stays below nt + upper (None: not known)


class Steps:
    """what a batch body iterates over, one item per time step: the columns of a formula over time histories (`np.transpose(ABF)`, `ABF.T`: one
    row of the transpose per step), a `range`, a `zip` of such things, `enumerate(..., start=k)` of one"""

    def __init__(self, kind, parts=(), value=None, lo=None, hi=None, start=0):
        self.kind, self.parts, self.value, self.lo, self.hi, self.start = kind, list(parts), value, lo, hi, start

    def __repr__(self):
        return f"Steps({self.kind})"

    def count(self):
        """number of items as (k, exact) meaning nt + k, or None when not known"""
        if self.kind == "cols":
            spans = [series_span(col) for _, _, col in series_atoms(self.value).values()]
            ks = {-a - b for a, b in spans}
            return ks.pop() if len(ks) == 1 else None
        if self.kind == "range":
            if self.hi is None:
                return None
            return self.hi - self.lo
        if self.kind == "enum":
            return self.parts[0].count()
        ks = [p_.count() for p_ in self.parts]
        return None if any(k is None for k in ks) else min(ks)


class BatchEval(GenEval):
    def __init__(self, *a, shared=None, **k):
        k.setdefault("fresh_arrays", "ctor")
        super().__init__(*a, **k)
        self.B = shared

    # ---- iterating over the time steps by value: columns of a history, zip, enumerate, range
    def _T(self, v):
        if _is_rat(v) and not is_unknown(v) and series_atoms(v):
            return Steps("cols", value=v)          # the rows of the transpose of a time history are its columns, one per time step
        return super()._T(v)

    def _call(self, node):
        name = self._callee_name(node)
        if name in ("zip", "enumerate", "range", "iter", "list", "tuple") and not any(isinstance(a, ast.Starred) for a in node.args):
            kw = {k.arg: k.value for k in node.keywords if k.arg is not None}
            if name == "range" and 1 <= len(node.args) <= 2 and not kw:
                vs = [self.ev(a) for a in node.args]
                if all(_is_rat(x) and not is_unknown(x) for x in vs) and not all(x.is_const() for x in vs):
                    lov = vs[0] if len(vs) == 2 else F.const(0)
                    if not lov.is_const() or lov.const_value().denominator != 1:
                        raise Unsupported("time loop that does not start at a constant step")
                    return Steps("range", lo=int(lov.const_value()), hi=self._rel_nt(vs[-1]))
            elif name == "zip" and node.args and not kw:
                vs = [self.ev(a) for a in node.args]
                if any(isinstance(x, Steps) for x in vs):
                    if not all(isinstance(x, Steps) for x in vs):
                        raise Unsupported(f"`{ast.unparse(node)[:60]}`: zip of a time history with something else")
                    return Steps("zip", parts=vs)
            elif name == "enumerate" and node.args and len(node.args) + len(kw) <= 2 and set(kw) <= {"start"}:
                v = self.ev(node.args[0])
                if isinstance(v, Steps):
                    sv = self.ev(kw["start"]) if "start" in kw else (self.ev(node.args[1]) if len(node.args) == 2 else F.const(0))
                    if not _is_rat(sv) or is_unknown(sv) or not sv.is_const() or sv.const_value().denominator != 1:
                        raise Unsupported("enumerate with a start that is not a constant")
                    return Steps("enum", parts=[v], start=int(sv.const_value()))
            elif name in ("iter", "list", "tuple") and len(node.args) == 1 and not kw:
                v = self.ev(node.args[0])
                if isinstance(v, Steps):
                    return v
        return super()._call(node)

    def _subscript(self, node):
        base = self._ev(node.value)
        if isinstance(base, Steps):
            # a range of the steps: `ABF.T[1:]`, `force.T[:-1]`, `PQF.T[: nt - 1]`
            if base.kind != "cols" or not isinstance(node.slice, ast.Slice):
                raise Unsupported(f"`{ast.unparse(node)[:60]}`: indexing of a sequence of time steps")
            c = self._comp(node.slice)
            atoms = series_atoms(base.value)
            self.check_lengths(atoms)
            mp = {a: self.mkref(root, rows, compose_col(col, c)) for a, (root, rows, col) in atoms.items()}
            return Steps("cols", value=rewrite(base.value, mp))
        return super()._subscript(node)

    def _bind_steps(self, target, it, pos):
        """bind the loop target to item `pos` (a value: position in the iteration) of the iterable"""
        if it.kind == "cols":
            self._assign(target, self.at_column(it.value, pos), target)
        elif it.kind == "range":
            self._assign(target, pos + it.lo, target)
        elif it.kind == "enum":
            if not isinstance(target, (ast.Tuple, ast.List)) or len(target.elts) != 2:
                raise Unsupported("enumerate() not unpacked into (counter, item)")
            self._assign(target.elts[0], pos + it.start, target)
            self._bind_steps(target.elts[1], it.parts[0], pos)
        else:
            if not isinstance(target, (ast.Tuple, ast.List)) or len(target.elts) != len(it.parts) or any(isinstance(e, ast.Starred) for e in target.elts):
                raise Unsupported("zip() not unpacked into one name per sequence")
            for e, p_ in zip(target.elts, it.parts):
                self._bind_steps(e, p_, pos)

    def _sub(self, fn, env, strict=True):
        sub = super()._sub(fn, env, strict)
        sub.B = self.B
        return sub

    # ---- shapes of the time histories
    def attr_value(self, base, attr, node=None):
        if attr == "shape" and _is_rat(base) and self.refhook.rootname(base) is not None:
            return (F.sym("@n"), F.sym("@nt"))
        return super().attr_value(base, attr, node)

    # ---- series
    def _index(self, base, comps):
        comps2 = [c for c in comps if c is not _NEWAXIS]
        u = sem.unfn(base)
        if u is not None and u[0] == "ref":
            root, rows, col = u[1]
            if len(comps2) == 2 and not is_all(col):
                r, c = comps2
                if not is_all(r):
                    rows = r if is_all(rows) else F.fn("sub", rows, r)
                return self.mkref(root, rows, compose_col(col, c))
            return super()._index(base, comps)
        if len(comps2) == 2 and _is_rat(base) and series_atoms(base):
            r, c = comps2
            v = self.at_column(base, c)
            if is_all(r):
                return v
            ur = sem.unfn(r)
            if ur is not None and ur[0] == "slice":
                return F.fn("rowsel", *ur[1]) * v
            raise Unsupported("row selection of a formula over time histories")
        return super()._index(base, comps)

    def at_column(self, v, c):
        atoms = series_atoms(v)
        self.check_lengths(atoms)
        if series_span(c) is None and self.B.active is not None and self.B.upper is not None and _is_rat(c):
            # column LOOPVAR + k of a history that has lost columns: the last iteration must still find its column
            k = c - LOOPVAR
            if k.is_const() and k.const_value().denominator == 1:
                for root, rows, col in atoms.values():
                    a, b = series_span(col)
                    # the history has nt - a - b columns; the last iteration reads its column upper - 1 + k
                    if self.B.upper - 1 + int(k.const_value()) > -a - b - 1:
                        self._crash(f"the last iteration of the time loop reads column {self.B.upper - 1 + int(k.const_value()):+d} (from nt) of a history "
                                    f"that has nt{-a - b:+d} columns (IndexError)")
        mp = {a: self.mkref(root, rows, compose_col(col, c)) for a, (root, rows, col) in atoms.items()}
        return rewrite(v, mp)

    def check_lengths(self, atoms):
        """time histories combined in one expression have the same number of columns (numpy would refuse to broadcast them)"""
        lens = {-sum(series_span(col)) for _, _, col in atoms.values()}
        if len(lens) > 1:
            self._crash("time histories with " + " and ".join(f"nt{k:+d}" if k else "nt" for k in sorted(lens, reverse=True))
                        + " columns are combined in one expression (shapes cannot be broadcast)")

    # ---- the time loop
    def _for(self, st):
        it = self.ev(st.iter)
        if isinstance(it, tuple):
            return super()._for(st)
        if not isinstance(it, Steps) or st.orelse:
            raise Unsupported(f"for loop over `{ast.unparse(st.iter)}`")
        # the loop variable of the engine is the step counter the body sees (the range / enumerate variable); without one, the position
        if it.kind == "range" and isinstance(st.target, ast.Name):
            return self._time_loop(st, st.target.id, it.lo, counted=False, upper=it.hi)
        lo = it.start if it.kind == "enum" else 0
        if it.kind == "zip":
            rng = [p_ for p_ in it.parts if p_.kind == "range"]
            if rng:
                lo = rng[0].lo
        n = it.count()
        names = {x.id for x in ast.walk(st.target) if isinstance(x, ast.Name)}

        def bind():
            self._bind_steps(st.target, it, LOOPVAR - lo)
        self._time_loop(st, None, lo, counted=False, upper=None if n is None else n + lo, bind=bind, bound=names)

    @staticmethod
    def _rel_nt(v, plus=0):
        """k when the value is nt + k (the exclusive upper bound of the loop variable), else None"""
        if _is_rat(v) and (v - NT).is_const() and (v - NT).const_value().denominator == 1:
            return int((v - NT).const_value()) + plus
        return None

    def _while(self, st):
        """a counted loop over the time steps written with `while`: `i = 0; while i < nt - 1: ...; i += 1`"""
        t = st.test
        if not (isinstance(t, ast.Compare) and len(t.ops) == 1 and isinstance(t.ops[0], (ast.Lt, ast.LtE, ast.NotEq)) and isinstance(t.left, ast.Name)
                and not st.orelse):
            return super()._while(st)
        var = t.left.id
        lov = self.env.get(var)
        if not _is_rat(lov) or not lov.is_const() or lov.const_value().denominator != 1:
            raise Unsupported("a while loop over the time steps whose counter does not start at a constant")
        upper = self._rel_nt(self.ev(t.comparators[0]), plus=1 if isinstance(t.ops[0], ast.LtE) else 0)
        self._time_loop(st, var, int(lov.const_value()), counted=True, upper=upper)

    def _time_loop(self, st, var, lo, counted, upper=None, bind=None, bound=()):
        if self.B.active is not None:
            raise Unsupported("nested time loops")
        self.B.upper = upper
        names = []
        for t_ in _store_targets(st.body):
            d = t_.id if isinstance(t_, ast.Name) else self.canon_dotted(t_)
            if d and d != var and d not in bound and d not in names:
                names.append(d)
        hyp = {}
        for d in names:
            if d in self.env and self._plain(self.env[d]):
                hyp[d] = self._generalise(self.env[d], lo)
                self.env[d] = hyp[d]
            else:
                self.env.pop(d, None)            # not bound before the loop: reading it before the body assigns it is an error
        n0 = len(self.gcells)
        self.B.active = st
        if bind is not None:
            bind()
        else:
            self.env[var] = LOOPVAR
        self.run(st.body)
        self.B.active = None
        self.B.loops.append(st)
        if counted and not self._same(self.env.get(var), LOOPVAR + 1):
            raise Unsupported(f"a while loop over the time steps that does not advance `{var}` by one per iteration")
        # columns stored in this iteration
        stored, toff, recs = {}, None, []
        for c in self.gcells[n0:]:
            if c["root"] is None:
                raise Unsupported(f"store `{c['text']}` inside the time loop")
            arr, rn = self.refhook.classify(self, c["root"], c["rows"])
            col = c["col"]
            k = (col - LOOPVAR) if _is_rat(col) and series_lo(col) is None else None
            if arr is None or rn is None or k is None or not k.is_const() or k.const_value().denominator != 1:
                raise Unsupported(f"store `{c['text']}` inside the time loop is not a store into one column of a partition of a time history")
            k = int(k.const_value())
            if toff is not None and k != toff:
                raise Unsupported("one iteration of the time loop stores into two different columns")
            toff = k
            stored[f"@{arr}{SEP}{rn}{SEP}i{k:+d}"] = c["value"]
            recs.append((arr, rn, c))
        if toff is None:
            raise Unsupported("a time loop that stores nothing")
        # a local array the loop fills column by column and reads back (`y[:, i] = Fe * y[:, i - 1] + ...`): the column read is a carried value
        # whose value at the start of the iteration is what the store before the loop put into the first column, generalised
        fwd = {k_: v_ for k_, v_ in stored.items() if self._plain(v_) and not isinstance(v_, tuple)}
        bufhyp = {}
        for c in self.gcells[:n0]:
            if c["root"] is None or symname(c["root"]) not in self.fresh or not _is_rat(c["col"]) or not c["col"].is_const() or not self._plain(c["value"]) \
                    or isinstance(c["value"], tuple):
                continue
            arr, rn = self.refhook.classify(self, c["root"], c["rows"])
            if arr is None or rn is None:
                continue
            k = int(c["col"].const_value()) - lo
            if k + 1 == toff:
                bufhyp[f"@{arr}{SEP}{rn}{SEP}i{k:+d}"] = self._generalise(c["value"], lo)

        def place(v):
            """columns of local arrays read in the body -> the value they hold at the start of the iteration"""
            if isinstance(v, tuple):
                return tuple(place(x) for x in v)
            if not _is_rat(v):
                return v
            mp = {s_: bufhyp[s_] for s_ in free_syms(v) if s_ in bufhyp}
            return v.subs(mp) if mp else v

        used = set()
        for v in [c["value"] for _, _, c in recs] + [self.env.get(d) for d in hyp]:
            used |= {s_ for s_ in free_syms(v) if s_ in bufhyp}
        ren = lambda v: self._rename(place(v), toff)      # noqa: E731
        for arr, rn, c in recs:
            self.B.cells.append(dict(arr=arr, rn=rn, cn="cur", value=ren(c["value"]), node=c["node"], loop=st))
        for s_ in sorted(used):
            p_ = _parse(s_)
            nxt = stored.get(f"@{p_[0]}{SEP}{p_[1]}{SEP}i{p_[3] + 1:+d}")
            self.B.carried.append(dict(name=f"column {p_[2]}{p_[3]:+d} of a local array", hyp=ren(bufhyp[s_]), final=ren(nxt), verified=False, loop=st))

        def carried(d, h, fin):
            if isinstance(h, tuple) and isinstance(fin, tuple) and len(h) == len(fin):
                for k_, (h_, f_) in enumerate(zip(h, fin)):
                    carried(f"{d}[{k_}]", h_, f_)
                return
            want = self._shift(h)
            want = want.subs(fwd) if _is_rat(want) else want
            self.B.carried.append(dict(name=d, hyp=ren(h), final=ren(fin), verified=self._same(fin, want), loop=st))

        for d, h in hyp.items():
            carried(d, h, self.env.get(d))
            self.env[d] = Unknown(f"`{d}` after the time loop")
        for nm in ([var] if bind is None else sorted(bound)):
            self.env[nm] = Unknown("the loop variable after the time loop")

    @staticmethod
    def _plain(v):
        if isinstance(v, tuple):
            return all(BatchEval._plain(x) for x in v)
        return _is_rat(v)

    @staticmethod
    def _same(a, b):
        if isinstance(a, tuple) or isinstance(b, tuple):
            return isinstance(a, tuple) and isinstance(b, tuple) and len(a) == len(b) and all(BatchEval._same(x, y) for x, y in zip(a, b))
        return _is_rat(a) and _is_rat(b) and a.equals(b)

    def _map_syms(self, v, f):
        if isinstance(v, tuple):
            return tuple(self._map_syms(x, f) for x in v)
        if not _is_rat(v):
            return v
        mp = {}
        for s_ in free_syms(v):
            p_ = _parse(s_)
            if p_ is not None:
                r = f(s_, p_)
                if r is not None:
                    mp[s_] = r
        return v.subs(mp) if mp else v

    def _generalise(self, v, lo):
        """the value a carried local has when iteration i starts, from its value before the first iteration (i = lo): column c -> i + (c - lo)"""
        return self._map_syms(v, lambda s_, p_: F.sym(f"@{p_[0]}{SEP}{p_[1]}{SEP}i{p_[3] - lo:+d}") if p_[2] == "c" else None)

    def _shift(self, v):
        return self._map_syms(v, lambda s_, p_: F.sym(f"@{p_[0]}{SEP}{p_[1]}{SEP}i{p_[3] + 1:+d}") if p_[2] == "i" else None)

    def _rename(self, v, toff):
        def f(s_, p_):
            if p_[2] != "i":
                return None
            rel = p_[3] - toff
            return self.B.namer(p_[0], p_[1], {-1: "prev", 0: "cur"}.get(rel, f"t{rel:+d}"))
        return self._map_syms(v, f)

    # ---- stores of whole series outside the loop: the store of the generic column T
    def _assign(self, target, v, st, aug=False):
        n0 = len(self.gcells)
        super()._assign(target, v, st, aug)
        if self.B is None or self.B.active is not None or not isinstance(target, ast.Subscript):
            return
        for c in self.gcells[n0:]:
            if c["root"] is None or c["col"] is None:
                continue
            lo_t = series_lo(c["col"])
            if lo_t is None:
                continue
            arr, rn = self.refhook.classify(self, c["root"], c["rows"])
            if arr is None or rn is None or self.refhook.rootname(c["root"]) is None:
                continue
            val = c["value"]
            if aug or not self._plain(val):
                raise Unsupported(f"store of a whole time history `{c['text']}`")
            atoms = series_atoms(val)
            self.check_lengths(dict(atoms, target=(c["root"], c["rows"], c["col"])))
            mp = {}
            for a, (root, rows, col) in atoms.items():
                arr2, rn2 = self.refhook.classify(self, root, rows)
                if arr2 is None or rn2 is None:
                    raise Unsupported(f"time history `{ast.unparse(target)}` computed from a series that is not a partition of a time history")
                rel = series_lo(col) - lo_t
                cn = {-1: "prev", 0: "cur"}.get(rel, f"t{rel:+d}")
                if self.refhook.rootname(root) is None:
                    # a local array: what the generic iteration stored into its column T
                    hit = [x for x in self.B.cells if x["arr"] == arr2 and x["rn"] == rn2 and x["cn"] == cn]
                    if not hit:
                        raise Unsupported(f"column {cn} of the local array read by `{ast.unparse(st)[:60]}` is not stored by the time loop")
                    mp[a] = hit[-1]["value"]
                else:
                    mp[a] = self.B.namer(arr2, rn2, cn)
            self.B.cells.append(dict(arr=arr, rn=rn, cn="cur", value=rewrite(val, mp), node=st, loop=None))


def leftovers(v):
    """columns of local arrays the engine could not resolve to a value: such a batch value must not be compared (a leftover column of a time
    history - a fixed column, a column two steps away - is a genuine dependence and is compared)"""
    return sorted(s_ for s_ in free_syms(v) if s_.startswith("@new#") and SEP in s_)
