"""Path enumeration over boolean option flags.

`flag_paths(stmts, truth)` walks a statement list; `truth(test)` is the rule's three-valued oracle for atomic tests (True / False /
None); `not`, `and`, `or` are composed here.  A test that stays undecided forks the path.  Loops, `with` and `try` are not entered:
they appear in the trace as single statements (a rule that needs to look inside must say so).  Each path is (trace, end) where trace
is the list of simple statements executed and `end` is the `return` / `raise` that ended it (None when the list ran out)."""
from __future__ import annotations

import ast

from .core import Unsupported


def decide(test, truth):
    r = truth(test)
    if r is not None:
        return r
    if isinstance(test, ast.UnaryOp) and isinstance(test.op, ast.Not):
        r = decide(test.operand, truth)
        return None if r is None else (not r)
    if isinstance(test, ast.BoolOp):
        rs = [decide(v, truth) for v in test.values]
        if isinstance(test.op, ast.And):
            if any(r is False for r in rs):
                return False
            return True if all(r is True for r in rs) else None
        if any(r is True for r in rs):
            return True
        return False if all(r is False for r in rs) else None
    return None


def flag_paths(stmts, truth, relevant=None, limit=4096):
    """`relevant(stmt)`: when given, an `if` none of whose nested statements is relevant (and which contains no return / raise) is not
    entered - it is one opaque statement in the trace - so that unrelated option tests do not multiply the paths"""
    out = []

    def matters(st):
        if relevant is None:
            return True
        for x in ast.walk(st):
            if isinstance(x, (ast.Return, ast.Raise)) or (isinstance(x, ast.stmt) and x is not st and relevant(x)):
                return True
        return False

    def go(todo, trace):
        if len(out) > limit:
            raise Unsupported("too many paths")
        for i, st in enumerate(todo):
            if isinstance(st, (ast.Return, ast.Raise)):
                out.append((trace, st))
                return
            if isinstance(st, ast.If) and matters(st):
                r = decide(st.test, truth)
                rest = list(todo[i + 1:])
                if r is True or r is None:
                    go(list(st.body) + rest, list(trace))
                if r is False or r is None:
                    go(list(st.orelse) + rest, list(trace))
                return
            trace.append(st)
        out.append((trace, None))
    go(list(stmts), [])
    return out
