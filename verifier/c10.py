"""C10 -- cycle-counting pipeline and fatigue-damage PSD bookkeeping (thin partial claim)."""
from __future__ import annotations

import ast

from . import e2_formula as F
from .core import AnchorError, Unsupported
from .e1_srcmodel import dotted, walk_no_nested, parent, ancestors, utext
from .e2_eval import Evaluator, is_unknown, need

CYC = "pyyeti/cyclecount.py"
LOC = "pyyeti/locate.py"
FDE = "pyyeti/fdepsd.py"
SRS = "pyyeti/srs.py"


def r5_binify_guards(ctx):
    """numpy.digitize(x, b, right) - 1 is a valid bin index iff  b[0] < x <= b[-1] (right=True)  /  b[0] <= x < b[-1] (right=False).
    getbins' out-of-bounds verdict must be the exact complement, because binify drops the index guard when it says 'in bounds'."""
    fn = ctx.src.func(CYC, "getbins")
    arms = [s for s in ast.walk(fn) if isinstance(s, ast.If) and ast.unparse(s.test) == "right" and
            any("out_of_bounds" in ast.unparse(x) for x in s.body)]
    if len(arms) != 1:
        raise AnchorError("getbins: `if right:` bounds arm")
    want = {True: {"lo": ast.LtE, "hi": ast.Gt}, False: {"lo": ast.Lt, "hi": ast.GtE}}
    for right, body in ((True, arms[0].body), (False, arms[0].orelse)):
        tests = [s for s in body if isinstance(s, ast.If)]
        if len(tests) != 1 or not isinstance(tests[0].test, ast.BoolOp) or not isinstance(tests[0].test.op, ast.Or):
            ctx.error(f"getbins (right={right}): bounds test shape", fn)
            continue
        got = {}
        for c in tests[0].test.values:
            if isinstance(c, ast.Compare) and len(c.ops) == 1:
                l, r = ast.unparse(c.left), ast.unparse(c.comparators[0]).replace(" ", "")
                if l == "mn" and r == "bb[0]":
                    got["lo"] = type(c.ops[0])
                if l == "mx" and r == "bb[-1]":
                    got["hi"] = type(c.ops[0])
        label = "(b0, b1] ... right-closed" if right else "[b0, b1) ... left-closed"
        ok = got.get("lo") is want[right]["lo"]
        ctx.check(ok, f"getbins (right={right}, bins {label}): the smallest value is out of bounds exactly when it falls {'on or ' if right else ''}below the first edge", tests[0],
                  None if ok else {"operator": got.get("lo").__name__ if got.get("lo") else None,
                                   "consequence": "a value on the open edge is reported in bounds; binify then skips the index guard and digitize - 1 = -1 wraps into the last bin"})
        ok = got.get("hi") is want[right]["hi"]
        ctx.check(ok, f"getbins (right={right}): the largest value is out of bounds exactly when it falls {'' if right else 'on or '}above the last edge", tests[0],
                  None if ok else {"operator": got.get("hi").__name__ if got.get("hi") else None})
        sets = {utext(s) for s in tests[0].body + tests[0].orelse}
        ok = sets == {"out_of_bounds=True", "out_of_bounds=False"} and "out_of_bounds=True" in {utext(s) for s in tests[0].body}
        ctx.check(ok, f"getbins (right={right}): the verdict is True on that test and False otherwise", tests[0], nontrivial=False)
    # scalar bins: automatic edges cover the data; the open edge is widened on the side `right` selects
    t = utext(fn)
    ok = "bb=np.linspace(mn,mx,bins+1)" in t and "p=0.001*(mx-mn)" in t and "ifright:bb[0]-=pelse:bb[-1]+=p" in t.replace("\n", "") \
        and "out_of_bounds=False" in t
    ctx.check(ok, "getbins (scalar bins): edges span [mn, mx], the open edge (first for right=True, last otherwise) is moved outward, and nothing is out of bounds", fn)
    ok = "ifmx<mn:mx,mn=(mn,mx)" in t.replace("\n", "") or "ifmx<mn:mx,mn=mn,mx" in t.replace("\n", "")
    ctx.check(ok, "getbins: (mx, mn) are ordered before use", fn, nontrivial=False)
    ok = "np.any(np.diff(bins)<=0)" in t
    ctx.check(ok, "getbins: explicit bins must be strictly increasing", fn, nontrivial=False)
    # _binify
    fb = ctx.src.func(CYC, "_binify")
    t = utext(fb)
    ok = "bin_indices_range=np.digitize(cycles[:,0],bins_range,right=right)-1" in t and "bin_indices_mean=np.digitize(cycles[:,1],bins_mean,right=right)-1" in t
    ctx.check(ok, "_binify: amplitude (column 0) and mean (column 1) are binned with digitize(..., right=right) - 1", fb)
    arms = [s for s in fb.body if isinstance(s, ast.If) and ast.unparse(s.test) == "ensure_boundaries"]
    if len(arms) == 1:
        g = ast.unparse(arms[0].body[0]).replace(" ", "")
        ok = "if0<=bim<num_bins_meanand0<=bir<num_bins_range:" in g and "markov_matrix[bim,bir]+=cycles[i,2]" in g
        ctx.check(ok, "_binify: the guarded arm adds a cycle's count only when both indices are valid", arms[0])
        u = ast.unparse(arms[0].orelse[0]).replace(" ", "")
        ok = "markov_matrix[bin_indices_mean[i],bin_indices_range[i]]+=cycles[i,2]" in u
        ctx.check(ok, "_binify: the unguarded arm (used when getbins proved every value in bounds) adds every count", arms[0])
    else:
        ctx.error("_binify: ensure_boundaries arms", fb)
    ok = "markov_matrix=np.zeros((num_bins_mean,num_bins_range),np.float64)" in t and "num_bins_mean=len(bins_mean)-1" in t and "num_bins_range=len(bins_range)-1" in t
    ctx.check(ok, "_binify: the table has one row per mean bin and one column per amplitude bin", fb)
    bf = ctx.src.func(CYC, "binify")
    t = utext(bf)
    ok = "ampb=getbins(ampbins,*maxmin(rf[:,0]),right,check_bounds)" in t and "aveb=getbins(meanbins,*maxmin(rf[:,1]),right,check_bounds)" in t \
        and "out=out_ampor out_ave".replace(" ", "") in t and "table=_binify(rf,ampb,aveb,right,out)" in t
    ctx.check(ok, "binify: the index guard is switched on exactly when getbins reports a value out of bounds (amplitude or mean)", bf)
    ok = "ifcheck_bounds:" in t and "else:out=False" in t.replace("\n", "")
    ctx.check(ok, "binify: without check_bounds the unguarded arm is used (caller's responsibility)", bf, nontrivial=False)
    d = bf.args.defaults
    names = [a.arg for a in bf.args.args][-len(d):]
    dv = dict(zip(names, [ast.unparse(x) for x in d]))
    ctx.check(dv.get("check_bounds") == "True", "binify: bounds are checked by default", bf, dv)
    sc = ctx.src.func(CYC, "sigcount")
    ok = "binify(rf,ampbins,meanbins,right,precision,retbins,use_pandas)" in utext(sc)
    ctx.check(ok, "sigcount never overrides check_bounds", sc)
    ok = "index=_getlabels(form,aveb)" in t and "columns=_getlabels(form,ampb)" in t and "form='('+f+']'" in t and "form='['+f+')'" in t
    ctx.check(ok, "binify: row labels come from the mean bins, column labels from the amplitude bins, with the bracket style of `right`", bf)


def r6_tolerance_strictness(ctx):
    """a sample is a new value only if it differs by MORE than the scaled tolerance; with tol = 0 exact repeats must not count"""
    sites = [(LOC, "find_unique")]
    for q in ("findap", "findap#2"):
        if ctx.src.has_func(CYC, q):
            sites.append((CYC, q))
    n = 0
    for rel, q in sites:
        fn = ctx.src.func(rel, q)
        for c in ast.walk(fn):
            if isinstance(c, ast.Compare) and len(c.ops) == 1 and any(isinstance(x, ast.Name) and x.id == "stol" for x in ast.walk(c)):
                n += 1
                ok = isinstance(c.ops[0], ast.Gt) and ast.unparse(c.comparators[0]) == "stol"
                ctx.check(ok, f"{q.split('#')[0]}: `{ast.unparse(c)}` - a difference counts only when strictly greater than the tolerance "
                              "(all peak-picking variants must agree; `>=` would keep exact repeats when tol = 0 and plateaus would then hide reversals)", c)
        st = [s for s in ast.walk(fn) if isinstance(s, ast.Assign) and ast.unparse(s.targets[0]) == "stol"]
        for s in st:
            t = ast.unparse(s.value).replace(" ", "")
            ok = t in ("abs(tol*abs(m).max())", "np.abs(tol*np.abs(np.diff(y)).max())")
            ctx.check(ok, f"{q.split('#')[0]}: the tolerance is relative to the largest sample-to-sample difference", s, t)
    ctx.check(n >= 4, f"tolerance rule bound to {n} comparisons in find_unique and findap", LOC + ":1", nontrivial=False)
    # the numpy variant is whichever definition of findap de-duplicates through locate.find_unique (the two are defined under
    # `if not HAVE_NUMBA: ... else: ...`; which one comes first in the file is irrelevant)
    cands = [ctx.src.func(CYC, q) for q in ("findap", "findap#2") if ctx.src.has_func(CYC, q)]
    fa = next((f for f in cands if "locate.find_unique" in utext(f)), None)
    if fa is None:
        ctx.error("findap: no variant that de-duplicates through locate.find_unique was found", CYC + ":1")
    else:
        t = utext(fa)
        ok = "u=locate.find_unique(y,tol)" in t and "s=np.sign(np.diff(yu))" in t and "pv[1:-1]=np.abs(np.diff(s))==2" in t and "pv=np.ones(yu.size,bool)" in t
        ctx.check(ok, "findap (numpy variant): works on de-duplicated samples; interior reversals are slope-sign changes; the first sample is always kept", fa)
        ok = "PV=np.zeros(y.size,bool)" in t and "PV[u]=pv" in t
        ctx.check(ok, "findap (numpy variant): removed repeats are never peaks", fa)


def r1_exponents(ctx):
    fn = ctx.src.func(FDE, "fdepsd")
    env = {}
    for st in fn.body:
        if isinstance(st, ast.Assign) and isinstance(st.targets[0], ast.Name) and st.targets[0].id in ("b4", "b8", "b12") and isinstance(st.value, ast.Constant):
            env[st.targets[0].id] = st.value.value
    ctx.check(env == {"b4": 4, "b8": 8, "b12": 12}, "fdepsd: fatigue exponents b4, b8, b12 are 4, 8, 12", fn, env)
    t = utext(fn)
    for b in (4, 8, 12):
        ok = f"Df{b}[j]=(BinAmps[j]**b{b}).dot(BinCount[j])" in t
        ctx.check(ok, f"fdepsd: damage indicator Df{b} = sum(amplitude^{b} * non-cumulative count)", fn)
    ok = "np.column_stack((Df4,Df8,Df12)),columns=['b=4','b=8','b=12']" in t
    ctx.check(ok, "fdepsd: di_sig columns b=4, b=8, b=12 hold Df4, Df8, Df12 in that order", fn)
    ok = "np.column_stack((Dt4,Dt8,Dt12)),columns=['b=4','b=8','b=12']" in t and "np.column_stack((sig2_4,sig2_8,sig2_12)),columns=['b=4','b=8','b=12']" in t
    ctx.check(ok, "fdepsd: di_test and var_test columns are ordered b=4, b=8, b=12 as well", fn)
    ok = "columns=['G1','G2','G4','G8','G12']" in t and "dct={k:lcls[k]forkincolumns}" in t
    ctx.check(ok, "fdepsd: the PSD table columns G1, G2, G4, G8, G12 are taken from the locals of those names", fn)
    # var_test column b is (Df_b / Dt_b)^(2/b) in both arms
    arms = [s for s in fn.body if isinstance(s, ast.If) and ast.unparse(s.test).replace(" ", "").replace('"', "'") == "resp=='absacce'"]
    if len(arms) != 1:
        raise AnchorError("fdepsd: `if resp == 'absacce'`")
    for label, body in (("absacce", arms[0].body), ("pvelo", arms[0].orelse)):
        Q, f, lnN0, N0, pi = F.sym("Q"), F.sym("f"), F.sym("lnN0"), F.sym("N0"), F.sym("pi")
        ev = Evaluator(env={"Q": Q, "freq": f, "lnN0": lnN0, "N0": N0, "pi": pi, "Amax": F.sym("Amax"), "G2max": F.sym("G2max"),
                            "Df4": F.sym("Df4"), "Df8": F.sym("Df8"), "Df12": F.sym("Df12")}, src=ctx.src,
                       call=lambda node, ev: (tuple(ev.ev(e) for e in node.args[0].elts) if dotted(node.func) == "np.vstack" else NotImplemented))
        ev.run([s for s in body if not isinstance(s, ast.AugAssign)])
        e = ev.env
        for b in (4, 8, 12):
            s2, Df, Dt = e.get(f"sig2_{b}"), F.sym(f"Df{b}"), e.get(f"Dt{b}")
            if any(x is None or is_unknown(x) for x in (s2, Dt)):
                ctx.error(f"fdepsd [{label}]: sig2_{b}", arms[0], f"{s2} {Dt}")
                continue
            ok = (s2 ** (b // 2)).equals(Df / Dt)
            ctx.check(ok, f"fdepsd [{label}]: the test variance for b={b} is (Df{b}/Dt{b})^(2/{b})", arms[0], None if ok else repr(s2))
        G1, G2 = e.get("G1"), e.get("G2")
        if any(x is None or is_unknown(x) for x in (G1, G2)):
            ctx.error(f"fdepsd [{label}]: G1/G2", arms[0])
            continue
        # Miles:  peak^2 = 2 ln(N0) sigma^2,  sigma^2 = G * M   ->  M from G1
        Mm = F.sym("Amax") ** 2 / (2 * lnN0 * G1)
        if label == "absacce":
            ok = Mm.equals(pi / 2 * f * Q)
            ctx.check(ok, "fdepsd [absacce]: G1 = Amax^2/(2 ln(N0) M) with Miles' M = (pi/2) f Q - the same M as srs.vrs's z_miles^2/PSD", arms[0],
                      None if ok else repr(Mm))
        else:
            ok = Mm.equals(Q / (8 * pi * f))
            ctx.check(ok, "fdepsd [pvelo]: G1 = Amax^2/(2 ln(N0) M) with M = Q/(8 pi f) (Miles' relation for pseudo velocity)", arms[0], None if ok else repr(Mm))
        ok = (G2 * F.sym("Amax") ** 2).equals(G1 * F.sym("G2max"))
        ctx.check(ok, f"fdepsd [{label}]: G2 uses the same factor as G1 (G2/G2max == G1/Amax^2)", arms[0])
        gm = e.get("Gmax")
        ratios = []
        for b in (4, 8, 12):
            G, s2 = e.get(f"G{b}"), e.get(f"sig2_{b}")
            if G is None or is_unknown(G) or s2 is None or is_unknown(s2):
                continue
            ratios.append(G / s2)
        ok = len(ratios) == 3 and ratios[0].equals(ratios[1]) and ratios[1].equals(ratios[2])
        ctx.check(ok, f"fdepsd [{label}]: G4, G8, G12 are obtained from their variances with one and the same factor", arms[0])
        if isinstance(gm, tuple) and len(gm) == 3 and not any(is_unknown(x) for x in gm):
            for b, g in zip((4, 8, 12), gm):
                G = e.get(f"G{b}")
                ok = (g * g).equals(G * Mm * 2 * lnN0)
                ctx.check(ok, f"fdepsd [{label}]: Gmax^2 = G{b} * M * 2 ln(N0) with the arm's own M (Miles consistency)", arms[0], None if ok else repr(g * g))
        else:
            ctx.error(f"fdepsd [{label}]: Gmax", arms[0], repr(gm))
    vm = ctx.src.func(SRS, "vrs")
    ok = "z_miles=np.sqrt(np.pi/2*freq*Q*psdfull.T).T" in utext(vm)
    ctx.check(ok, "srs.vrs: z_miles^2 = (pi/2) f Q PSD (the reference the absacce arm is compared with)", vm, nontrivial=False)
    n0 = [s for s in fn.body if isinstance(s, ast.Assign) and ast.unparse(s.targets[0]) in ("N0", "lnN0")]
    ok = [ast.unparse(s.value).replace(" ", "") for s in n0] == ["freq*T0", "np.log(N0)"]
    ctx.check(ok, "fdepsd: N0 = f T0 cycles and lnN0 = log(N0)", n0[0] if n0 else fn)


def r3_telescoping(ctx):
    fn = ctx.src.func(FDE, "fdepsd")
    st = [s for s in fn.body if isinstance(s, ast.Assign) and ast.unparse(s.targets[0]) == "BinCount"]
    st = [s_ for s_ in st if "np.hstack" in ast.unparse(s_.value)]
    if len(st) != 1:
        raise AnchorError("fdepsd: BinCount")
    C = tuple(F.sym(f"c{i}") for i in range(5))
    ev = Evaluator(env={"Count": C}, src=ctx.src)
    v = ev.ev(st[0].value)
    ok = isinstance(v, tuple) and len(v) == len(C) and not any(is_unknown(x) for x in v)
    if not ctx.check(ok, "fdepsd: BinCount has one entry per bin", st[0], repr(v)):
        return
    tot = F.const(0)
    for x in v:
        tot = tot + x
    ok = tot.equals(C[0])
    ctx.check(ok, "fdepsd: non-cumulative counts telescope - their sum is the first cumulative count (the total number of cycles)", st[0], None if ok else repr(tot))
    ok = all(v[i].equals(C[i] - C[i + 1]) for i in range(len(C) - 1)) and v[-1].equals(C[-1])
    ctx.check(ok, "fdepsd: BinCount[k] = Count[k] - Count[k+1], last bin keeps its cumulative count", st[0])
    # cumulative count definition on both serial and parallel side: count of cycles with amp >= level
    for rel, q in ((FDE, "fdepsd"), (FDE, "_dofde")):
        f2 = ctx.src.func(rel, q)
        t = utext(f2)
        ok = ("pv=amp>=BinAmps[j,jj]" in t and "Count[j,jj]=np.sum(count[pv])" in t) if q == "fdepsd" else \
            ("pv=amp>=BinAmps_[j,jj]" in t and "Count_[j,jj]=np.sum(count[pv])" in t)
        ctx.check(ok, f"{q}: Count[j, jj] = number of cycles with amplitude >= level jj (non-increasing in the level; level 0 = 0 counts every cycle)", f2)
    t = utext(fn)
    ok = "BinAmps+=np.arange(nbins,dtype=float)/nbins" in t and "BinAmps[j]*=Amax[j]" in t and "Amax[j]=amp.max()" in t
    ctx.check(ok, "fdepsd: amplitude levels are k/nbins of the largest cycle amplitude, k = 0..nbins-1 (first level 0)", fn)
    ok = "SRSmax[j]=abs(resphist).max()" in t and "rf=cyclecount.rainflow(resphist[ind])" in t and "ind=cyclecount.findap(resphist)" in t
    ctx.check(ok, "fdepsd: cycles are counted on the reversals of the same response history whose absolute maximum is the SRS value", fn)


RULES = [
    ("C10-R1", r1_exponents, 27),
    ("C10-R3", r3_telescoping, 7),
    ("C10-R5", r5_binify_guards, 18),
    ("C10-R6", r6_tolerance_strictness, 6),
]
LEVEL = "other"
EXPLANATION = ("Static: binify's dropped index guard is sound only if getbins' out-of-bounds verdict is the exact complement of numpy.digitize's half-open "
               "intervals - checked operator by operator for both `right` settings; all peak-picking tolerance comparisons are strict; fdepsd's exponent/label "
               "agreement, (Df/Dt)^(2/b), Miles consistency of G1/G2/Gb/Gmax in both response arms (symbolic), telescoping of BinCount on a generic count vector.")
MANIFEST = {
    "text": "Thin partial claim decided statically: (R5) getbins/_binify/binify guard flow and half-open interval agreement with numpy.digitize; (R6) strict tolerance "
            "comparisons shared by locate.find_unique and both findap variants; (R1) fdepsd exponent/label agreement and Miles consistency per response arm; "
            "(R3) BinCount telescopes to the total cycle count. The serial==parallel clause is decided under C09. Not decided: findap's alternation / extreme "
            "capture on data (the plateau-drift counter-example of the property is value-level), G2 >= G1, amplitude <= SRS peak, amplitude-square scaling.",
    "note": "Trusted: CPython ast; numpy.digitize's documented interval semantics (embedded as a two-row table); verifier/e2_formula.py.",
    "technique": "static guard-flow / operator agreement rules + symbolic formula consistency + small-vector telescoping check",
}
