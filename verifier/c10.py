"""C10 -- cycle-counting pipeline and fatigue-damage PSD bookkeeping (thin partial claim).

Every rule is decided on values: the anchored functions are evaluated on symbols (verifier/c10_sem.py, an extension of
e2_eval.AutoEvaluator / sem.Sem) and an obligation compares what reaches a store, a call argument, a return or a branch test with the
expected value, or evaluates a guard's truth table on a small numeric model.  Locals' names, temporaries, if/else order, early returns,
helpers extracted or inlined, loops vs comprehensions, keyword vs positional arguments and equivalent numpy spellings do not matter."""
from __future__ import annotations

import ast
from fractions import Fraction

from . import e2_formula as F
from .core import AnchorError, Unsupported
from .e2_eval import is_unknown, need
from .e1_srcmodel import dotted
from .sem import module_funcs, place
from .c10_sem import (XSem, Facts, Degrees, Stencil, ANY, truth, same, app, head, sym_of, const_of, walk, apps, peel, depends, conj, wrap, devectorise,
                      module_consts, str_parts, single_atom, untuple, TRUE, FALSE, NONE)

CYC = "pyyeti/cyclecount.py"
LOC = "pyyeti/locate.py"
FDE = "pyyeti/fdepsd.py"
SRS = "pyyeti/srs.py"


class Careful:
    """the rule's view of the context: a comparison that fails is a VIOLATION only when every evaluation the rule made followed all effects on
    the arrays it read; an effect that was lost (Trace.lost) means the recorded content of some array may be incomplete - not decided"""

    def __init__(self, ctx):
        self._ctx = ctx
        self.traces = []
        self.unread = []          # (pass 5) outputs / values the rule needs that the evaluation left undetermined: nothing derived from them is a verdict

    def __getattr__(self, k):
        return getattr(self._ctx, k)

    def lost(self):
        out = []
        for tr in self.traces:
            for what, node in tr.lost:
                w = f"{what} at {self._ctx.src.where(node)}"
                if w not in out:
                    out.append(w)
        return out

    def fail(self, instance, where=None, detail=None, key=None):
        lost = self.lost()
        if lost:
            return self._ctx.error(instance + " [not decided: an effect on an array was not followed]", where, {"compared": detail, "not followed": lost[:4]})
        if self.unread:
            return self._ctx.error(instance + " [not decided: a value the rule reads was not determined]", where, {"compared": detail, "not determined": self.unread[:4]})
        return self._ctx.fail(instance, where, detail, key)

    def check(self, cond, instance, where=None, detail=None, key=None, nontrivial=True):
        if cond:
            self._ctx.ok(instance, where, detail, nontrivial)
        else:
            self.fail(instance, where, detail, key)
        return cond


def careful(rule):
    def run(ctx):
        return rule(Careful(ctx))
    run.__name__ = rule.__name__
    run.__doc__ = rule.__doc__
    return run


def params(fn):
    a = fn.args
    return [x.arg for x in a.posonlyargs + a.args]


def call_value(c):
    """the value AutoEvaluator gives an opaque call, rebuilt from a recorded call (name, positional, keywords, node, ...)"""
    args = [wrap(v) for v in c[1]]
    for k in c[3].keywords:
        if k.arg is not None:
            args.append(F.fn("kw:" + k.arg, wrap(c[2][k.arg])))
    return F.fn("call:" + c[0], *args)


def placed(c, names):
    return place(c[1], c[2], names)


def call_args(u):
    """(positional values, {keyword: value}) of an opaque application's argument list"""
    pos, kw = [], {}
    for a in u[1]:
        k = app(a) if not isinstance(a, str) else None
        if k is not None and k[0].startswith("kw:"):
            kw[k[0][3:]] = k[1][0]
        else:
            pos.append(a)
    return pos, kw


def short(v, n=300):
    r = repr(v)
    return r if len(r) <= n else r[:n] + "..."


# ======================================================================================================================= R5
def _getbins_facts(S0, right, vector, lo=0, hi=10, b0=None, bn=None, check=True, increasing=True, mixed=False, interior=None):
    E = S0.E
    truths = [(E("right"), right), (E("check_bounds"), check)]
    f = Facts(truths=truths)
    f.interior = interior        # what np.digitize returns for a value strictly inside the edges (1 .. number of edges - 1)
    for text, x in (("mx", hi), ("mn", lo), ("bins.size", 5 if vector else 1), ("len(bins)", 5 if vector else 1), ("bins.ndim", 1),
                    ("bins[1:]", 6 if increasing else 5), ("bins[:-1]", 5)):
        f.num_set(E(text), x)
    if b0 is not None:
        f.num_set(E("bins[0]"), b0)
        f.num_set(E("bins[-1]"), bn)
    if mixed:
        # np.any / np.all over the bin widths: one width is 1, another is 0 (a repeated edge)
        f.elements = [_getbins_facts(S0, right, vector, lo, hi, b0, bn, check, True), _getbins_facts(S0, right, vector, lo, hi, b0, bn, check, False)]
    return f


def _bound(ctx, S, what, node):
    """every name read on the evaluated paths is bound (a deleted or mistyped definition is a NameError, whatever else holds)"""
    names = sorted({u[0] for u in S.tr.unbound})
    # a read of a name nothing binds is a definite NameError whatever else was left undetermined (it is usually *why* an output is undetermined)
    saved = ctx.__dict__.get("unread") if hasattr(ctx, "__dict__") else None
    if saved is not None:
        ctx.unread = []
    try:
        ctx.check(not names, f"{what}: every name the evaluated code reads is bound before it is read", S.tr.unbound[0][1] if names else node,
                  None if not names else {"unbound": names}, nontrivial=False)
    finally:
        if saved is not None:
            ctx.unread = saved


def _is_full(x):
    u = app(x, "slice") if x is not None and not isinstance(x, (str, tuple)) else None
    return u is not None and all(sym_of(p) == "None" for p in u[1])


def _digitized(x):
    """an index of the accumulation read as  np.digitize(...)[k] + off  wherever the offset is applied (to the whole vector, to the element,
    or to both): (digitize application, off, [k], (the idx atom, x - atom)); (None, ...) when x is not of that form"""
    none = (None, None, [], (None, None))
    if x is None or is_unknown(x) or isinstance(x, (tuple, str)):
        return none
    cands = [v for _, _, v in apps(x, "idx") if apps(v, "call:np.digitize")]
    outer = [v for v in cands if not any(v is not w and any(same(v, y) for y in walk(w) if y is not w) for w in cands)]
    if len(outer) != 1:
        return none
    atom = outer[0]
    try:
        shift = const_of(need(x) - atom)
    except Unsupported:
        shift = None
    if shift is None:
        return none
    b, k = peel(atom)
    dgs = apps(b, "call:np.digitize")
    if len(dgs) != 1:
        return none
    try:
        inner = const_of(need(b) - dgs[0][2])
    except Unsupported:
        inner = None
    if inner is None:
        return none
    return ("call:np.digitize", dgs[0][1]), shift + inner, k, (atom, shift)


def _flat_view(S, fb, mat, node):
    """(pass 6) the store `v[k] (+)= x` goes through a name bound once to a flattened *view* of the table `mat` (mat.ravel(), np.ravel(mat),
    mat.reshape(-1), all row-major; the table is created C-contiguous by np.zeros / np.full, so these are views): the name, else None.
    The evaluator erases .ravel(), so such a store shows up as a one-index store into the two-axis table."""
    tgt = node.target if isinstance(node, (ast.AugAssign, ast.AnnAssign)) else (node.targets[0] if isinstance(node, ast.Assign) and len(node.targets) == 1 else None)
    if not isinstance(tgt, ast.Subscript) or not isinstance(tgt.value, ast.Name) or tgt.value.id == mat:
        return None
    nm = tgt.value.id
    binds = [n for n in ast.walk(fb) if isinstance(n, ast.Name) and n.id == nm and isinstance(n.ctx, (ast.Store, ast.Del))]
    mbinds = [n for n in ast.walk(fb) if isinstance(n, ast.Name) and n.id == mat and isinstance(n.ctx, (ast.Store, ast.Del))]
    if len(binds) != 1 or len(mbinds) != 1:
        return None
    al = S.tr.allocs.get(mat)
    if al is None or al[0] not in ("np.zeros", "np.full", "np.ones", "np.empty") or al[2].get("order") is not None:
        return None
    for a in ast.walk(fb):
        if isinstance(a, ast.Assign) and len(a.targets) == 1 and a.targets[0] is binds[0] and isinstance(a.value, ast.Call):
            c = a.value
            d = dotted(c.func) or ""
            if isinstance(c.func, ast.Attribute) and isinstance(c.func.value, ast.Name) and c.func.value.id == mat:
                if c.func.attr == "ravel" and not c.args and not c.keywords:
                    return nm
                if c.func.attr == "reshape" and not c.keywords and len(c.args) == 1:
                    x = c.args[0]
                    if isinstance(x, (ast.Tuple, ast.List)) and len(x.elts) == 1:
                        x = x.elts[0]
                    if isinstance(x, ast.UnaryOp) and isinstance(x.op, ast.USub) and isinstance(x.operand, ast.Constant) and x.operand.value == 1:
                        return nm
            if d in ("np.ravel", "numpy.ravel") and len(c.args) == 1 and not c.keywords and isinstance(c.args[0], ast.Name) and c.args[0].id == mat:
                return nm
    return None


def _flat_parts(x):
    """the digitize entries a flat index is computed from: [(entry atom, offset of the entry against digitize(...)[k], [k], digitize application)],
    or None when some part of x that depends on digitize is not such an entry"""
    if x is None or is_unknown(x) or isinstance(x, (tuple, str)):
        return None
    cands = [v for _, _, v in apps(x, "idx") if apps(v, "call:np.digitize")]
    outer = [v for v in cands if not any(v is not w and any(same(v, y) for y in walk(w) if y is not w) for w in cands)]
    uniq = []
    for v in outer:
        if not any(same(v, w) for w in uniq):
            uniq.append(v)
    parts = []
    for v in uniq:
        dg, off, k, (atom, _) = _digitized(v)
        if dg is None or len(k) != 1:
            return None
        parts.append((atom, off, k, dg))
    return parts


def r5_binify_guards(ctx):
    """numpy.digitize(x, b, right) - 1 is a valid bin index iff  b[0] < x <= b[-1] (right=True)  /  b[0] <= x < b[-1] (right=False).
    getbins' out-of-bounds verdict must be the exact complement, because binify drops the index guard when it says 'in bounds'."""
    consts = module_consts(ctx, CYC)
    table = module_funcs(ctx, CYC)
    fn = ctx.src.func(CYC, "getbins")
    if params(fn)[:5] != ["bins", "mx", "mn", "right", "check_bounds"]:
        raise AnchorError("getbins(bins, mx, mn, right, check_bounds)")
    inl = {k: v for k, v in table.items() if k not in ("getbins",)}
    S0 = XSem(ctx, fn, run=False, consts=consts)
    # ---- explicit (vector) bins: the verdict as a truth table over the position of mn relative to the first and of mx relative to the last edge
    for right in (True, False):
        S = XSem(ctx, fn, facts=_getbins_facts(S0, right, True), inline=inl, consts=consts)
        ret = S.ret()
        label = "(b0, b1] ... right-closed" if right else "[b0, b1) ... left-closed"
        if not isinstance(ret, tuple) or len(ret) != 2 or S.tr.raises:
            ctx.error(f"getbins (right={right}): with check_bounds the result is (edges, out-of-bounds verdict)", S.ret_node(), short(ret))
            continue
        edges, verdict = S.deref(ret[0]), S.deref(ret[1])
        ok = same(edges, S0.E("bins"))
        if not ok and edges is not None and not is_unknown(edges) and not isinstance(edges, tuple) and depends(edges, "bins"):
            # derived from the given bins in a way this rule does not read (sorted, converted, ...): not a verdict
            ctx.error(f"getbins (right={right}): explicit bins are returned as given", S.ret_node(), short(edges))
        else:
            ctx.check(ok, f"getbins (right={right}): explicit bins are returned as given", S.ret_node(), None if ok else short(edges), nontrivial=False)
        tab = {}
        for pl, b0 in (("below", 1), ("on", 0), ("above", -1)):          # mn = 0 relative to the first edge b0
            for ph, bn in (("below", 11), ("on", 10), ("above", 9)):      # mx = 10 relative to the last edge bn
                # a verdict that asks np.digitize itself where mn and mx fall must come out the same whichever interior bin it names
                vs = {truth(verdict, _getbins_facts(S0, right, True, b0=b0, bn=bn, interior=k_)) for k_ in (1, 2, 3, 4)}
                tab[(pl, ph)] = vs.pop() if len(vs) == 1 else None
        if any(v is None for v in tab.values()):
            interior = [x for _, a_, x in apps(verdict, "idx") if same(a_[0], S0.E("bins")) and const_of(a_[1]) is not None and const_of(a_[1]) not in (0, -1)]
            if interior:
                ctx.fail(f"getbins (right={right}, bins {label}): the verdict compares the data range with the first and the last edge", S.ret_node(),
                         {"verdict": short(verdict), "other edge used": [short(x) for x in interior]})
            else:
                ctx.error(f"getbins (right={right}): the out-of-bounds verdict is not a function of (mn vs first edge, mx vs last edge)", S.ret_node(), short(verdict))
            continue
        lo_out = {"below": True, "on": right, "above": False}
        hi_out = {"below": False, "on": not right, "above": True}
        got = {p: tab[(p, "below")] for p in lo_out}
        ok = got == lo_out
        ctx.check(ok, f"getbins (right={right}, bins {label}): the smallest value is out of bounds exactly when it falls {'on or ' if right else ''}below the first edge",
                  S.ret_node(), None if ok else {"verdict by position of mn (mx inside)": got, "expected": lo_out, "verdict": short(verdict),
                                                 "consequence": "a value on the open edge is reported in bounds; binify then skips the index guard and digitize - 1 = -1 wraps into the last bin"})
        got = {p: tab[("above", p)] for p in hi_out}
        ok = got == hi_out
        ctx.check(ok, f"getbins (right={right}): the largest value is out of bounds exactly when it falls {'' if right else 'on or '}above the last edge",
                  S.ret_node(), None if ok else {"verdict by position of mx (mn inside)": got, "expected": hi_out, "verdict": short(verdict)})
        ok = all(tab[(pl, ph)] == (lo_out[pl] or hi_out[ph]) for pl in lo_out for ph in hi_out)
        ctx.check(ok, f"getbins (right={right}): the verdict is True on that test and False otherwise", S.ret_node(), None if ok else {str(k): v for k, v in tab.items()},
                  nontrivial=False)
    # ---- scalar bins (documented: bb = linspace(mn, mx, bins + 1); p = 0.001 (mx - mn); the open edge is moved outward by p; nothing is out of bounds)
    oks, why = [], []
    for right in (True, False):
        S = XSem(ctx, fn, facts=_getbins_facts(S0, right, False), inline=inl, consts=consts)
        if right:
            _bound(ctx, S, "getbins", fn)
        ret = S.ret()
        if not isinstance(ret, tuple) or len(ret) != 2:
            ctx.error(f"getbins (scalar bins, right={right}): result", S.ret_node(), short(ret))
            oks.append(None)
            continue
        arr = sym_of(ret[0])
        cells = S.cells(arr) if arr else []
        init = S.init(arr) if arr else None
        u = app(init, "call:np.linspace") if init is not None and not is_unknown(init) else None
        if u is None or len(cells) != 1 or is_unknown(cells[0][1]) or is_unknown(cells[0][2]):
            oks.append(None)            # edges not made by np.linspace plus one widening store: a shape this rule does not read
            continue
        pos, kw = call_args(u)
        la = place(pos, kw, ["start", "stop", "num"])
        k = 0 if right else -1
        want = [S0.E(f"X[{k}] {'-' if right else '+'} 0.001 * (mx - mn)", X=F.sym(arr)),
                S0.E(f"{'mn -' if right else 'mx +'} 0.001 * (mx - mn)")]          # np.linspace(a, b, n)[0] is a, [-1] is b - exactly
        nedges = la.get("num")
        counts = [S0.E(t) for t in ("int(bins[0]) + 1", "bins[0] + 1", "int(bins) + 1", "bins + 1", "int(bins.item()) + 1", "bins.item() + 1")]
        if nedges is None or not any(same(nedges, w) for w in counts):
            # the same shape with another entry of `bins` or another offset (int(bins[0]) - 1, bins[1] + 1, ...) is wrong; a conversion this rule
            # does not read is not decided
            shaped = False
            if nedges is not None and not is_unknown(nedges) and not isinstance(nedges, tuple):
                for k_ in (0, 1, -1):
                    for c_ in range(-2, 4):
                        for t_ in (f"int(bins[{k_}]) + {c_}", f"bins[{k_}] + {c_}", f"int(bins) + {c_}", f"bins + {c_}"):
                            shaped = shaped or same(nedges, S0.E(t_))
            if not shaped and nedges is not None and not is_unknown(nedges) and not isinstance(nedges, tuple) and depends(nedges, "bins") and apps(nedges, "call:"):
                oks.append(None)        # the number of edges is taken from `bins` through a conversion this rule does not read
                continue
        ok = same(la.get("start"), S0.E("mn")) and same(la.get("stop"), S0.E("mx")) and nedges is not None \
            and any(same(nedges, w) for w in counts) \
            and truth(ret[1], None) is False and not cells[0][4]["guard"] and const_of(cells[0][1]) == k and any(same(cells[0][2], w) for w in want)
        oks.append(ok)
        if not ok:
            why.append({"right": right, "edges": short(init), "store": [short(cells[0][1]), short(cells[0][2])], "verdict": short(ret[1])})
    if None in oks and False not in oks:
        ctx.error("getbins (scalar bins): edges are not np.linspace(mn, mx, bins + 1) with one store that moves the open edge", fn)
    else:
        ctx.check(all(oks), "getbins (scalar bins): edges span [mn, mx], the open edge (first for right=True, last otherwise) is moved outward, and nothing is out of bounds", fn,
                  None if all(oks) else why)
    # (mx, mn) given in the wrong order are swapped, a zero range is widened by 0.5 on both sides, before the edges are made
    for lo_, hi_, w0, w1, text in ((10, 0, 0, 10, "getbins: (mx, mn) are ordered before use"), (5, 5, Fraction(9, 2), Fraction(11, 2), "getbins: a zero range (mx == mn) is widened to (mn - 0.5, mx + 0.5)")):
        fx = _getbins_facts(S0, True, False, lo=lo_, hi=hi_)
        S = XSem(ctx, fn, facts=fx, inline=inl, consts=consts)
        ret = S.ret()
        arr = sym_of(ret[0]) if isinstance(ret, tuple) and ret else None
        u = app(S.init(arr), "call:np.linspace") if arr and S.init(arr) is not None and not is_unknown(S.init(arr)) else None
        if u is None:
            ctx.error(text, fn, short(ret))
            continue
        pos, kw = call_args(u)
        la = place(pos, kw, ["start", "stop", "num"])
        ok = fx.num(la.get("start")) == w0 and fx.num(la.get("stop")) == w1
        ctx.check(ok, text, fn, None if ok else {"edges": short(S.init(arr))}, nontrivial=False)
    S = XSem(ctx, fn, facts=_getbins_facts(S0, True, True, mixed=True), inline=inl, consts=consts)
    Sg = XSem(ctx, fn, facts=_getbins_facts(S0, True, True), inline=inl, consts=consts)
    ok = bool(S.tr.raises) and not S.returns() and not Sg.tr.raises and bool(Sg.returns())
    ctx.check(ok, "getbins: explicit bins must be strictly increasing", fn, None if ok else {"a repeated edge is rejected": bool(S.tr.raises), "increasing edges are accepted": not Sg.tr.raises},
              nontrivial=False)

    # ---- _binify
    fb = ctx.src.func(CYC, "_binify")
    pb = params(fb)
    if len(pb) != 5:
        raise AnchorError("_binify(cycles, bins_range, bins_mean, right, ensure_boundaries)")
    Sb0 = XSem(ctx, fb, run=False, consts=consts)
    binl = {k: v for k, v in table.items() if k not in ("_binify",)}
    acc = {}
    for ens in (True, False):
        S = XSem(ctx, fb, facts=Facts(truths=[(Sb0.E(pb[4]), ens)]), inline=binl, consts=consts)
        mat = sym_of(S.ret())
        cells = S.cells(mat) if mat else []
        _bound(ctx, S, f"_binify ({'guarded' if ens else 'unguarded'} arm)", fb)
        if mat is None or len(cells) != 1:
            ctx.error(f"_binify ({'guarded' if ens else 'unguarded'} arm): one accumulation into the returned table", fb, short(S.ret()))
            continue
        acc[ens] = (S, mat, cells[0])
    roles = {}
    flat = {}
    if True in acc and False in acc:
        bad = None
        shape = True
        for ens, (S, mat, cell) in acc.items():
            _, ix = peel(F.fn("idx", F.sym(mat), cell[1]))
            got = []
            fl_parts = None
            if len(ix) == 1 and S.ev._rank(mat) == 2 and _digitized(ix[0])[0] is None and _flat_view(S, fb, mat, cell[3]) is not None:
                # (pass 6) one index into a flattened view of the table: read by value - which digitize entries it is computed from here, where the
                # count lands (divmod by the number of columns) in the truth table below
                fl_parts = _flat_parts(ix[0])
            if fl_parts is not None and len(fl_parts) == 2:
                for atom_, off_, k_, dg_ in fl_parts:
                    pos_a, kw_a = call_args(dg_)
                    a = place(pos_a, kw_a, ["x", "bins", "right"])
                    _, cix = peel(a.get("x"))
                    col = const_of(cix[1]) if len(cix) == 2 and _is_full(cix[0]) else None
                    got.append((col, sym_of(a.get("bins")), a.get("right"), k_[0], atom_, off_))
                got.sort(key=lambda g_: (g_[0] != 1, g_[0] != 0))          # the mean entry (column 1 of the cycle table) first
                flat[ens] = {"mean": got[0][4:], "amp": got[1][4:], "name": _flat_view(S, fb, mat, cell[3])}
                ix = ()
            for pos, x in enumerate(ix):
                dg, off, k, _ = _digitized(x)
                if dg is None or len(k) != 1:
                    bad = f"index {pos} of the accumulation is not digitize(...)[k] - 1: {short(x)}"
                    shape = False
                    break
                if off != -1:
                    bad = f"index {pos} of the accumulation is digitize(...) {'+' if off >= 0 else '-'} {abs(off)} (digitize returns i with bins[i-1] < x <= bins[i], so the bin index is i - 1)"
                    break
                pos_a, kw_a = call_args(dg)
                a = place(pos_a, kw_a, ["x", "bins", "right"])
                _, cix = peel(a.get("x"))
                col = const_of(cix[1]) if len(cix) == 2 and _is_full(cix[0]) else None          # cycles[:, col] - a column, not the row cycles[col]
                got.append((col, sym_of(a.get("bins")), a.get("right"), k[0]))
            if bad:
                break
            loops = cell[4]["loops"]
            if bad:
                break
            if len(loops) != 1 or is_unknown(loops[0][1]):
                # not one counted loop whose index selects the cycle (a while loop, a nested loop, ...): a shape this rule does not read
                bad = f"the accumulation is not inside one loop over the cycles indexed by the loop variable: loops {[l[0] for l in loops]}, indices {[short(g[3], 40) for g in got]}"
                shape = False
                break
            ok = len(got) == 2 and got[0][0] == 1 and got[1][0] == 0 and all(same(g[2], Sb0.E(pb[3])) for g in got) \
                and got[0][1] in pb[1:3] and got[1][1] in pb[1:3] and got[0][1] != got[1][1] \
                and len(loops) == 1 and all(sym_of(g[3]) == loops[0][0] for g in got) and same(loops[0][1], Sb0.E(f"len({pb[0]})"))
            if not ok:
                bad = f"{[(g[0], g[1], short(g[2])) for g in got]}"
                break
            roles[ens] = {"mean": got[0][1], "amp": got[1][1]}
            try:
                added = need(cell[2]) - F.fn("idx", F.sym(mat), cell[1])
            except Unsupported:
                added = None
            if not same(added, Sb0.E(f"{pb[0]}[_i0, 2]")):
                bad = f"value added: {short(added)}"
                # wrong only when it is recognisably another entry of the cycle table (another column, another row); anything else is not read
                # (every atom of it is an entry cycles[<loop index or integer>, <integer>] or an entry of the accumulation matrix itself: fully read)
                read_ = added is not None and not is_unknown(added) and not isinstance(added, (tuple, str))
                if read_:
                    for a_ in need(added).n.atoms() | need(added).d.atoms():
                        b_, ix_ = peel(F.Rat(F.Poly.atom(a_)))
                        entry = sym_of(b_) in (pb[0], mat) and len(ix_) == 2 and all(not isinstance(x, str) for x in ix_)
                        if entry and sym_of(b_) == pb[0]:
                            entry = all(const_of(x) is not None or sym_of(x) is not None for x in ix_)       # a loop index, an integer or any other plain name
                        if not entry:
                            read_ = False
                            break
                if not read_:
                    shape = False
                break
        ok = bad is None and roles.get(True) == roles.get(False)
        if not shape:
            ctx.error("_binify: amplitude (column 0) and mean (column 1) are binned with digitize(..., right=right) - 1", fb, bad)
        else:
            ctx.check(ok, "_binify: amplitude (column 0) and mean (column 1) are binned with digitize(..., right=right) - 1", fb, bad)
        # guard truth tables: row r against [0, n_mean), column c against [0, n_range)
        if ok:
            for ens, (S, mat, cell) in acc.items():
                _, ix = peel(F.fn("idx", F.sym(mat), cell[1]))
                g = conj(list(cell[4]["guard"]))
                tab = {}
                und = False
                lands = {}
                for r_, rin in ((-1, False), (0, True), (3, True), (5, False), (7, False)):
                    for c_, cin in ((-1, False), (0, True), (2, True), (4, False), (9, False)):
                        f = Facts(truths=[(Sb0.E(pb[4]), ens)])        # the regime the arm was evaluated in (a merged loop tests the flag per cycle)
                        f.num_set(Sb0.E(f"len({roles[ens]['mean']})"), 6)
                        f.num_set(Sb0.E(f"len({roles[ens]['amp']})"), 5)
                        if ens in flat:
                            # (pass 6) the flat index by value: digitize(...)[k] - 1 is r_ resp. c_; the entry the code computes from it has its own
                            # offset; the count lands in row, column = divmod(flat index, number of columns) of the table as it was created
                            for role, val in (("mean", r_), ("amp", c_)):
                                atom, off = flat[ens][role]
                                f.num_set(atom, val + 1 + off)
                            al_ = S.tr.allocs.get(mat)
                            shp_ = untuple(place(al_[1], al_[2], ["shape", "fill_value", "dtype"] if al_[0] == "np.full" else ["shape", "dtype"]).get("shape"))
                            dims = [f.num(d_) for d_ in shp_] if isinstance(shp_, tuple) and len(shp_) == 2 else [None, None]
                            kf = f.num(ix[0])
                            if None in dims or kf is None or kf.denominator != 1 or min(dims) <= 0:
                                und = True
                                continue
                            for nm_ in (flat[ens]["name"], mat):
                                f.num_set(F.sym(nm_ + ".size"), dims[0] * dims[1])
                            t = truth(g, f)
                            und = und or t is None
                            tab[(r_, c_)] = (t, rin and cin)
                            if t:
                                # numpy: a negative index counts from the end; outside [-size, size) is an IndexError
                                size_ = dims[0] * dims[1]
                                kk = kf + size_ if -size_ <= kf < 0 else kf
                                cellrc = tuple(int(z) for z in divmod(kk, dims[1])) if 0 <= kk < size_ else "IndexError"
                                lands[(r_, c_)] = cellrc
                                if rin and cin and cellrc != (r_, c_):
                                    tab[(r_, c_)] = (cellrc, (r_, c_))
                            continue
                        for x, val in ((ix[0], r_), (ix[1], c_)):
                            _, _, _, (atom, shift) = _digitized(x)    # x = atom + shift with atom the indexed digitize result
                            f.num_set(atom, val - shift)
                        t = truth(g, f)
                        und = und or t is None
                        tab[(r_, c_)] = (t, rin and cin)
                if und:
                    ctx.error(f"_binify: guard of the {'guarded' if ens else 'unguarded'} accumulation", cell[3], short(g))
                elif ens:
                    ok = all(t == want for t, want in tab.values())
                    det = None if ok else {"guard": short(g), "(row, column) -> (added, valid)": {str(k): v for k, v in tab.items() if v[0] != v[1]}}
                    if not ok and ens in flat:
                        det["the table is indexed through the flattened view"] = flat[ens]["name"]
                        det["flat index"] = short(ix[0], 200)
                        det["witness: (row, column) of the cycle -> table entry that receives its count"] = \
                            {str(k): str(v) for k, v in lands.items() if tab[k][0] != tab[k][1]}
                    ctx.check(ok, "_binify: the guarded arm adds a cycle's count only when both indices are valid", cell[3], det)
                else:
                    ok = all(t is True for t, _ in tab.values())
                    ctx.check(ok, "_binify: the unguarded arm (used when getbins proved every value in bounds) adds every count", cell[3], None if ok else short(g))
            S = acc[True][0]
            al = S.tr.allocs.get(acc[True][1])
            ini = S.init(acc[True][1])
            msg = "_binify: the table has one row per mean bin and one column per amplitude bin (double precision counts)"
            a = place(al[1], al[2], ["shape", "fill_value", "dtype"] if al and al[0] == "np.full" else ["shape", "dtype"]) if al else {}
            shp = untuple(a.get("shape")) if al else None
            if al is None or al[0] not in ("np.zeros", "np.full", "np.empty", "np.ones") or not isinstance(shp, tuple) or len(shp) != 2:
                ctx.error(msg, fb, f"the returned table is not created by np.zeros((rows, columns)): {short(ini)}")
            else:
                d = a.get("dtype")
                f64 = d is None or sym_of(d) in ("np.float64", "float", "np.double", "'float64'", "'f8'", "'float'", "'d'", "np.float_")
                ok = al[0] in ("np.zeros", "np.full") and const_of(ini) == 0 and f64 and same(shp[0], Sb0.E(f"len({roles[True]['mean']}) - 1")) \
                    and same(shp[1], Sb0.E(f"len({roles[True]['amp']}) - 1"))
                ctx.check(ok, msg, fb, None if ok else {"created by": al[0], "shape": [short(x) for x in shp], "dtype": short(d), "initial value": short(ini)})
    # ---- binify
    bf = ctx.src.func(CYC, "binify")
    pf = params(bf)
    need_names = ["rf", "ampbins", "meanbins", "right", "check_bounds"]
    if any(n not in pf for n in need_names):
        raise AnchorError("binify(rf, ampbins, meanbins, right, ..., check_bounds)")
    # maxmin: (largest, smallest)
    mm_ok = []
    for q in ("maxmin", "maxmin#2"):
        if ctx.src.has_func(CYC, q):
            f2 = ctx.src.func(CYC, q)
            if not any(isinstance(n, (ast.For, ast.While)) for n in ast.walk(f2)):
                S2 = XSem(ctx, f2, consts=consts)
                p2 = params(f2)
                mm_ok.append(same(S2.ret(), S2.E(f"(np.max({p2[0]}), np.min({p2[0]}))")))
    if not mm_ok:
        ctx.error("maxmin (numpy variant) returns (largest, smallest)", bf, "no loop-free definition of maxmin found")
    else:
        ctx.check(all(mm_ok), "maxmin (numpy variant) returns (largest, smallest)", bf, nontrivial=False)

    def mm_call(node, ev):
        from .e1_srcmodel import dotted
        if dotted(node.func) == "maxmin" and len(node.args) == 1 and not node.keywords:
            v = ev.ev(node.args[0])
            if is_unknown(v) or isinstance(v, tuple):
                return v
            return (F.fn("call:np.max", need(v)), F.fn("call:np.min", need(v)))
        return NotImplemented

    finl = {k: v for k, v in table.items() if k not in ("binify", "getbins", "_binify", "maxmin")}
    Sf0 = XSem(ctx, bf, run=False, consts=consts)
    gp = params(fn)
    res = {}
    for chk in (True, False):
        S = XSem(ctx, bf, facts=Facts(truths=[(Sf0.E("check_bounds"), chk), (Sf0.E("use_pandas"), True), (Sf0.E("retbins"), False)]), inline=finl,
                 consts=consts, call=mm_call)
        gb = S.calls("getbins")
        bn = S.calls("_binify")
        res[chk] = (S, gb, bn)
        _bound(ctx, S, f"binify (check_bounds={chk})", bf)
    S, gb, bn = res[True]
    G = {}
    bad = None
    undecided = False
    unread = False
    if len(gb) != 2 or len(bn) != 1:
        bad = f"{len(gb)} getbins calls, {len(bn)} _binify calls"
    else:
        for c in gb:
            a = placed(c, gp)
            which = "amp" if same(a.get("bins"), Sf0.E("ampbins")) else ("mean" if same(a.get("bins"), Sf0.E("meanbins")) else None)
            col = {"amp": 0, "mean": 1}.get(which)
            if which is None or which in G:
                bad = f"getbins call with bins = {short(a.get('bins'))}"
                bv = a.get("bins")
                if which is None and bv is not None and not is_unknown(bv) and not isinstance(bv, tuple) and (depends(bv, "ampbins") != depends(bv, "meanbins")):
                    unread = True       # derived from one of the two specifications in a way this rule does not read
                break
            hi, lo = Sf0.E(f"np.max(rf[:, {col}])"), Sf0.E(f"np.min(rf[:, {col}])")
            ext = (same(a.get("mx"), hi) and same(a.get("mn"), lo)) or (same(a.get("mx"), lo) and same(a.get("mn"), hi))
            cb_ok = same(a.get("check_bounds"), Sf0.E("check_bounds")) or truth(a.get("check_bounds"), S.ev.facts) is True      # evaluated with check_bounds true
            if not ext:
                # the extremes of another column, or of no column of the table at all: wrong; of this column in an unread spelling: not decided
                mine, other = Sf0.E(f"rf[:, {col}]"), Sf0.E(f"rf[:, {1 - col}]")
                ex = [x for x in (a.get("mx"), a.get("mn")) if x is not None and not is_unknown(x) and not isinstance(x, tuple)]
                if len(ex) == 2 and all(any(same(y, mine) for y in walk(x)) and not any(same(y, other) for y in walk(x)) for x in ex) \
                        and not all(head(x) in ("call:np.max", "call:np.min") for x in ex):
                    unread = True
            if not ext or not same(a.get("right"), Sf0.E("right")) or not cb_ok:
                bad = f"getbins({which}): {dict((k, short(v, 80)) for k, v in a.items())}"
                break
            G[which] = call_value(c)
    if bad is None:
        a = placed(bn[0], pb)
        r = roles.get(True) or {"amp": pb[1], "mean": pb[2]}
        ens = a.get(pb[4])
        ok = same(a.get(pb[0]), Sf0.E("rf")) and same(a.get(r["amp"]), F.fn("idx", G["amp"], F.const(0))) and same(a.get(r["mean"]), F.fn("idx", G["mean"], F.const(0))) \
            and same(a.get(pb[3]), Sf0.E("right")) and ens is not None
        if ok:
            for oa in (True, False):
                for om in (True, False):
                    f = Facts(truths=[(F.fn("idx", G["amp"], F.const(1)), oa), (F.fn("idx", G["mean"], F.const(1)), om)])
                    t = truth(ens, f)
                    if t is None:
                        undecided = True
                    if t is not (oa or om):
                        ok = False
                        bad = {"guard argument": short(ens), "amplitude out": oa, "mean out": om, "guard": t}
        else:
            bad = {k: short(v, 100) for k, v in a.items()}
    if len(gb) != 2 or len(bn) != 1 or undecided or unread:
        ctx.error("binify: the index guard is switched on exactly when getbins reports a value out of bounds (amplitude or mean)", bf, bad)
    else:
        ctx.check(bad is None, "binify: the index guard is switched on exactly when getbins reports a value out of bounds (amplitude or mean)", bf, bad)
    S2, gb2, bn2 = res[False]
    # with check_bounds off nothing is promised about values outside the bins (documented: the caller's responsibility); keeping the index guard on
    # would be safe as well, so "the unguarded arm is used" is not a necessary condition - only that the flag handed over is a definite value
    ok = len(bn2) == 1 and len(gb2) == 2
    if ok:
        a = placed(bn2[0], pb)
        ok = pb[4] not in a or truth(a.get(pb[4]), None) is not None
    if ok:
        ctx.ok("binify: without check_bounds the index guard is a definite flag (off, or safely on)", bf, nontrivial=False)
    else:
        ctx.error("binify: without check_bounds the index guard is a definite flag (off, or safely on)", bf)
    dflt = dict(zip(pf[::-1], (bf.args.defaults or [])[::-1]))
    d = dflt.get("check_bounds")
    ctx.check(isinstance(d, ast.Constant) and d.value is True, "binify: bounds are checked by default", bf, ast.unparse(d) if d is not None else None)
    sc = ctx.src.func(CYC, "sigcount")
    Ss = XSem(ctx, sc, consts=consts, inline={k: v for k, v in table.items() if k not in ("sigcount", "binify", "rainflow", "findap", "getbins", "_binify")})
    cb = Ss.calls("binify")
    _bound(ctx, Ss, "sigcount", sc)
    ok = len(cb) == 1
    if not cb:
        ctx.error("sigcount never overrides check_bounds", sc, "no call of binify")
    unread = False
    if ok:
        a = placed(cb[0], pf)
        ok = all(same(a.get(n), Ss.E(n)) for n in ("ampbins", "meanbins", "right")) and ("check_bounds" not in a or truth(a["check_bounds"], None) is True)
        u = app(a.get("rf"), "call:rainflow")
        fed = u is not None and bool(call_args(u)[0]) and same(call_args(u)[0][0], Ss.E("sig[findap(sig)]"))
        if ok and not fed:
            # the cycle table is made in a way this rule does not read (it must come from the reversals of the signal): wrong only when it is plainly
            # counted on something else than the selected samples
            rfv = a.get("rf")
            unread = rfv is None or is_unknown(rfv) or isinstance(rfv, tuple) or (bool(apps(rfv, "call:findap")) and depends(rfv, "sig"))
        ok = ok and fed
    if cb and unread:
        ctx.error("sigcount never overrides check_bounds", sc, {k: short(v, 80) for k, v in placed(cb[0], pf).items()})
    elif cb:
        ctx.check(ok, "sigcount never overrides check_bounds", sc, None if ok else {k: short(v, 80) for k, v in placed(cb[0], pf).items()})
    # labels
    if bad is None:
        df = [c for c in S.calls("pd.DataFrame", "DataFrame", "pandas.DataFrame") if "index" in c[2] and "columns" in c[2]]
        ok = len(df) == 1
        det = None
        shape = ok
        if ok:
            for kw, which in (("index", "mean"), ("columns", "amp")):
                lab = df[0][2][kw]
                for _ in range(3):
                    # pd.Index(labels, name=...) / list(labels) / np.array(labels): the same labels (the axis name is not part of this obligation)
                    w = app(lab) if lab is not None and not is_unknown(lab) and not isinstance(lab, (tuple, str)) else None
                    if w is not None and w[0] in ("call:pd.Index", "call:Index", "call:pandas.Index", "call:np.array", "call:np.asarray"):
                        pos_, kw_ = call_args(w)
                        lab = pos_[0] if pos_ else kw_.get("data")
                        continue
                    break
                u = app(lab, "comp") if lab is not None and not is_unknown(lab) and not isinstance(lab, (tuple, str)) else None
                e = app(u[1][0], "call:.format") if u is not None else None
                edges = F.fn("idx", G[which], F.const(0))
                if e is None or len(e[1]) != 3:
                    shape = False
                if e is None or len(e[1]) != 3 or not same(e[1][1], S.ev.mk_idx(edges, F.sym("_i0"))) or not same(e[1][2], S.ev.mk_idx(edges, F.sym("_i0") + 1)) \
                        or not same(u[1][1], F.fn("len", edges) - 1):
                    ok = False
                    det = {kw: short(df[0][2][kw])}
                    # wrong only when the two label arguments are recognisably entries of a bin-edge array (this axis' at other positions, or the other
                    # axis'); anything else (pairwise iterators, formatted edges, ...) is a spelling this rule does not read
                    if e is not None and len(e[1]) == 3:
                        for x in e[1][1:3]:
                            b_, ix_ = peel(x)
                            if not (len(ix_) == 2 and const_of(ix_[0]) == 0 and any(same(b_, G[w]) for w in ("amp", "mean"))):
                                shape = False
                    break
                for rt, (first, last) in ((True, "(]"), (False, "[)")):
                    ff = Facts(truths=[(Sf0.E("right"), rt)])
                    fv = _under(e[1][0], ff)
                    sp = str_parts(fv)
                    for _ in range(4):
                        # parts that are themselves strings chosen by `right` (the bracket characters picked by a conditional expression)
                        if sp is None or not any(not isinstance(x, str) and app(x, "ite") is not None for x in sp):
                            break
                        flat = []
                        for x in sp:
                            xs = str_parts(_under(x, ff)) if not isinstance(x, str) and app(x, "ite") is not None else [x]
                            flat += xs if xs is not None else [x]
                        merged = []
                        for x in flat:
                            if isinstance(x, str) and merged and isinstance(merged[-1], str):
                                merged[-1] += x
                            else:
                                merged.append(x)
                        if len(merged) == len(sp) and all(a_ is b_ for a_, b_ in zip(merged, sp)):
                            break
                        sp = merged
                    if sp is None or not isinstance(sp[0], str) or not isinstance(sp[-1], str) or not sp[0] or not sp[-1]:
                        shape = False          # the format's first / last character is not a literal this rule can read
                        det = {"label form (not read)": short(fv), "right": rt}
                    elif sp[0][:1] != first or sp[-1][-1:] != last:
                        ok = False
                        det = {"label form": short(fv), "right": rt}
        if not shape:
            ctx.error("binify: row labels come from the mean bins, column labels from the amplitude bins, with the bracket style of `right`", bf,
                      det or "labels are not [form.format(lo, hi) for each bin] handed to one pd.DataFrame(..., index=, columns=)")
        else:
            ctx.check(ok, "binify: row labels come from the mean bins, column labels from the amplitude bins, with the bracket style of `right`", bf, det)


# ======================================================================================================================= R6
def _tol_cmps(values, tolname):
    """distinct comparison atoms with the tolerance (a value that depends on `tol`) on one side: [(cmp value, other side, tolerance side)]"""
    out = []
    for v in values:
        for nm, a, x in apps(v, "cmp:"):
            if nm[4:] not in ("Gt", "GtE", "Lt", "LtE") or len(a) != 2 or any(isinstance(k, str) for k in a):
                continue
            ta, tb = depends(a[0], tolname), depends(a[1], tolname)
            if ta == tb:
                continue
            d, t = (a[1], a[0]) if ta else (a[0], a[1])
            if apps(t, "cmp:"):
                continue        # a quantity derived from the de-duplicated samples (their number, ...), not the tolerance
            if not any(same(x, o[0]) for o in out):
                out.append((x, d, t))
    return out


def _strict(cmpv, d, t):
    """(separates, equality groups with 'below', truth above): the comparison as a predicate of d relative to t"""
    res = {}
    for k, x in (("below", Fraction(1, 2)), ("on", 1), ("above", 2)):
        f = Facts()
        try:
            if single_atom(t) is not None:
                f.num_set(t, 1)
                tv = Fraction(1)
            else:
                # abs(tol) * largest difference, ...: every factor 1
                for a_ in sorted(need(t).n.atoms() | need(t).d.atoms()):
                    f.nums[a_] = Fraction(1)
                tv = f.num(t)
                if tv is None or tv <= 0:
                    return None
            f.num_set(d, x * tv)
        except Unsupported:
            return None
        res[k] = truth(cmpv, f)
    if any(v is None for v in res.values()):
        return None
    return res


def _tolerance_kind(t, tol, D):
    """the scaled tolerance as a function of the parameter `tol` and the vector of differences D:
    'ok'    |tol| * max|D|   (abs(tol * P), abs(tol) * P, abs(tol) * abs(P) with P the largest absolute difference in any spelling),
    'other' recognisably something else (another statistic of D, or the sign of tol kept), None not recognised"""
    if t is None or is_unknown(t) or isinstance(t, (tuple, str)):
        return None
    T = F.sym(tol)
    cands = []
    for x in walk(t):
        u = app(x)
        if u is not None and (u[0] in REDUCERS or u[0] in ("call:max", "call:np.maximum", "call:np.fmax", "call:np.linalg.norm", "call:linalg.norm", "call:norm")) \
                and any(same(y, D) for y in walk(x)):
            cands.append(x)
    # the outermost statistic of D that t is built from
    tops = [x for x in cands if not any(x is not y and any(same(x, z) for z in walk(y) if z is not y) for y in cands)]
    if len(tops) != 1:
        return None
    P = tops[0]
    kind = _extreme_kind(P, D)
    if kind is None:
        return None
    try:
        forms = [F.fn("abs", T * P), F.fn("abs", T) * P, F.fn("abs", T) * F.fn("abs", P)]
        signed = [T * P, T * F.fn("abs", P)]
    except Unsupported:
        return None
    if any(same(t, w) for w in forms):
        return "ok" if kind == "maxabs" else "other"
    if any(same(t, w) for w in signed):
        return "other"
    # some other function of the tolerance and that statistic alone (tol / P, tol + P, ...): recognisably not |tol| * max|D|
    try:
        mp = {single_atom(P): F.sym("<P>")}
        rest = (F._subs_poly(t.n, mp) / F._subs_poly(t.d, mp)) if single_atom(P) is not None else None
    except Exception:  # noqa
        rest = None
    if rest is not None and not any(same(y, D) for y in walk(rest)) and all(sym_of(x) in (tol, "<P>") for x in walk(rest) if sym_of(x) is not None) \
            and all(nm == "abs" for nm, _, _ in apps(rest, "")) and depends(rest, tol) and depends(rest, "<P>"):
        return "other"
    return None


def _all_values(S):
    vals = [t[0] for t in S.tr.tests]
    vals += [c[2] for c in S.tr.cells] + [c[1] for c in S.tr.cells]
    vals += [r[0] for r in S.returns()]
    for c in S.tr.calls:
        vals += list(c[1]) + list(c[2].values())
    return [v for v in vals if v is not None and not is_unknown(v)]


def _diff(S, v):
    return S.E("V[1:] - V[:-1]", V=v)


def r6_tolerance_strictness(ctx):
    """a sample is a new value only if it differs by MORE than the scaled tolerance; with tol = 0 exact repeats must not count"""
    consts = module_consts(ctx, CYC)
    table = module_funcs(ctx, CYC)
    lf = ctx.src.func(LOC, "find_unique")
    pl = params(lf)
    Sfu = XSem(ctx, lf, consts=module_consts(ctx, LOC), inline={k: v for k, v in module_funcs(ctx, LOC).items() if k != "find_unique"})
    fu = _masks(Sfu, Sfu.ret())
    sites = [("find_unique", lf, Sfu, pl)]
    variants = []
    for q in ("findap", "findap#2"):
        if ctx.src.has_func(CYC, q):
            fn = ctx.src.func(CYC, q)
            inl = {k: v for k, v in table.items() if k != "findap"}
            inl["locate.find_unique"] = lf
            S0 = XSem(ctx, fn, run=False, consts=consts)
            pq = params(fn)
            f = Facts(preds=[lambda v: (False if head(v) == "call:np.all" else None)])
            for text in (f"{pq[0]}.size", f"len({pq[0]})"):
                f.num_set(S0.E(text), 1000)
            S = XSem(ctx, fn, facts=f, consts=consts, inline=inl)
            inside = {id(n) for n in ast.walk(lf)}              # a find_unique written with a loop does not make the caller the loop variant
            loops = any(id(l[3]) not in inside for l in S.tr.loops) or any(t[3] == "while" and id(t[1]) not in inside for t in S.tr.tests) \
                or any(isinstance(n, (ast.For, ast.While)) for n in ast.walk(fn))
            variants.append((q, fn, S, pq, loops, S0))
            sites.append(("findap", fn, S, pq))
    n = 0
    site_ok = {}
    for name, fn, S, pp in sites:
        if len(pp) < 2:
            raise AnchorError(f"{name}(y, tol)")
        _bound(ctx, S, name, fn)
        cm = _tol_cmps(_all_values(S), pp[1])
        D = S.E(f"np.diff({pp[0]})")
        tol_ok = []
        site_ok[name] = False
        for cmpv, d, t in cm:
            n += 1
            r = _strict(cmpv, d, t)
            if r is None:
                ctx.error(f"{name}: tolerance comparison `{short(cmpv, 120)}`", fn)
                continue
            ok = r["on"] == r["below"] and r["above"] != r["below"]
            ctx.check(ok, f"{name}: `{short(S.E('D > T', D=F.sym('|difference|'), T=F.sym('tolerance')) if ok else cmpv, 120)}` - a difference counts only when strictly greater than the tolerance "
                          "(all peak-picking variants must agree; `>=` would keep exact repeats when tol = 0 and plateaus would then hide reversals)", fn,
                      None if ok else {"comparison": short(cmpv), "truth for |difference| below / on / above the tolerance": r}, key=None)
            tol_ok.append(_tolerance_kind(t, pp[1], D))
        if cm and "other" not in tol_ok and None in tol_ok:
            ctx.error(f"{name}: the tolerance is relative to the largest sample-to-sample difference", fn,
                      {"not recognised as |tol| * max|diff(y)| nor as something else": [short(t) for (_, _, t), k in zip(cm, tol_ok) if k is None]})
        elif cm:
            ok = all(k == "ok" for k in tol_ok)
            site_ok[name] = ok
            ctx.check(ok, f"{name}: the tolerance is relative to the largest sample-to-sample difference", fn, None if ok else [short(t) for _, _, t in cm])
    if n >= 4:
        ctx.ok(f"tolerance rule bound to {n} comparisons in find_unique and findap", LOC + ":1", nontrivial=False)
    else:
        ctx.error(f"tolerance rule bound to {n} comparisons in find_unique and findap (4 expected: the rule does not see the comparisons it is about)", LOC + ":1")
    # find_unique itself: the mask is (True, |diff| > tolerance)
    u = app(fu, "hcat") if fu is not None and not is_unknown(fu) and not isinstance(fu, tuple) else None
    und = False
    fu_model = False         # (pass 6) find_unique established as (True, |diff| > |tol| * max|diff|): the drift world may be de-duplicated with it
    ok = u is not None and len(u[1]) == 2 and truth(u[1][0], None) is True
    if u is None or len(u[1]) != 2:
        ctx.error("find_unique: the first sample is unique; a later sample is unique exactly when it differs from its predecessor by more than the tolerance", lf,
                  "the mask is not a concatenation (True, <comparison>): " + short(fu))
    elif ok:
        mask = devectorise(u[1][1])          # [d > t for d in diffs] is diffs > t
        cm = _tol_cmps([mask], pl[1])
        ok = len(cm) == 1 and same(cm[0][1], Sfu.E(f"abs(np.diff({pl[0]}))"))
        r = _strict(mask, cm[0][1], cm[0][2]) if ok else None
        if ok and r is None:
            und = True
        ok = ok and r is not None and r["above"] is True and r["on"] is False and r["below"] is False
    if u is not None and len(u[1]) == 2 and und:
        ctx.error("find_unique: the first sample is unique; a later sample is unique exactly when it differs from its predecessor by more than the tolerance", lf,
                  "the comparison with the tolerance could not be evaluated: " + short(fu))
    elif u is not None and len(u[1]) == 2:
        ctx.check(ok, "find_unique: the first sample is unique; a later sample is unique exactly when it differs from its predecessor by more than the tolerance", lf,
                  None if ok else short(fu))
        fu_model = bool(ok) and site_ok.get("find_unique") is True
    # ---- the vectorised (numpy) variant of findap
    vec = [v for v in variants if not v[4]]
    if len(vec) != 1:
        ctx.error("findap: the vectorised variant (no loops; de-duplicates through locate.find_unique) was not found", CYC + ":1", [v[0] for v in vec])
    else:
        _findap_numpy(ctx, vec[0], fu, pl, consts, table, lf, fu_model)
    for q, fn, S, pq, loops, S0 in variants:
        # length 1 (named in the property's quantifier): the only sample is the first sample and is selected
        f1 = Facts()
        for text in (f"{pq[0]}.size", f"len({pq[0]})"):
            f1.num_set(S0.E(text), 1)
        inl = {k: v for k, v in table.items() if k != "findap"}
        inl["locate.find_unique"] = lf
        S1 = XSem(ctx, fn, facts=f1, consts=consts, inline=inl)
        r1 = S1.returns()
        v1 = r1[0][0] if len(r1) == 1 and not r1[0][2] else None
        if isinstance(v1, tuple) and len(v1) == 1:
            v1 = v1[0]
        t1 = truth(v1, None) if v1 is not None and not isinstance(v1, tuple) else None
        what = f"findap ({'loop' if loops else 'numpy'} variant): a one-sample signal returns its only sample selected"
        if t1 is None:
            ctx.error(what, fn, [short(r[0], 120) for r in r1])
        else:
            ctx.check(t1, what, r1[0][1], None if t1 else short(r1[0][0]))
        if loops:
            arr = None
            for rv, _, g in S.returns():
                if sym_of(rv) is not None and sym_of(rv) in {c[0] for c in S.tr.cells}:
                    arr = sym_of(rv)
            def covers0(ix):
                """the store index reaches entry 0: 0 itself, [:k] / [0:k] with k >= 1, or every entry"""
                if const_of(ix) == 0 or _is_full(ix):
                    return True
                sl = app(ix, "slice") if not isinstance(ix, (tuple, str)) and not is_unknown(ix) else None
                return sl is not None and (sym_of(sl[1][0]) == "None" or const_of(sl[1][0]) == 0) and const_of(sl[1][1]) is not None and const_of(sl[1][1]) >= 1 \
                    and sym_of(sl[1][2]) == "None"
            cs = S.cells(arr) if arr else []
            plain = [c for c in cs if not c[4]["guard"] and not c[4]["loops"]]
            first = [c for c in plain if not is_unknown(c[1]) and covers0(c[1]) and truth(c[2], None) is True]
            created_true = arr is not None and S.init(arr) is not None and not isinstance(S.init(arr), tuple) and truth(S.init(arr), None) is True
            msg = "findap (loop variant): the first sample is always selected"
            if first or created_true:
                ctx.ok(msg, fn, nontrivial=False)
            elif arr is None or any(is_unknown(c[1]) or (const_of(c[1]) is None and app(c[1], "slice") is None) for c in plain):
                ctx.error(msg, fn, "the returned mask is not an array whose unconditional stores have readable positions")       # a store this rule cannot place
            else:
                ctx.fail(msg, fn, {"unconditional stores": [(short(c[1], 40), short(c[2], 40)) for c in plain][:4]})


def _masks(S, v, depth=3):
    """a mask built by allocation and one block store  (pv = np.ones(n, bool); pv[1:] = X)  written as the concatenation  hcat(True, X)  it is;
    other values unchanged"""
    if v is None or is_unknown(v) or isinstance(v, (tuple, str)) or depth <= 0:
        return v
    mp = {}
    for x in walk(v):
        s = sym_of(x)
        if s is None or s not in S.tr.inits or s in mp:
            continue
        ini = S.tr.inits[s]
        fl = app(ini, "call:np.full") if ini is not None and not is_unknown(ini) and not isinstance(ini, tuple) else None
        if fl is not None and len(fl[1]) == 2:
            ini = fl[1][1]
        t0 = truth(ini, None) if ini is not None and not isinstance(ini, tuple) else None
        cs = S.cells(s)
        if len(cs) == 2 and not any(c[4]["guard"] or c[4].get("aug") or c[4]["loops"] or is_unknown(c[1]) or is_unknown(c[2]) or isinstance(c[2], tuple) for c in cs):
            # (pass 5) pv = np.empty(n, bool); pv[0] = True; pv[1:] = X  (in either order; whatever the array was created with is overwritten)
            first = [c for c in cs if const_of(c[1]) == 0 and truth(c[2], None) is not None and (const_of(c[2]) is not None or sym_of(c[2]) in ("True", "False"))]
            rest = [c for c in cs if same(c[1], F.fn("slice", F.const(1), NONE, NONE))]
            if len(first) == 1 and len(rest) == 1:
                mp[s] = F.fn("hcat", F.const(1 if truth(first[0][2], None) else 0), need(_masks(S, rest[0][2], depth - 1)))
                continue
        if t0 is None or len(cs) != 1 or cs[0][4]["guard"] or cs[0][4].get("aug") or is_unknown(cs[0][1]) or is_unknown(cs[0][2]) or isinstance(cs[0][2], tuple):
            continue
        if len(cs[0][4]["loops"]) == 1:
            # pv = np.ones(n, bool); for k in range(1, n): pv[k] = f(y[k], y[k - 1])   is   pv[1:] = f(y[1:], y[:-1])
            vec = _loop_vector(S, s, cs[0])
            if vec is not None:
                mp[s] = F.fn("hcat", F.const(1 if t0 else 0), need(_masks(S, vec, depth - 1)))
            continue
        if cs[0][4]["loops"]:
            continue
        if same(cs[0][1], F.fn("slice", F.const(1), NONE, NONE)):
            mp[s] = F.fn("hcat", F.const(1 if t0 else 0), need(_masks(S, cs[0][2], depth - 1)))
    if not mp:
        return v
    try:
        return v.subs(mp)
    except Unsupported:
        return v


def mk_not_(v):
    from .c10_sem import mk_not
    try:
        u = app(v, "invert")
        if u is not None and not isinstance(u[1][0], str):
            return u[1][0]              # ~~m is m
        return mk_not(v)
    except Unsupported:
        return None


def _positions(S, ix, arr):
    """the boolean mask a store index selects with: the mask itself, np.nonzero(mask)[0] / np.flatnonzero(mask) / np.where(mask)[0], or the array
    being stored into when it was created as a copy of a mask (`PV = u.copy(); PV[PV] = pv`)"""
    if ix is None or is_unknown(ix) or isinstance(ix, (tuple, str)):
        return None
    if arr is not None and sym_of(ix) == arr:
        ix = S.init(arr)
        if ix is None or is_unknown(ix) or isinstance(ix, tuple):
            return None
    u = app(ix, "idx")
    if u is not None and len(u[1]) == 2 and not isinstance(u[1][0], str) and const_of(u[1][1]) == 0:
        w = app(u[1][0])
        if w is not None and w[0] in ("call:np.nonzero", "call:np.where") and len(w[1]) == 1 and not isinstance(w[1][0], str):
            ix = w[1][0]
    w = app(ix, "call:np.flatnonzero")
    if w is not None and len(w[1]) == 1 and not isinstance(w[1][0], str):
        ix = w[1][0]
    return _masks(S, ix)


def _loop_vector(S, arr, cell):
    """the store  arr[k] = f(X[k + c], ...)  inside  for k in range(1, len(arr))  as the vector stored into arr[1:]: every X[k + c] becomes the
    slice X[1 + c : len(X) + c] (X as long as arr); None when the store is not of that form"""
    var, dom = cell[4]["loops"][0]
    r = app(dom, "range") if not is_unknown(dom) else None
    if r is None or len(r[1]) != 2 or const_of(r[1][0]) != 1 or sym_of(cell[1]) != var:
        return None
    hi = r[1][1]
    if not any(same(hi, ln) for ln in S.ev._lengths(F.sym(arr))):
        return None
    elt = cell[2]
    mp = {}
    for _, a, x in apps(elt, "idx"):
        if len(a) != 2 or isinstance(a[0], str) or isinstance(a[1], str) or not depends(a[1], var):
            continue
        if depends(a[0], var):
            return None
        try:
            c = const_of(a[1] - F.sym(var))
        except Unsupported:
            c = None
        if c is None or c.denominator != 1 or not (-1 <= c <= 0) or not any(same(hi, ln) for ln in S.ev._lengths(a[0])):
            return None
        mp[single_atom(x)] = S.ev.mk_idx(a[0], F.fn("slice", F.const(1 + c) if 1 + c else NONE, F.const(c) if c else NONE, NONE))
    if not mp:
        return None
    try:
        out = F._subs_poly(elt.n, mp) / F._subs_poly(elt.d, mp)
    except Unsupported:
        return None
    return None if depends(out, var) else out


def _retained_mask(S, allu, U, strict=True):
    """the mask findap builds over the retained samples: dict(mask, cells, ini, ini_t, inner, last, YU) - `inner` the store into [1:-1], `last` the
    end-point store, YU the array the end-point test indexes; or a text saying which part is missing ('scatter: ...' for the expansion)"""
    rv = S.ret()
    arr = sym_of(rv)
    if arr is None or S.tr.raises:
        return f"returned value {short(rv)}"
    mask = arr
    # the stores into the returned array itself (XSem.cells also lists what a stored row was filled with: not wanted for a masked store)
    cells = [(c[0], c[1], c[2], c[3], x) for c, x in zip(S.tr.cells, S.tr.cellx) if c[0] == arr]
    src = None
    if len(cells) == 1 and not is_unknown(cells[0][2]) and not isinstance(cells[0][2], tuple):
        b_, ix_ = peel(cells[0][2])
        if sym_of(b_) is not None and all(app(i_, "slice") is not None for i_ in ix_):
            src = sym_of(b_)              # the retained-samples mask, or a leading / trailing part of it
    scattered = src is not None and bool(S.cells(src))
    if scattered or not allu:
        # the mask of the retained samples is expanded to full size: zeros, then the mask stored at the retained positions
        # created all False, or as a copy of the retained-samples mask itself (False exactly where nothing is stored)
        ini0 = S.init(arr)
        text = f"expansion to full size: {[(short(c[1], 80), short(c[2], 80)) for c in cells]} into an array created as {short(ini0, 80)}"
        if not strict:
            # the twin evaluation (conversions visible): what is scattered where was checked on the plain one
            if not scattered:
                return "scatter? " + text
        elif not scattered:
            # nothing is stored into the returned array and it is a constant: definitely not the retained samples' mask; anything else: not read
            return ("scatter: " if not cells and const_of(ini0) is not None else "scatter? ") + text
        else:
            ini_m = _masks(S, ini0) if ini0 is not None and not isinstance(ini0, tuple) and not is_unknown(ini0) else None
            blank = True if const_of(ini0) == 0 or (U is not None and same(ini_m, U)) else (False if const_of(ini0) is not None else None)
            where = _positions(S, cells[0][1], arr)
            at = True if U is not None and same(where, U) else (False if U is not None and where is not None and same(mk_not_(where), U) else None)
            if blank is False or at is False:
                return "scatter: " + text            # created all True, or stored at the removed positions
            if blank is None or at is None or cells[0][4]["guard"] or U is None:
                return "scatter? " + text
        mask = src
    cells = S.cells(mask)
    ini = S.init(mask)
    inner = [c for c in cells if same(c[1], F.fn("slice", F.const(1), F.const(-1), NONE))]
    fl = app(ini, "call:np.full") if ini is not None and not is_unknown(ini) else None
    if fl is not None and len(fl[1]) == 2:
        ini = fl[1][1]
    last = [c for c in cells if const_of(c[1]) == -1]
    ini_t = truth(ini, None) if ini is not None else None
    text = f"mask stores {[(short(c[1], 60), short(c[2], 160)) for c in cells]} init {short(ini)}"
    if not (ini_t is not None and len(cells) == len(inner) + len(last) and len(inner) == 1 and len(last) == 1):
        return text
    YU = ends = None
    # the end-point test compares the last two entries of some array: that array is the sequence of retained samples the mask belongs to
    for nm, a_, _ in apps(last[0][2], "cmp:NotEq") + apps(last[0][2], "cmp:Eq"):
        if len(a_) != 2 or any(isinstance(k, str) for k in a_):
            continue
        x1, x2 = app(a_[0], "idx"), app(a_[1], "idx")
        if x1 is not None and x2 is not None and same(x1[1][0], x2[1][0]) and {const_of(x1[1][1]), const_of(x2[1][1])} == {-1, -2}:
            if YU is not None and not same(YU, x1[1][0]):
                return text
            YU, ends = x1[1][0], (a_[0], a_[1])
    if YU is None:
        return text
    if inner[0][4]["guard"]:
        # (pass 5) the interior store under a test: immaterial exactly when the test holds whenever there is an interior (three or more retained
        # samples; with fewer the slice [1:-1] is empty).  Decided on the sizes 3, 4, 7; a test that is not a size test is not read
        for nn in (3, 4, 7):
            f = Facts()
            for v in (S.E("V.size", V=YU), S.E("len(V)", V=YU), S.E("V.shape[0]", V=YU)):
                f.num_set(v, nn)
            tg_ = truth(conj(list(inner[0][4]["guard"])), f)
            if tg_ is False:
                # with nn retained samples the interior entries are never tested: they keep the value the mask was created with (all marked, or all
                # dropped - wrong for the monotone resp. the zig-zag signal of that length)
                return f"interior: with {nn} retained samples the interior store is skipped (guard {short(conj(list(inner[0][4]['guard'])), 100)}), its entries keep the initial value"
            if tg_ is not True:
                return text + f" [interior store under {short(conj(list(inner[0][4]['guard'])), 100)}]"
    return dict(ends=ends, mask=mask, cells=cells, ini=ini, ini_t=ini_t, inner=inner[0], last=last[0], YU=YU, YUr=_masks(S, YU), text=text)


def _drift_world():
    """(pass 6) signals in which a plateau creeps by sub-tolerance steps and then returns to its first value by more than the tolerance, so that
    two NEIGHBOURING retained samples are exactly equal (the property quantifies over sub-tolerance drifts): every sequence of 3 or 4 levels from
    {0, 16, 32}, a repeated level reached through the creep +-2, +-4, +-6 and back; tol = 1/8 (exact in binary).
    [(y, tol, u, yu, positions of the retained samples)] under  u = (True, |diff| > |tol| * max|diff|)  - the semantics of find_unique this rule
    establishes separately - computed in exact rational arithmetic; only signals whose retained samples contain an equal neighbouring pair"""
    from itertools import product
    out, seen = [], set()
    tol = Fraction(1, 8)
    for n in (3, 4):
        for r in product((0, 16, 32), repeat=n):
            for sgn in (1, -1):
                y = [r[0]]
                for v in r[1:]:
                    if v == y[-1]:
                        y += [v + sgn * 2, v + sgn * 4, v + sgn * 6]
                    y.append(v)
                if tuple(y) in seen:
                    continue
                seen.add(tuple(y))
                d = [abs(b - a) for a, b in zip(y, y[1:])]
                stol = abs(tol * max(d))
                u = [True] + [x > stol for x in d]
                pos = [i for i, k in enumerate(u) if k]
                yu = [y[i] for i in pos]
                if len(yu) >= 3 and not all(u) and any(a == b for a, b in zip(yu, yu[1:])):
                    out.append((y, tol, u, yu, pos))
    return out


def _drift_check(S, st, m):
    """the vectorised findap on the drift world: first entry as created, interior entries by the compiled window test, last entry by its store.
    Two neighbouring retained samples of exactly equal value that are both selected are consecutive reversal points (removed samples are never
    selected) that are not a maximum followed by a minimum: witnesses [dict]"""
    bad = []
    a_, b_ = m["ends"]
    YU, last = m["YU"], m["last"]
    for y, tol, u, yu, pos in _drift_world():
        marks = [m["ini_t"]] + [bool(st(yu[k - 1:k + 2], None)) for k in range(1, len(yu) - 1)]
        ne = yu[-1] != yu[-2]
        f = Facts(truths=[(F.fn("cmp:NotEq", a_, b_), ne), (F.fn("cmp:NotEq", b_, a_), ne), (F.fn("cmp:Eq", a_, b_), not ne), (F.fn("cmp:Eq", b_, a_), not ne)])
        for v in (S.E("V.size", V=YU), S.E("len(V)", V=YU)):
            f.num_set(v, len(yu))
        tg = truth(conj(list(last[4]["guard"])), f)
        marks.append(None if tg is None else (truth(last[2], f) if tg else m["ini_t"]))
        for k in range(len(yu) - 1):
            if yu[k] == yu[k + 1] and marks[k] is True and marks[k + 1] is True:
                sel = [pos[j] for j, t in enumerate(marks) if t]
                bad.append({"signal": y, "tol": float(tol), "retained samples (find_unique)": yu, "at": pos, "selected": sel, "selected values": [y[i] for i in sel],
                            "equal neighbouring reversal points": [pos[k], pos[k + 1]]})
                break
    return bad


_EXACT_VALUES = (-50, -1, 0, 1, 70)
_TABLES = {}


def _reversal_tables(st):
    """the interior test of the vectorised findap on 3-sample signals (first, middle, last all different from their neighbours):
    (disagreements with 'the middle sample is a strict local extreme' in exact arithmetic, disagreements in int8 arithmetic)"""
    if st.sig in _TABLES:
        return _TABLES[st.sig]
    exact, narrow = [], []
    for a in _EXACT_VALUES:
        for b in _EXACT_VALUES:
            for c in _EXACT_VALUES:
                if a != b and b != c:
                    got, want = bool(st([a, b, c], None)), (b - a) * (c - b) < 0
                    if got != want and len(exact) < 4:
                        exact.append({"signal": [a, b, c], "middle sample marked": got, "middle sample is a local extreme": want})
    if not exact:
        # every int8 signal [0, d0, d0 + d1] whose samples and slopes fit the dtype with room to spare (|.| <= 127; so np.diff and abs
        # in find_unique are exact and the only thing examined is the reversal test itself)
        n = 0
        for d0 in range(-127, 128):
            for d1 in range(-127, 128):
                if d0 and d1 and -127 <= d0 + d1 <= 127:
                    got, want = bool(st([0, d0, d0 + d1], 8)), (d0 < 0) != (d1 < 0)
                    if got != want:
                        n += 1
                        if len(narrow) < 4:
                            narrow.append({"signal (dtype int8)": [0, d0, d0 + d1], "slopes": [d0, d1], "middle sample marked": got, "middle sample is a local extreme": want})
        if narrow:
            narrow.append(f"{n} of the int8 slope pairs disagree")
    _TABLES[st.sig] = (exact, narrow)
    return exact, narrow


def _findap_numpy(ctx, variant, fu, pl, consts, table, lf, fu_model=False):
    q, fn, _, pq, _, S0 = variant
    y = S0.E(pq[0])
    inl = {k: v for k, v in table.items() if k != "findap"}
    inl["locate.find_unique"] = lf
    U = fu.subs({pl[0]: y, pl[1]: S0.E(pq[1])}) if fu is not None and not is_unknown(fu) and not isinstance(fu, tuple) else None
    res, twin = {}, {}
    sizes = [S0.E(f"{pq[0]}.size"), S0.E(f"len({pq[0]})")]
    yf = F.fn("asfloat", y)          # the signal converted to float on entry (visible in the twin evaluation only) has as many samples
    sizes += [S0.E("V.size", V=yf), S0.E("len(V)", V=yf)]

    def several(v):
        """a test on the number of samples that comes out the same for every signal of two or more samples (`y.size == 1`, `len(y) < 2`, ...)"""
        if not any(same(x, s) for x in walk(v) for s in sizes):
            return None
        rs = set()
        for n_ in (2, 3, 4, 1000):
            fx = Facts()
            for s in sizes:
                fx.num_set(s, n_)
            rs.add(truth(v, fx))
        return rs.pop() if len(rs) == 1 else None

    for allu in (True, False):
        f = Facts(preds=[lambda v, allu=allu: (allu if head(v) == "call:np.all" else None), several])
        res[allu] = XSem(ctx, fn, facts=f, consts=consts, inline=inl)
        # the same evaluation with conversions to float left visible in the values (they are the identity everywhere else)
        twin[allu] = XSem(ctx, fn, facts=f, consts=consts, inline=inl, dtypes=True)
    probs = []
    shape_ok, slope_ok, ret_ok, scatter_ok, end_ok = True, True, True, True, True
    stencils = []
    for allu, S in res.items():
        m = _retained_mask(S, allu, U)
        if isinstance(m, str) and m.startswith("scatter: "):
            scatter_ok = False
            probs.append(m[9:])
            continue
        if isinstance(m, str) and m.startswith("interior: "):
            ret_ok = False
            probs.append(f"all-unique={allu}: " + m[10:])
            continue
        if isinstance(m, str) and m.startswith("scatter? "):
            shape_ok = False
            probs.append(f"all-unique={allu}: " + m[9:])
            continue
        if isinstance(m, str):
            shape_ok = False
            probs.append(f"all-unique={allu}: {m}")
            continue
        YU, inner, last, ini_t = m["YU"], m["inner"], m["last"], m["ini_t"]
        # the interior test as a function of the window (k-1, k, k+1) of the retained samples, whatever it is written with
        st = why = None
        mt = _retained_mask(twin[allu], allu, None, strict=False)
        if isinstance(mt, dict):
            try:
                st = Stencil(mt["inner"][2], mt["YU"])
                if not st.offsets <= {0, 1, 2}:
                    raise Unsupported(f"the test for sample k reads the retained samples at offsets {sorted(o - 1 for o in st.offsets)} from k")
            except Unsupported as e:
                st, why = None, str(e)
        Sg = None
        if st is None:
            # the documented spelling, read as a pattern:  abs(diff(SIGNS)) == 2
            e = app(inner[2], "cmp:Eq")
            if e is not None:
                a, b = e[1]
                if const_of(a) == 2:
                    a, b = b, a
                ab = app(a, "abs")
                if const_of(b) == 2 and ab is not None:
                    for _, aa, _ in apps(ab[1][0], "idx"):
                        if not isinstance(aa[0], str) and same(ab[1][0], _diff(S, aa[0])):
                            Sg = aa[0]
        ok = st is not None or Sg is not None
        if ok:
            # the last retained sample always differs from its predecessor (that is what retained means) and ends the signal: whatever the
            # end-point store and its guard look like, the entry must come out True - with two retained samples (nothing between them) and with more
            a_, b_ = m["ends"]
            tt = []
            for nn in (2, 3):
                f = Facts(truths=[(F.fn("cmp:NotEq", a_, b_), True), (F.fn("cmp:NotEq", b_, a_), True), (F.fn("cmp:Eq", a_, b_), False), (F.fn("cmp:Eq", b_, a_), False)])
                for v in (S.E("V.size", V=YU), S.E("len(V)", V=YU)):
                    f.num_set(v, nn)
                tg = truth(conj(list(last[4]["guard"])), f)
                tt.append(None if tg is None else (truth(last[2], f) if tg else ini_t))
            ok = None not in tt
            if ok and tt != [True, True]:
                end_ok = False
                probs.append({"all-unique": allu, "end-point store": short(last[2], 160), "under": short(conj(list(last[4]["guard"])), 120),
                              "last entry with 2 / 3 retained samples": tt})
        if not ok:
            shape_ok = False
            probs.append(f"all-unique={allu}: {m['text']}" + (f" [interior test not evaluated element by element: {why}]" if why else ""))
            continue
        if ini_t is False:
            ret_ok = False          # the mask starts all False and nothing stores its first entry: the first sample is dropped
            probs.append(f"all-unique={allu}: the mask of the retained samples is created all False, so its first entry (never stored) drops the first sample")
        want_yu = [S.E("Y[U]", Y=y, U=U)] if U is not None else []
        if allu:
            want_yu.append(y)           # nothing was removed: y[U] is y
        if not any(same(m["YUr"], w) for w in want_yu):
            # the same samples selected in another spelling: y[np.nonzero(u)[0]], np.compress(u, y), np.extract(u, y)
            sel = None
            yx = app(m["YUr"])
            if yx is not None and yx[0] == "idx" and len(yx[1]) == 2 and not isinstance(yx[1][0], str) and same(yx[1][0], y):
                sel = _positions(S, yx[1][1], None)
            elif yx is not None and yx[0] == "call:np.take" and len(yx[1]) == 2 and not any(isinstance(a, str) for a in yx[1]) and same(yx[1][0], y):
                sel = _positions(S, yx[1][1], None)
            elif yx is not None and yx[0] in ("call:np.compress", "call:np.extract") and len(yx[1]) == 2 and not any(isinstance(a, str) for a in yx[1]) and same(yx[1][1], y):
                sel = _positions(S, yx[1][0], None)
            if sel is not None and U is not None and same(sel, U):
                pass
            elif sel is None and not same(m["YUr"], y) and not is_unknown(m["YUr"]) and depends(m["YUr"], pq[0]):
                shape_ok = False            # derived from the signal in a way this rule does not read
                probs.append(f"all-unique={allu}: samples worked on (not read): {short(YU)}")
                continue
            else:
                ret_ok = False
                probs.append(f"all-unique={allu}: samples worked on: {short(YU)}")
        if st is not None:
            stencils.append((allu, st, twin[allu], mt["inner"], S, m))
        elif not same(Sg, S.E("np.sign(V[1:] - V[:-1])", V=YU)):
            slope_ok = False
            probs.append({"all-unique": allu, "slope signs": short(Sg), "expected": "sign(diff(retained samples))", "retained samples": short(YU)})
    if not shape_ok:
        ctx.error("findap (numpy variant): mask of the retained samples (all True, interior = slope-sign changes, end point = differs from its predecessor)", fn, probs)
        return
    ctx.check(ret_ok and scatter_ok, "findap (numpy variant): works on de-duplicated samples; interior reversals are slope-sign changes; the first sample is always kept", fn,
              None if ret_ok and scatter_ok else probs)
    ctx.check(slope_ok, "findap (numpy variant): the slope signs whose changes mark the reversals are the signs of the differences between consecutive RETAINED samples - "
                        "the same sequence the mask and the end-point test index (a slope taken against a dropped sample loses the true turning point)", fn,
              None if slope_ok else probs)
    ctx.check(scatter_ok, "findap (numpy variant): removed repeats are never peaks", fn, None if scatter_ok else probs)
    ctx.check(end_ok, "findap (numpy variant): the last retained sample stays marked (it differs from its predecessor by construction and ends the signal, so it is a reversal "
                      "- the only sample that reaches the extreme of a signal ending on a monotone stretch)", fn, None if end_ok else probs)
    if not stencils:
        return
    bad_exact, bad_narrow, hidden, node = [], [], [], fn
    for allu, st, St, cell, _, _ in stencils:
        exact, narrow = _reversal_tables(st)
        if exact and not bad_exact:
            bad_exact, node = exact + [{"test": short(cell[2], 240)}], cell[3]
        if narrow and not bad_narrow:
            bad_narrow, node = narrow + [{"test": short(cell[2], 240)}], cell[3]
            hidden = [ctx.src.where(n) for n in St.tr.floats[:3]]
    ctx.check(not bad_exact, "findap (numpy variant): an interior retained sample is marked exactly when it is a strict local extreme of its two retained neighbours "
                             "(the slopes on its two sides have opposite signs) - the test evaluated element by element on every 3-sample signal over 5 values", node,
              bad_exact or None)
    if bad_exact:
        return
    # (pass 6) the same compiled test on retained samples that are NOT all different from their neighbours (sub-tolerance drift and return)
    drift = [(st, cell, S_, m_) for allu, st, _, cell, S_, m_ in stencils if not allu]
    msg = ("findap (numpy variant): two neighbouring retained samples of exactly equal value (a plateau that creeps by sub-tolerance steps and then returns "
           "to its first value) are never both selected - consecutive reversal points are a maximum and a minimum, so they differ; decided on every "
           "drift signal over three levels (first entry as created, interior entries by the window test, last entry by its store)")
    if drift and fu_model and ret_ok and scatter_ok and end_ok:
        st, cell, S_, m_ = drift[0]
        try:
            wit = _drift_check(S_, st, m_)
        except (Unsupported, ZeroDivisionError, ArithmeticError, TypeError, ValueError, IndexError) as e:
            wit = None
            ctx.error(msg, cell[3], f"the window test could not be evaluated on windows with equal neighbours: {e}")
        if wit is not None:
            ctx.check(not wit, msg, cell[3], (wit[:3] + [f"{len(wit)} drift signals of {len(_drift_world())}", {"test": short(cell[2], 240)}]) if wit else None)
    msg = ("findap (numpy variant): the reversal test is sign-exact in the signal's own dtype - on every int8 signal [0, d0, d0 + d1] it gives the verdict of exact "
           "arithmetic (differences, signs and comparisons of samples are safe; a product of two slopes wraps around in narrow integer dtypes unless the samples "
           "were converted to float first)")
    if bad_narrow and hidden:
        # a float literal / true division / untracked cast was evaluated on the path: the value may be floating point without showing it
        ctx.error(msg, node, {"disagreements": bad_narrow, "but a floating-point value may have entered unseen at": hidden})
    else:
        ctx.check(not bad_narrow, msg, node, bad_narrow or None)


# ============================================================================================================ fdepsd model
def _serial_pred(v):
    """`parallel == "yes"` / `parallel == "no"` (whatever the local is called): the serial arm is the one analysed here; serial == parallel
    is C09-R5"""
    u = app(v, "cmp:Eq")
    if u is not None and any(sym_of(x) == "'yes'" for x in u[1] if not isinstance(x, str)):
        return False
    if u is not None and any(sym_of(x) == "'no'" for x in u[1] if not isinstance(x, str)):
        return True
    return None


def _resp_pred(label):
    """`resp == <literal>` whichever literal the source tests: true exactly for the regime's own label"""
    def pred(v):
        u = app(v, "cmp:Eq")
        if u is None or any(isinstance(x, str) for x in u[1]):
            return None
        names = [sym_of(x) for x in u[1]]
        if "resp" in names:
            other = names[1 - names.index("resp")]
            sp = str_parts(u[1][1 - names.index("resp")]) if other is not None else None
            if sp is not None and len(sp) == 1 and isinstance(sp[0], str):
                return sp[0] == label
        return None
    return pred


def _fde(ctx, absacce, plain=True):
    """fdepsd evaluated in one response regime, serial arm; plain: the signal is used as given (no conditioning / resampling arms)"""
    consts = module_consts(ctx, FDE)
    table = module_funcs(ctx, FDE)
    fn = ctx.src.func(FDE, "fdepsd")
    S0 = XSem(ctx, fn, run=False, consts=consts)
    E = S0.E
    truths = [(E("verbose"), False), (E("resp == 'absacce'"), absacce), (E("resp in ('absacce', 'pvelo')"), True)]
    if plain:
        truths += [(E("winends == 'auto'"), False), (E("winends is None"), True), (E("hpfilter is None"), True), (E("detrend"), False),
                   (E("rolloff == 'prefilter'"), False)]
    def serial_ncpu(v):
        """tests on the number of worker processes srs._process_parallel returns (`ncpu > 1`, `ncpu == 1`): one process in the serial regime"""
        u = app(v)
        if u is None or not u[0].startswith("cmp:") or len(u[1]) != 2 or any(isinstance(x, str) for x in u[1]):
            return None
        for k in (0, 1):
            w = app(u[1][k], "idx")
            if w is not None and not isinstance(w[1][0], str) and head(w[1][0]) in ("call:srs._process_parallel", "call:_process_parallel") and const_of(w[1][1]) == 1 \
                    and const_of(u[1][1 - k]) is not None:
                fx = Facts()
                fx.num_set(u[1][k], 1)
                return truth(v, fx)
        return None

    preds = [_serial_pred, serial_ncpu, _resp_pred("absacce" if absacce else "pvelo")]
    if plain:
        def noresample(v):
            u = app(v, "cmp:Lt")
            if u is not None and same(u[1][1], E("ppc")):
                return False
            return None
        preds.append(noresample)
    f = Facts(truths=truths, preds=preds)
    for text in ("sig.ndim", "freq.ndim"):
        f.num_set(E(text), 1)
    if plain:
        # the signal is sampled finely enough (20 points per cycle at the highest frequency, 10 wanted): every spelling of the
        # "needs resampling" test (curppc < ppc, ppc > curppc, not curppc >= ppc, sr < ppc * mxfrq) is decided by arithmetic
        for text, x in (("ppc", 10), ("sr", 100), ("np.max(freq)", 5)):
            f.num_set(E(text), x)
    # the regime is selected by *binding* the parameter to the regime's literal: every way of testing it (==, !=, in, a table look-up,
    # a character of it) then evaluates; the predicates above stay for code that re-binds the name
    S = XSem(ctx, fn, facts=f, consts=consts, inline={k: v for k, v in table.items() if k not in ("fdepsd", "_dofde", "_mk_par_globals")},
             env={"resp": F.sym(repr("absacce" if absacce else "pvelo"))})
    out = {}
    ns = S.calls("SimpleNamespace", "types.SimpleNamespace")
    if len(ns) > 1:
        # records built by helpers (a per-frequency result) are SimpleNamespace calls too: the result is the one made in fdepsd's own body
        own = [c for c in ns if fn.lineno <= getattr(c[3], "lineno", -1) <= fn.end_lineno]
        ns = own if len(own) == 1 else ns
    if len(ns) != 1 or len(S.returns()) != 1 or S.tr.raises:
        raise AnchorError("fdepsd: one return of SimpleNamespace(...)")
    for k, v in ns[0][2].items():
        out[k] = v
    rn = S.returns()[0][1]
    if isinstance(getattr(rn, "value", None), ast.Name):
        # res = SimpleNamespace(...); res.psd = Gpsd; ...; return res
        pre = rn.value.id + "."
        for k, v in S.ev.env.items():
            if k.startswith(pre) and k[len(pre):].isidentifier():
                out[k[len(pre):]] = v
    if "_kwargs" in out or any(k not in out for k in ("psd", "peakamp", "di_sig", "di_test", "var_test", "bincount", "count", "binamps", "srs")):
        raise Unsupported(f"fdepsd: the fields of the returned namespace are not all visible (found {sorted(k for k in out if k != '_kwargs')})")
    # an output that still carries an undecided alternative (a test this rule's regime facts do not decide - e.g. the response type tested in a
    # way that is not a comparison with a literal) cannot be compared with anything: not lowered, never a verdict
    for k in ("psd", "peakamp", "di_sig", "di_test", "var_test", "bincount", "count", "binamps", "srs"):
        v = S.deref(out.get(k))
        if v is None or is_unknown(v):
            if hasattr(ctx, "unread"):
                ctx.unread.append(f"fdepsd: output `{k}` = {v!r}"[:200])
            continue
        for nm, a, x in apps(v, "ite") + apps(v, "opaque-test"):
            cond = a[0] if a and not isinstance(a[0], str) else None
            if plain or cond is None or depends(cond, "resp"):
                raise Unsupported(f"fdepsd: output `{k}` depends on a test the regime ({'absacce' if absacce else 'pvelo'}, serial) does not decide: {short(cond if cond is not None else x, 160)}")
    return S, out, fn


DF_NAMES = ("call:pd.DataFrame", "call:DataFrame", "call:pandas.DataFrame")
SERIES_NAMES = ("call:pd.Series", "call:Series", "call:pandas.Series")


def _strip(S, v):
    """the array behind pd.DataFrame(x, ...) / pd.Series(x, ...) / re-bound names"""
    for _ in range(6):
        v = S.deref(v)
        u = app(v)
        if u is not None and u[0] in DF_NAMES + SERIES_NAMES:
            pos, kw = call_args(u)
            v = pos[0] if pos else kw.get("data")
            continue
        if u is not None and u[0] == "transposed" and len(u[1]) == 1 and not isinstance(u[1][0], str):
            v = u[1][0]
            continue
        break
    return v


def _frame(S, v):
    """pd.DataFrame(data, columns=[...]) -> {label text: column value} (data: dict, tuple of columns, or an opaque value)"""
    v = S.deref(v)
    u = app(v)
    if u is None or u[0] not in DF_NAMES:
        return None
    pos, kw = call_args(u)
    data = pos[0] if pos else kw.get("data")
    tu = app(data, "transposed") if data is not None and not is_unknown(data) and not isinstance(data, (tuple, str)) else None
    if tu is not None:
        data = tu[1][0]           # the orientation of a 2-D table is read off its stores below
    cols = kw.get("columns")
    ct = app(cols, "tuple") if cols is not None else None
    labels = None
    if ct is not None:
        labels = []
        for x in ct[1]:
            sp = str_parts(x)
            if sp is None or len(sp) != 1 or not isinstance(sp[0], str):
                return None
            labels.append(sp[0])
    d = app(data, "dict")
    if d is not None:
        tab = {}
        for k, x in zip(d[1][0::2], d[1][1::2]):
            sp = str_parts(k)
            if sp is None or len(sp) != 1 or not isinstance(sp[0], str):
                return None
            tab[sp[0]] = x
        if labels is not None and set(labels) != set(tab):
            return None
        return tab
    t = app(data, "tuple")
    if t is not None and labels is not None and len(t[1]) == len(labels):
        return dict(zip(labels, t[1]))
    # (pass 5) one 2-D table filled entry by entry, one row (T[k, j] = ..., handed over transposed) or one column (T[j, k] = ...) per label:
    # the orientation is read off the stores (pandas raises when the number of columns does not match the labels)
    sd = sym_of(data) if data is not None and not is_unknown(data) and not isinstance(data, (tuple, str)) else None
    if sd is not None and labels is not None and S.cells(sd):
        kinds = set()
        for c in S.cells(sd):
            if is_unknown(c[1]):
                return None
            _, cix = peel(F.fn("idx", F.sym(sd), c[1]))
            if len(cix) != 2:
                return None
            k0, k1 = const_of(cix[0]), const_of(cix[1])
            if k0 is not None and k1 is None and 0 <= k0 < len(labels):
                kinds.add("rows")
            elif k1 is not None and k0 is None and 0 <= k1 < len(labels):
                kinds.add("cols")
            else:
                return None
        if kinds == {"rows"}:
            return {lb: F.fn("idx", F.sym(sd), F.const(k)) for k, lb in enumerate(labels)}
        if kinds == {"cols"}:
            return {lb: F.fn("idx", F.sym(sd), F.fn("tuple", F.fn("slice", NONE, NONE, NONE), F.const(k))) for k, lb in enumerate(labels)}
    return None


def _rowsum(v):
    """the summand X of a row-wise sum:  np.sum(X, axis=1) / X.sum(axis=-1) / np.sum(X, 1) / np.einsum("ij,ij->i", A, B) (X = A * B)"""
    u = app(v)
    if u is None or any(isinstance(a, str) for a in u[1]):
        return None
    pos, kw = call_args(u)
    if u[0] == "call:np.sum" and pos:
        ax = pos[1] if len(pos) == 2 else kw.get("axis")
        if ax is not None and const_of(ax) in (1, -1) and len(pos) <= 2 and set(kw) <= {"axis"}:
            return pos[0]
    if u[0] == "call:np.einsum" and len(pos) == 3 and not kw:
        sp = str_parts(pos[0])
        if sp is not None and len(sp) == 1 and isinstance(sp[0], str) and sp[0].replace(" ", "") in ("ij,ij->i", "ab,ab->a", "jk,jk->j"):
            try:
                return need(pos[1]) * need(pos[2])
            except Unsupported:
                return None
    return None


def _element(S, v):
    """generic element of a per-frequency vector: (value at index _i0) for an array filled in a loop, a comprehension, or an elementwise formula;
    for a vector written as one row-wise sum over whole arrays: ("rows", summand)"""
    v = S.deref(v)
    s = sym_of(v)
    if s is not None and S.cells(s):
        cs = [c for c in S.cells(s) if sym_of(c[1]) == "_i0" and len(c[4]["loops"]) == 1]
        if len(cs) == len(S.cells(s)) == 1:
            return cs[0][2], cs[0]
        return None, None
    # (pass 5) the vector is a row of a shared table (`Df4, Df8, Df12 = table` / table[0]): the stores table[(k, _i0)] = ... of that row; stores into
    # other rows (another constant first index) do not touch it, any other store into the table makes the row's content unread
    b, pre = peel(v) if v is not None and not is_unknown(v) and not isinstance(v, (tuple, str)) else (None, [])
    sb = sym_of(b) if b is not None else None
    if sb is not None and len(pre) == 2 and _is_full(pre[0]) and const_of(pre[1]) is not None and S.cells(sb):
        # a column T[:, k] of a table filled by T[j, k] = ...
        mine = []
        for c in S.cells(sb):
            if is_unknown(c[1]):
                return None, None
            _, cix = peel(F.fn("idx", F.sym(sb), c[1]))
            if len(cix) == 2 and const_of(cix[1]) is not None and const_of(cix[0]) is None:
                if const_of(cix[1]) != const_of(pre[1]):
                    continue
                if sym_of(cix[0]) == "_i0" and len(c[4]["loops"]) == 1 and not c[4]["guard"] and not c[4]["aug"]:
                    mine.append(c)
                    continue
            return None, None
        if len(mine) == 1:
            return mine[0][2], mine[0]
        return None, None
    if sb is not None and pre and all(const_of(p) is not None for p in pre) and S.cells(sb):
        mine = []
        for c in S.cells(sb):
            if is_unknown(c[1]):
                return None, None
            _, cix = peel(F.fn("idx", F.sym(sb), c[1]))
            if len(cix) >= len(pre) and all(const_of(q) is not None for q in cix[:len(pre)]):
                if any(const_of(q) != const_of(p) for p, q in zip(pre, cix)):
                    continue            # another row
                rest = cix[len(pre):]
                if len(rest) == 1 and sym_of(rest[0]) == "_i0" and len(c[4]["loops"]) == 1 and not c[4]["guard"] and not c[4]["aug"]:
                    mine.append(c)
                    continue
            return None, None
        if len(mine) == 1:
            return mine[0][2], mine[0]
        return None, None
    u = app(v, "comp")
    if u is not None:
        return u[1][0], None
    r = _rowsum(v)
    if r is not None:
        return ("rows", r), None
    return None, None


def _unsum(el):
    """sum(a * b) over two rows is their dot product, which the evaluator writes as the product a * b"""
    u = app(el, "call:np.sum") if el is not None and not isinstance(el, tuple) else None
    if u is not None and len(u[1]) == 1 and not isinstance(u[1][0], str):
        return u[1][0]
    return el


def _extreme_kind(P, D):
    """what P is as a statistic of the vector D:  'maxabs' (max|D| in one of its spellings: max(abs(D)), max(max(D), -min(D)), max(maximum(D, -D)),
    norm(D, inf)), 'other' (recognisably a different reduction of D or of |D|: max without abs, min, mean, ...), None (not recognised)"""
    if P is None or D is None or is_unknown(P) or isinstance(P, (tuple, str)):
        return None
    try:
        aD = F.fn("abs", need(D))
        mx, mn = F.fn("call:np.max", need(D)), F.fn("call:np.min", need(D))
    except Unsupported:
        return None
    if same(P, F.fn("call:np.max", aD)) or same(P, F.fn("abs", F.fn("call:np.max", aD))):
        return "maxabs"
    u = app(P)
    if u is None:
        return None
    two = [a for a in u[1] if not isinstance(a, str)]
    if u[0] in ("call:max", "call:np.maximum", "call:np.fmax") and len(two) == 2 and len(u[1]) == 2:
        if (same(two[0], mx) and same(two[1], -mn)) or (same(two[1], mx) and same(two[0], -mn)):
            return "maxabs"
        ks = {_extreme_kind(two[0], D), _extreme_kind(two[1], D)}
        if ks == {"maxabs"}:
            return "maxabs"
        if None not in ks and "maxabs" not in ks:
            return "other"              # the larger of two statistics neither of which is max|D| (max(D.max(), D.min()) is D.max())
    if u[0] == "call:np.max" and len(u[1]) == 1:
        w = app(two[0]) if two else None
        if w is not None and w[0] in ("call:np.maximum", "call:np.fmax") and len(w[1]) == 2 and not any(isinstance(a, str) for a in w[1]):
            if (same(w[1][0], D) and same(w[1][1], -need(D))) or (same(w[1][1], D) and same(w[1][0], -need(D))):
                return "maxabs"
    if u[0] in ("call:np.linalg.norm", "call:linalg.norm", "call:norm") and two and same(two[0], D):
        pos, kw = call_args(u)
        o = pos[1] if len(pos) > 1 else kw.get("ord")
        if o is not None and sym_of(o) in ("np.inf", "inf", "math.inf", "numpy.inf"):
            return "maxabs"
        return "other" if o is None or const_of(o) is not None else None
    if u[0] in REDUCERS and len(u[1]) == 1 and two and (same(two[0], D) or same(two[0], aD)):
        return "other"
    return None


REDUCERS = ("call:np.sum", "call:np.max", "call:np.min", "call:np.mean", "call:np.prod", "call:np.median", "call:np.count_nonzero", "call:len", "call:np.std",
            "call:np.var", "call:np.any", "call:np.all", "call:np.nansum", "call:np.cumsum", "call:np.argmax", "call:np.argmin", "call:np.ptp")


def _cycle_col(v):
    """(cycle table value, column name) when v is a column of a cycle table written as  T["amp"]  (the evaluator writes T[:, 0], T.amp,
    T.loc[:, "amp"], T.iloc[:, 0], .values / .to_numpy() of those the same way)"""
    u = app(v, "idx") if v is not None and not is_unknown(v) and not isinstance(v, (tuple, str)) else None
    if u is None or len(u[1]) != 2 or isinstance(u[1][0], str) or isinstance(u[1][1], str):
        return None
    sp = str_parts(u[1][1])
    if sp is None or len(sp) != 1 or sp[0] not in ("amp", "mean", "count"):
        return None
    return u[1][0], sp[0]


def _masked_reduction(val):
    """(reducer name, reduced column, mask) for  red(col[mask])  /  red(np.where(mask, col, 0))  /  col[mask].red(); None otherwise"""
    sm = app(val)
    if sm is None or sm[0] not in REDUCERS or not sm[1] or isinstance(sm[1][0], str):
        return None
    if len([a for a in sm[1] if isinstance(a, str) or not (app(a) or ("",))[0].startswith("kw:")]) != 1:
        return None
    x = app(sm[1][0], "idx")
    if x is not None and len(x[1]) == 2 and not isinstance(x[1][0], str) and not isinstance(x[1][1], str) and (apps(x[1][1], "cmp:") or apps(x[1][1], "call:np.")):
        return sm[0], x[1][0], x[1][1]
    w = app(sm[1][0], "call:np.where")
    if w is not None and len(w[1]) == 3 and not any(isinstance(a, str) for a in w[1]) and const_of(w[1][2]) == 0:
        return sm[0], w[1][1], w[1][0]
    return None


def _cumcount(ctx, S, q, fn, roles=None, nbins=None):
    """Count[j, jj] = sum of count[amp >= level[j, jj]] with the cycle table of the reversals of the response history"""
    found = []
    for c in S.cells():
        if is_unknown(c[1]) or is_unknown(c[2]) or isinstance(c[2], tuple):
            continue
        _, ix = peel(F.fn("idx", F.sym(c[0]), c[1]))
        val, dom = c[2], (c[4]["loops"][-1][1] if c[4]["loops"] else None)
        u = app(val, "comp")
        if u is not None:
            val, dom = u[1][0], u[1][1]
            ix = ix + [F.sym(f"_i{len(c[4]['loops'])}")]
        mr = _masked_reduction(val)
        if mr is None or len(ix) != 2:
            continue
        found.append((c, ix, dom, mr[1], mr[2], mr[0]))
    msg = f"{q}: Count[j, jj] = number of cycles with amplitude >= level jj (non-increasing in the level; level 0 = 0 counts every cycle)"
    if len(found) != 1:
        ctx.error(msg, fn, f"{len(found)} stores of a masked reduction of cycle counts")
        return None
    c, (J, K), dom, ccol, mask, red = found[0]
    if red != "call:np.sum":
        ctx.fail(msg, c[3], {"the masked cycle counts are reduced with": red[5:], "expected": "their sum"})
        return None
    # what the mask compares: one column of a cycle table with the level of the store's own (row, bin) position - an entry of the level array
    # (scaled in place before), or the scaled entry written out (unit level x largest amplitude, stored into the level array afterwards)
    cmps = [(nm, a, x) for nm, a, x in apps(mask, "cmp:") if len(a) == 2 and not any(isinstance(k, str) for k in a)]
    sides = []
    for nm, a, x in cmps:
        for k in (0, 1):
            if _cycle_col(a[k]) is not None:
                sides.append((a[k], a[1 - k]))
    if len(cmps) != 1 or len(sides) != 1:
        ctx.error(msg, c[3], {"mask": short(mask), "why": f"the mask is not one comparison of a cycle-table column with a level ({len(cmps)} comparisons)"})
        return None
    amp, L = sides[0]
    levels = []
    for x in walk(L):
        r, ixs = peel(x)
        if sym_of(r) is not None and len(ixs) == 2 and (sym_of(r) in S.tr.inits or any(cc_[0] == sym_of(r) for cc_ in S.tr.cells)):
            if not any(same(x, y) for y in levels):
                levels.append(x)
    if len(levels) != 1:
        ctx.error(msg, c[3], {"mask": short(mask), "why": f"the level compared reads {len(levels)} entries of level arrays"})
        return None
    lev = levels[0]
    r, ixs = peel(lev)
    LV = sym_of(r)
    cc = _cycle_col(ccol)
    if cc is None:
        ctx.error(msg, c[3], {"what is summed is not a column of a cycle table": short(ccol, 160)})
        return None
    if not (same(ixs[0], J) and same(ixs[1], K)):
        ctx.fail(msg, c[3], {"mask": short(mask), "store index": [short(J), short(K)], "level read at": [short(i) for i in ixs]})
        return None
    if not same(L, lev):
        # the level written out: it must be what the row of the level array is set to (X[j] = unit * amax), element K
        rows = [cx for cx in S.cells(LV) if same(cx[1], J) and not is_unknown(cx[2]) and not isinstance(cx[2], tuple)]
        if len(rows) != 1 or not same(S.ev.mk_idx(rows[0][2], K), L):
            ctx.error(msg, c[3], {"mask": short(mask), "why": "the level compared is neither an entry of the level array nor the value its row is set to"})
            return None
    tt = []
    for d_ in (-1, 0, 1):
        f = Facts()
        try:
            for a_ in sorted(need(L).n.atoms() | need(L).d.atoms()):
                f.nums[a_] = Fraction(1)
            f.nums[single_atom(lev)] = Fraction(5)
            lv_ = f.num(L)
            if lv_ is None:
                raise Unsupported("level value")
            f.num_set(amp, lv_ + d_)
        except Unsupported:
            tt.append(None)
            continue
        tt.append(truth(mask, f))
    if None in tt:
        ctx.error(msg, c[3], short(mask))
        return None
    ok = tt == [False, True, True] and same(_cycle_col(amp)[0], cc[0]) and _cycle_col(amp)[1] == "amp" and cc[1] == "count"
    if roles is not None:
        ok = ok and c[0] == roles.get("count") and LV == roles.get("binamps")
    ctx.check(ok, msg, c[3], None if ok else {"mask": short(mask), "cycles with amplitude below / on / above the level are counted": tt, "counts": short(ccol, 120),
                                              "compared column": _cycle_col(amp)[1], "summed column": cc[1], "stored into": c[0], "levels": LV})
    if not ok:
        return None
    RF = cc[0]
    r = app(RF)
    R = None
    if r is not None and r[0] in ("call:cyclecount.rainflow", "call:rainflow"):
        pos, kw = call_args(r)
        pk = app(pos[0], "idx") if pos else None
        if pk is not None:
            fa = app(pk[1][1])
            if fa is not None and fa[0] in ("call:cyclecount.findap", "call:findap") and same(call_args(fa)[0][0], pk[1][0]):
                R = pk[1][0]
    return dict(cell=c, J=J, K=K, dom=dom, levels=LV, amp=amp, RF=RF, R=R)


# ======================================================================================================================= R3
class _Mismatch(Exception):
    pass


def _columns(v, cols, more=None, primary=None):
    """a row expression over idx(Count, (:, a:b)) atoms evaluated on generic columns `cols` -> (list of values, array) ; None when the
    expression is not of that form; _Mismatch when it is but the pieces do not fit (different lengths, rows sliced instead of columns).
    more: {array name: its columns as values over `cols`} for arrays derived from the primary one (a copy that is being updated in place);
    a piece of such an array counts as a piece of `primary`"""
    n = len(cols)
    more = more or {}

    def src_of(b):
        nm = sym_of(b)
        if nm is not None and nm in more:
            return more[nm], primary
        return cols, b
    if v is None or is_unknown(v) or isinstance(v, (tuple, str)):
        return None
    if not v.d.is_const():
        return None
    out = None
    later = []
    for mono, coef in v.n.t.items():
        if len(mono) != 1 or mono[0][1] != 1:
            return None
        av = F.Rat(F.Poly.atom(mono[0][0]))
        if sym_of(av) is not None or app(av, "hcat") is not None:
            later.append((av, coef / v.d.const_value()))          # the whole array / a concatenation of column blocks: below
            continue
        b, ix = peel(av)
        two = len(ix) == 2
        if len(ix) == 2:
            s0, s1 = app(ix[0], "slice"), app(ix[1], "slice")
            if s0 is None:
                return None
            if not all(sym_of(x) == "None" for x in s0[1]):
                if s1 is not None and all(sym_of(x) == "None" for x in s1[1]):
                    raise _Mismatch(f"{short(av)} slices the frequencies (rows), not the bins (columns)")
                return None
            ix = ix[1:]
        if len(ix) != 1:
            return None
        if not two and app(ix[0], "slice") is not None and not _is_full(ix[0]):
            # one index on the (frequency x bin) array selects rows; X[a:b, :] is written X[a:b] by the evaluator
            raise _Mismatch(f"{short(av)} slices the frequencies (rows), not the bins (columns)")
        sl = app(ix[0], "slice")
        lst = app(ix[0], "tuple")
        if sl is None and two and lst is not None and len(lst[1]) == 1 and not isinstance(lst[1][0], str):
            ix = [lst[1][0]]                                              # X[:, [k]] is the one-column block X[:, k:k+1]
        if sl is None and two and const_of(ix[0]) is not None and const_of(ix[0]).denominator == 1 and -n <= const_of(ix[0]) < n:
            k0 = int(const_of(ix[0])) % n
            sl = ("slice", [F.const(k0), F.const(k0 + 1), NONE])          # X[:, k] as the one-column block X[:, k:k+1]
        if sl is None:
            return None
        bounds = []
        for x in sl[1]:
            if sym_of(x) == "None":
                bounds.append(None)
            elif const_of(x) is not None and const_of(x).denominator == 1:
                bounds.append(int(const_of(x)))
            else:
                return None
        part = list(range(n))[slice(*bounds)]
        src, b = src_of(b)
        vec = [coef / v.d.const_value() * src[k] for k in part]
        if out is None:
            out = (vec, b)
        else:
            if not same(out[1], b):
                return None
            if len(out[0]) != len(vec):
                raise _Mismatch(f"pieces of different length are combined: {short(v)}")
            out = ([p + q for p, q in zip(out[0], vec)], b)
    for av, coef in sorted(later, key=lambda z: app(z[0], "hcat") is not None):
        if sym_of(av) is not None:
            src, b = src_of(av)
            vec = [coef * c for c in src]                         # every column of the array itself
        else:
            vec, b, fill = [], None, None
            for part in app(av, "hcat")[1]:
                if isinstance(part, str):
                    return None
                if const_of(part) is not None:
                    if fill is not None:
                        return None
                    fill = (len(vec), const_of(part))                # a constant block (np.zeros((n, k))): as wide as numpy's shape check demands
                    continue
                r = _columns(part, cols, more, primary)
                if r is None or (b is not None and not same(b, r[1])):
                    return None
                b = r[1]
                vec += [coef * x for x in r[0]]
            if fill is not None:
                if out is None or len(out[0]) < len(vec):
                    return None if out is None else _raise(_Mismatch(f"pieces of different length are combined: {short(v)}"))
                vec[fill[0]:fill[0]] = [F.const(fill[1]) * coef] * (len(out[0]) - len(vec))
            if b is None:
                return None
        if out is None:
            out = (vec, b)
        else:
            if not same(out[1], b):
                return None
            if len(out[0]) != len(vec):
                raise _Mismatch(f"pieces of different length are combined: {short(v)}")
            out = ([p + q for p, q in zip(out[0], vec)], b)
    return out


def _raise(e):
    raise e


def r3_telescoping(ctx):
    S, out, fn = _fde(ctx, True)
    CT = sym_of(_strip(S, out.get("count")))
    BA = sym_of(_strip(S, out.get("binamps")))
    Z = untuple(_strip(S, out.get("bincount")))
    if isinstance(Z, tuple) and Z and not any(is_unknown(x) or isinstance(x, tuple) for x in Z):
        Z = F.fn("hcat", *[need(x) for x in Z])          # np.column_stack((blocks..., column)): the pieces side by side
    hc = app(Z, "hcat")
    C = [F.sym(f"c{i}") for i in range(5)]
    vec = []
    ok = hc is not None and CT is not None
    mism = None
    if hc is None and CT is not None and sym_of(Z) is not None and S.cells(sym_of(Z)):
        # the array is allocated (or made as a copy of the cumulative counts) and its column blocks are stored one by one, in program order:
        # BinCount[:, :-1] = ...; BinCount[:, -1] = ...   /   BinCount = Count.copy(); BinCount[:, :-1] -= Count[:, 1:]
        ZS = sym_of(Z)
        cur, have = [F.const(0)] * len(C), [False] * len(C)
        ok = True
        ini = S.deref(S.init(ZS))
        if ini is not None and not is_unknown(ini) and not isinstance(ini, tuple) and const_of(ini) is None:
            try:
                r = _columns(ini, C)
            except _Mismatch as e:
                r, mism = None, str(e)
            if r is not None and sym_of(r[1]) == CT and len(r[0]) == len(C):
                cur, have = list(r[0]), [True] * len(C)
            else:
                ok = False
        for c in (S.cells(ZS) if ok and not mism else []):
            try:
                tgt = _columns(F.fn("idx", F.sym("<pos>"), c[1]), [F.const(i) for i in range(len(C))]) if not is_unknown(c[1]) else None
                r = _columns(c[2], C, {ZS: cur}, F.sym(CT))
            except _Mismatch as e:
                mism = str(e)
                break
            if tgt is None or r is None or sym_of(r[1]) != CT or c[4]["guard"] or c[4]["loops"]:
                ok = False
                break
            if len(tgt[0]) != len(r[0]):
                mism = f"{len(r[0])} columns are stored into {len(tgt[0])}: {short(c[1], 80)} = {short(c[2], 120)}"
                break
            new = list(cur)
            for t_, v_ in zip(tgt[0], r[0]):
                new[int(const_of(t_))] = v_
                have[int(const_of(t_))] = True
            cur = new
        if ok and not mism:
            vec = [x for x, h in zip(cur, have) if h]
    elif hc is None and CT is not None:
        # one expression over the array of cumulative counts (Count minus Count shifted by one column, ...)
        try:
            r = _columns(Z, C)
            ok = r is not None and sym_of(r[1]) == CT
            vec = list(r[0]) if ok else []
        except _Mismatch as e:
            mism = str(e)
    elif ok:
        for part in hc[1]:
            try:
                r = _columns(part, C)
            except _Mismatch as e:
                mism = str(e)
                break
            if r is None or sym_of(r[1]) != CT:
                ok = False
                break
            vec += r[0]
    _bound(ctx, S, "fdepsd [absacce]", fn)
    if mism:
        ctx.fail("fdepsd: BinCount has one entry per bin", fn, mism)
    elif not ok:
        ctx.error("fdepsd: BinCount has one entry per bin", fn, short(Z))
    else:
        ok = len(vec) == len(C)
        ctx.check(ok, "fdepsd: BinCount has one entry per bin", fn, None if ok else [short(x) for x in vec])
        if ok:
            tot = F.const(0)
            for x in vec:
                tot = tot + x
            ok = tot.equals(C[0])
            ctx.check(ok, "fdepsd: non-cumulative counts telescope - their sum is the first cumulative count (the total number of cycles)", fn, None if ok else repr(tot))
            ok = all(vec[i].equals(C[i] - C[i + 1]) for i in range(len(C) - 1)) and vec[-1].equals(C[-1])
            ctx.check(ok, "fdepsd: BinCount[k] = Count[k] - Count[k+1], last bin keeps its cumulative count", fn, None if ok else [short(x) for x in vec])
    # cumulative count definition on the serial and on the parallel side
    info = _cumcount(ctx, S, "fdepsd", fn, roles={"count": CT, "binamps": BA})
    fd = ctx.src.func(FDE, "_dofde")
    consts = module_consts(ctx, FDE)
    table = module_funcs(ctx, FDE)
    Sd = XSem(ctx, fd, consts=consts, inline={k: v for k, v in table.items() if k not in ("fdepsd", "_dofde", "_mk_par_globals")})
    infod = _cumcount(ctx, Sd, "_dofde", fd)
    for q, S_, inf, f_ in (("fdepsd", S, info, fn), ("_dofde", Sd, infod, fd)):
        if inf is None:
            continue
        LV = inf["levels"]
        sc = [c for c in S_.cells(LV) if same(c[1], inf["J"])]
        ok = len(sc) == 1 and len(S_.cells(LV)) == 1
        unread = None
        if ok:
            try:
                fac = need(sc[0][2]) / S_.ev.mk_idx(F.sym(LV), inf["J"])
                mp = {}
                for a_ in fac.n.atoms() | fac.d.atoms():           # entries of other arrays: the value last stored there
                    av = F.Rat(F.Poly.atom(a_))
                    lv_ = S_.load(av)
                    if lv_ is not av and not is_unknown(lv_) and not isinstance(lv_, tuple) and sym_of(peel(av)[0]) != LV:
                        mp[a_] = lv_
                if mp:
                    fac = F._subs_poly(fac.n, mp) / F._subs_poly(fac.d, mp)
                ok = same(fac, S_.E("np.max(A)", A=inf["amp"]))
                def statistic(v):
                    """built from constants, full reductions (max, min, mean, ... of something) and the level array itself: readable as 'not max(amp)'"""
                    if is_unknown(v) or isinstance(v, tuple):
                        return False
                    for a_ in need(v).n.atoms() | need(v).d.atoms():
                        av = F.Rat(F.Poly.atom(a_))
                        if head(av) in REDUCERS:
                            continue
                        if sym_of(peel(av)[0]) == LV:
                            continue            # the stored value is not a multiple of the row: not a scaling at all
                        return False
                    return True
                if not ok and not (not is_unknown(fac) and not isinstance(fac, tuple) and (statistic(fac) or apps(fac, "call:signal.lfilter"))):
                    unread = f"the factor the row of levels is scaled by is not read: {short(fac, 200)}"        # neither max(amp) nor recognisably something else
            except Unsupported as e:
                ok, unread = False, str(e)
        elif S_.cells(LV):
            unread = f"the stores into the level array are not one scaling of the row being counted: {[(short(c[1], 40), short(c[2], 80)) for c in S_.cells(LV)][:3]}"
        if q == "fdepsd":
            ini = S_.deref(S_.init(LV))
            t = app(ini, "tile")
            if t is not None:
                ini = t[1][0]
            frac_ok = same(ini, S_.E("np.arange(nbins) / nbins"))
            if not frac_ok and unread is None and (ini is None or is_unknown(ini) or isinstance(ini, tuple) or
                                                   any(nm != "call:np.arange" and not nm.startswith("call:kw") for nm, _, _ in apps(ini, "call:"))):
                unread = f"the unit levels are made by something else than np.arange: {short(ini, 160)}"
            ok = ok and frac_ok
            shp = _levels_shape(S_, LV)
            if shp is None:
                # no allocation with a visible (rows, columns) shape: numpy's broadcasting and pandas' index=freq raise on a mismatch, so a wrong
                # shape cannot give silently wrong outputs - the shape is demanded only where the allocation shows it
                ctx.note("fdepsd: the shape of the level array is not visible in an allocation; not demanded")
            ok = ok and shp is not False
            row_ = S_.ev.mk_idx(F.sym(LV), inf["J"])
            doms = (S_.E("nbins"), S_.E("len(L)", L=row_), S_.E("L.shape[1]", L=F.sym(LV)), S_.E("L.size", L=row_), S_.E("L.shape[0]", L=row_), S_.E("L.shape[-1]", L=F.sym(LV)))
            dom_ok = any(same(inf["dom"], w) for w in doms)
            if not dom_ok and unread is None:
                # (pass 5) a count of levels that is none of the spellings of "all of the row": wrong only when it differs from one of them by a constant
                # (range(nbins - 1) drops a level); anything else is not read
                off = []
                for w in doms:
                    try:
                        off.append(const_of(need(inf["dom"]) - need(w)))
                    except Unsupported:
                        off.append(None)
                if not any(o is not None and o != 0 for o in off):
                    unread = f"the number of levels counted is not read: {short(inf['dom'], 120)}"
                    dom_ok = True
            if unread is not None and dom_ok:
                ctx.error("fdepsd: amplitude levels are k/nbins of the largest cycle amplitude, k = 0..nbins-1 (first level 0)", f_, unread)
            else:
                ctx.check(ok and dom_ok, "fdepsd: amplitude levels are k/nbins of the largest cycle amplitude, k = 0..nbins-1 (first level 0)", f_,
                          None if ok and dom_ok else {"levels created from": short(S_.init(LV)), "scaled by": [short(c[2]) for c in sc], "levels counted": short(inf["dom"])})
            R = inf["R"]
            SR = sym_of(_strip(S_, out.get("srs")))
            sr = [c for c in S_.cells(SR)] if SR else []
            msg = "fdepsd: cycles are counted on the reversals of the same response history whose absolute maximum is the SRS value"
            kind = _extreme_kind(sr[0][2], R) if R is not None and len(sr) == 1 and same(sr[0][1], inf["J"]) else None
            if kind is None and R is not None and len(sr) == 1 and same(sr[0][1], inf["J"]) and not is_unknown(sr[0][2]) and not isinstance(sr[0][2], tuple) \
                    and not any(same(x, R) for x in walk(sr[0][2])) and apps(sr[0][2], "call:signal.lfilter"):
                kind = "other"          # a peak taken from another response history than the one the cycles are counted on
            if kind is None:
                ctx.error(msg, f_, {"response": short(R), "srs": [short(c[2]) for c in sr], "why": "the SRS value is not recognised as a statistic of the response history"})
            else:
                ctx.check(kind == "maxabs", msg, f_, None if kind == "maxabs" else {"response": short(R), "srs": [short(c[2]) for c in sr]})
        elif unread is not None:
            ctx.error("_dofde: the amplitude levels of the row are scaled by the largest cycle amplitude before counting", f_, unread)
        else:
            ctx.check(ok, "_dofde: the amplitude levels of the row are scaled by the largest cycle amplitude before counting", f_, None if ok else [short(c[2]) for c in sc])


def _levels_shape(S, LV):
    """the array of levels has one row per frequency and one column per bin: created as zeros((len(freq), nbins)) (+ the fractions) or by
    tiling the fractions len(freq) times.  True / False when an allocation shows the shape, None when none does"""
    seen = set()
    names = [LV]
    while names:
        nm = names.pop()
        if nm in seen:
            continue
        seen.add(nm)
        al = S.tr.allocs.get(nm)
        if al is not None:
            a = place(al[1], al[2], ["shape", "dtype"] if al[0] != "np.tile" else ["A", "reps"])
            shp = a.get("reps" if al[0] == "np.tile" else "shape")
            if isinstance(shp, tuple) and len(shp) == 2:
                rows = any(same(shp[0], w) for w in (S.E("freq.size"), S.E("len(freq)"), S.E("len(2 * np.pi * freq)"), S.E("(2 * np.pi * freq).size")))
                if al[0] == "np.tile":
                    return rows and const_of(shp[1]) == 1
                return rows and same(shp[1], S.E("nbins"))
            return None
        ini = S.init(nm)
        if ini is None or is_unknown(ini) or isinstance(ini, tuple):
            return None
        names += [sym_of(x) for x in walk(ini) if sym_of(x) in S.tr.inits]
    return None


def _local_callables(S, v):
    """names of calls in v whose callee is a local variable of the analysed function (functools.partial objects, callables picked from a
    table, ...): the evaluator has no definition to follow"""
    out = []
    for nm, _, _ in apps(v, "call:"):
        q = nm[5:]
        if q.isidentifier() and q in S.ev.locals_ and q not in out:
            out.append(q)
    return out


def _transcendentals(v):
    out = set()
    for x in walk(v):
        a = single_atom(x)
        if a is None:
            continue
        d = F.atom_desc(a)
        if d[0] in ("exp", "sin", "cos") or (d[0] == "fn" and d[1] in ("log", "call:np.log10", "call:np.log2", "call:np.log1p", "call:np.expm1", "call:np.exp2", "call:math.log")):
            out.add(a)
    return out


def _decisive(*vals):
    """two values that differ as polynomials over their atoms are provably different only if the atoms are independent: logarithms and
    exponentials of different arguments (log(f T) against log(f) + log(T)) are not - such a difference is not a verdict"""
    sets = [_transcendentals(v) for v in vals if v is not None and not is_unknown(v) and not isinstance(v, (tuple, str))]
    return all(s_ == sets[0] for s_ in sets[1:]) if sets else False


# ======================================================================================================================= R1
def r1_exponents(ctx):
    fn = None
    for absacce, label in ((True, "absacce"), (False, "pvelo")):
        S, out, fn = _fde(ctx, absacce)
        E = S.E
        if not absacce:
            _bound(ctx, S, "fdepsd [pvelo]", fn)
        psd, peak = _frame(S, out.get("psd")), _frame(S, out.get("peakamp"))
        dis, dit, vt = _frame(S, out.get("di_sig")), _frame(S, out.get("di_test")), _frame(S, out.get("var_test"))
        BA = _strip(S, out.get("binamps"))
        Z = _strip(S, out.get("bincount"))
        gl, bl = ["G1", "G2", "G4", "G8", "G12"], ["b=4", "b=8", "b=12"]
        if absacce:
            # a table this rule cannot read (labels that are not literals, data that is not a dict / a tuple of columns) is not a verdict
            for nm_, tb, msg_ in (("psd / peakamp", None if psd is None or peak is None else 1, "fdepsd: the PSD table columns G1, G2, G4, G8, G12 are taken from the locals of those names"),
                                  ("di_sig", dis, "fdepsd: di_sig columns b=4, b=8, b=12 hold Df4, Df8, Df12 in that order"),
                                  ("di_test / var_test", None if dit is None or vt is None else 1, "fdepsd: di_test and var_test columns are ordered b=4, b=8, b=12 as well")):
                if tb is None:
                    ctx.error(msg_, fn, f"the {nm_} table is not pd.DataFrame(<dict or columns>, columns=[literal labels]): " +
                              short(out.get("psd" if nm_.startswith("psd") else ("di_sig" if nm_ == "di_sig" else "di_test")), 200))
            if psd is not None and peak is not None:
                ok = sorted(psd) == sorted(gl) == sorted(peak)
                ctx.check(ok, "fdepsd: the PSD table columns G1, G2, G4, G8, G12 are taken from the locals of those names", fn, None if ok else short(out.get("psd")))
            if dis is not None:
                ok = sorted(dis) == sorted(bl)
                ctx.check(ok, "fdepsd: di_sig columns b=4, b=8, b=12 hold Df4, Df8, Df12 in that order", fn, None if ok else short(out.get("di_sig")))
            if dit is not None and vt is not None:
                ok = sorted(dit) == sorted(bl) == sorted(vt)
                ctx.check(ok, "fdepsd: di_test and var_test columns are ordered b=4, b=8, b=12 as well", fn)
            exps = []
            for b in (4, 8, 12):
                el, cell = _element(S, dis.get(f"b={b}")) if dis else (None, None)
                if cell is None and el is None and dis and sym_of(S.deref(dis.get(f"b={b}"))) is not None:
                    # the column is an array that is filled by one whole-array store (Df4[:] = ..., np.sum(..., out=Df4))
                    cs = S.cells(sym_of(S.deref(dis.get(f"b={b}"))))
                    if len(cs) == 1 and not cs[0][4]["loops"] and not cs[0][4]["guard"] and not is_unknown(cs[0][1]) and _is_full(cs[0][1]) and not cs[0][4]["aug"]:
                        r = _rowsum(cs[0][2]) if not is_unknown(cs[0][2]) and not isinstance(cs[0][2], tuple) else None
                        el, cell = (("rows", r), cs[0]) if r is not None else (None, None)
                want = None
                if isinstance(el, tuple) and el and el[0] == "rows":
                    el = el[1]
                    if sym_of(BA) is not None and Z is not None and not isinstance(Z, tuple):
                        want = E(f"(A ** {b}) * Z", A=BA, Z=Z)           # whole arrays, summed along each row
                elif el is not None and not is_unknown(el) and sym_of(BA) is not None and Z is not None and not isinstance(Z, tuple):
                    el = _unsum(el)
                    want = E(f"(A[_i0] ** {b}) * Z[_i0]", A=BA, Z=Z)
                ok = el is not None and (same(el, want) or same(S.deref(el), S.deref(want)))
                if el is None or want is None or is_unknown(el):
                    exps.append(None)
                    ctx.error(f"fdepsd: damage indicator Df{b} = sum(amplitude^{b} * non-cumulative count)", fn,
                              "the column is not filled element by element from binamps / bincount" if not is_unknown(el) else repr(el))
                    continue
                loc = _local_callables(S, el)
                if not ok and loc:
                    exps.append(None)
                    ctx.error(f"fdepsd: damage indicator Df{b} = sum(amplitude^{b} * non-cumulative count)", cell[3] if cell else fn,
                              {"the element is computed by a local callable this rule cannot follow": loc, "element": short(el)})
                    continue
                exps.append(ok)
                ctx.check(ok, f"fdepsd: damage indicator Df{b} = sum(amplitude^{b} * non-cumulative count)", cell[3] if cell else fn,
                          None if ok else {"element": short(el), "expected": f"binamps[j]**{b} . bincount[j]"})
            if None not in exps:
                ctx.check(all(exps), "fdepsd: fatigue exponents b4, b8, b12 are 4, 8, 12", fn)
        if not (psd and peak and dis and dit and vt) or any(x not in psd or x not in peak for x in gl) or any(x not in dis or x not in dit or x not in vt for x in bl):
            ctx.error(f"fdepsd [{label}]: output tables", fn)
            continue
        # var_test column b is (Df_b / Dt_b)^(2/b)
        for b in (4, 8, 12):
            s2, Df, Dt = vt[f"b={b}"], dis[f"b={b}"], dit[f"b={b}"]
            try:
                lhs = need(s2) ** (b // 2) * need(Dt)
                ok = any(lhs.equals(need(Df) * c) for c in ((1,) if absacce else (1, 2 ** (b // 2))))
            except Unsupported as e:
                ctx.error(f"fdepsd [{label}]: sig2_{b}", fn, str(e))
                continue
            if not ok and not _decisive(lhs, need(Df)):
                ctx.error(f"fdepsd [{label}]: the test variance for b={b} is (Df{b}/Dt{b})^(2/{b})", fn, {"not comparable (logarithms / exponentials of different arguments)": short(s2)})
                continue
            ctx.check(ok, f"fdepsd [{label}]: the test variance for b={b} is (Df{b}/Dt{b})^(2/{b})", fn, None if ok else short(s2))
        # Miles:  peak^2 = 2 ln(N0) sigma^2,  sigma^2 = G * M
        M = E("np.pi / 2 * freq * Q") if absacce else E("Q / (8 * np.pi * freq)")
        K = 2 * E("np.log(freq * T0)") * M
        AM = _strip(S, peak["G1"])
        am = S.cells(sym_of(AM)) if sym_of(AM) else []
        # the G1 peak amplitude: the largest amplitude of the cycle table (max of its 'amp' column); a recognisably different statistic or column
        # is wrong, anything else is not read
        peak_kind = None
        if len(am) == 1 and not is_unknown(am[0][2]) and not isinstance(am[0][2], tuple):
            u = app(am[0][2])
            col = _cycle_col(u[1][0]) if u is not None and u[0] in REDUCERS and len(u[1]) == 1 and not isinstance(u[1][0], str) else None
            if col is not None:
                peak_kind = "ok" if (u[0] == "call:np.max" and col[1] == "amp") else "other"
        g1msg = ("fdepsd [absacce]: G1 = Amax^2/(2 ln(N0) M) with Miles' M = (pi/2) f Q - the same M as srs.vrs's z_miles^2/PSD (N0 = f T0), Amax the largest cycle amplitude"
                 if absacce else
                 "fdepsd [pvelo]: G1 = Amax^2/(2 ln(N0) M) with M = Q/(8 pi f) (Miles' relation for pseudo velocity; N0 = f T0), Amax the largest cycle amplitude")
        try:
            alg = (need(AM) ** 2).equals(need(psd["G1"]) * K)
            dec = alg or _decisive(need(AM) ** 2, need(psd["G1"]) * K)
        except Unsupported:
            alg, dec = False, False
        if peak_kind is None or not dec:
            ctx.error(g1msg, fn, {"G1": short(psd["G1"]), "peak": short(AM), "peak filled with": [short(c[2], 160) for c in am][:2],
                                  "why": "the peak amplitude is not read as a statistic of the cycle table" if peak_kind is None else "logarithms of different arguments"})
        else:
            ok = peak_kind == "ok" and alg
            ctx.check(ok, g1msg, fn, None if ok else {"G1": short(psd["G1"]), "peak": short(AM), "peak filled with": [short(c[2], 160) for c in am][:2]})
        dec = True
        try:
            p2 = S.deref(peak["G2"])
            ok = (need(p2) ** 2).equals(need(psd["G2"]) * K)
            dec = ok or _decisive(need(p2) ** 2, need(psd["G2"]) * K)
            g2 = sym_of(need(p2) ** 2)
            if ok and g2 is None:
                dec = False          # the squared G2 peak is not one array this rule can follow to its creation
            ok = ok and g2 is not None and same(S.init(g2), need(AM) ** 2)
        except Unsupported:
            ok = False
        if not dec:
            ctx.error(f"fdepsd [{label}]: G2 uses the same factor as G1 (G2/G2max == G1/Amax^2), and G2max starts at Amax^2", fn, short(psd["G2"]))
        else:
            ctx.check(ok, f"fdepsd [{label}]: G2 uses the same factor as G1 (G2/G2max == G1/Amax^2), and G2max starts at Amax^2", fn, None if ok else short(psd["G2"]))
        oks, dec = [], True
        for b in (8, 12):
            try:
                l_, r_ = need(psd[f"G{b}"]) * need(vt["b=4"]), need(psd["G4"]) * need(vt[f"b={b}"])
                oks.append(l_.equals(r_))
                dec = dec and (oks[-1] or _decisive(l_, r_))
            except Unsupported:
                oks.append(False)
                dec = False
        if not all(oks) and not dec:
            ctx.error(f"fdepsd [{label}]: G4, G8, G12 are obtained from their variances with one and the same factor", fn, oks)
        else:
            ctx.check(all(oks), f"fdepsd [{label}]: G4, G8, G12 are obtained from their variances with one and the same factor", fn, None if all(oks) else oks)
        for b in (4, 8, 12):
            dec = True
            try:
                g = need(S.deref(peak[f"G{b}"]))
                ok = (g * g).equals(need(psd[f"G{b}"]) * K)
                dec = ok or _decisive(g * g, need(psd[f"G{b}"]) * K)
            except Unsupported:
                ok = False
            if not dec:
                ctx.error(f"fdepsd [{label}]: Gmax^2 = G{b} * M * 2 ln(N0) with the arm's own M (Miles consistency)", fn, short(peak[f"G{b}"]))
            else:
                ctx.check(ok, f"fdepsd [{label}]: Gmax^2 = G{b} * M * 2 ln(N0) with the arm's own M (Miles consistency)", fn, None if ok else short(peak[f"G{b}"]))
    vm = ctx.src.func(SRS, "vrs")
    Sv0 = XSem(ctx, vm, run=False, consts={})
    Sv = XSem(ctx, vm, facts=Facts(truths=[(Sv0.E("getmiles"), True), (Sv0.E("getresp"), False)]), consts={})
    rv = Sv.ret()
    ok = False
    if isinstance(rv, tuple) and len(rv) == 2:
        roots = [x for x in walk(rv[1]) if single_atom(x) is not None and F.atom_desc(single_atom(x))[0] == "sqrt"]
        good = []
        for x in roots:
            try:
                w = x * x / Sv.E("np.pi * Q")
                one = w.d.is_const() and len(w.n.t) == 1
                coef = (list(w.n.t.values())[0] / w.d.const_value()) if one else None
                good.append(one and coef == Fraction(1, 2) and not depends(w, "Q") and not depends(w, "pi") and depends(x, "Q"))
            except Unsupported:
                good.append(False)
        ok = bool(good) and all(good)
        if not roots:
            rv = None
    if not (isinstance(rv, tuple) and len(rv) == 2):
        ctx.error("srs.vrs: z_miles^2 = (pi/2) f Q PSD (the reference the absacce arm is compared with)", vm, "the Miles estimate returned by vrs(getmiles=True) is not read as a square root")
    else:
        ctx.check(ok, "srs.vrs: z_miles^2 = (pi/2) f Q PSD (the reference the absacce arm is compared with)", vm, nontrivial=False)


# ======================================================================================================================= R7
def _cmp_atoms(values):
    out = []
    for v in values:
        for nm, a, x in apps(v, "cmp:"):
            if nm[4:] in ("Gt", "GtE", "Lt", "LtE", "Eq", "NotEq") and len(a) == 2 and not any(isinstance(k, str) for k in a):
                if not any(same(x, o[0]) for o in out):
                    out.append((x, a[0], a[1]))
    return out


def _fmt_deg(d):
    return "any (zero)" if d is ANY else ("?" if d is None else str(d))


def r7_amplitude_scaling(ctx):
    """all PSD outputs scale with the square of the input amplitude: every quantity has a degree of homogeneity in the signal (response and
    cycle amplitudes 1, variances 2, counts 0, ...); a comparison that decides a branch or selects cycles must compare quantities of the same
    degree (or with 0), otherwise the decision changes when the signal is expressed in other units; the PSD columns must have degree 2"""
    n = 0
    for absacce, label in ((True, "absacce"), (False, "pvelo")):
        S, out, fn = _fde(ctx, absacce, plain=False)
        D = Degrees(S, {"sig": 1}, tables={"call:cyclecount.rainflow", "call:rainflow"})
        if absacce:
            n += _homogeneous_tests(ctx, S, D, "fdepsd", fn)
        psd = _frame(S, out.get("psd"))
        if not psd:
            ctx.error(f"fdepsd [{label}]: psd table", fn)
            continue
        for k in sorted(psd):
            d = D.of(S.deref(psd[k]))
            if d is None:
                ctx.error(f"fdepsd [{label}]: degree of psd column {k} in the signal amplitude", fn, [short(p[0]) for p in D.problems[:3]] + [short(psd[k])])
            else:
                ctx.check(d == 2, f"fdepsd [{label}]: psd column {k} is homogeneous of degree 2 in the signal amplitude", fn, None if d == 2 else {"degree": _fmt_deg(d), "value": short(psd[k])})
    fd = ctx.src.func(FDE, "_dofde")
    consts = module_consts(ctx, FDE)
    table = module_funcs(ctx, FDE)
    Sd = XSem(ctx, fd, consts=consts, inline={k: v for k, v in table.items() if k not in ("fdepsd", "_dofde", "_mk_par_globals")})
    # the signal of the worker: the module-level array handed to the filter (whatever the global is called)
    roots = {}
    for c in Sd.calls("signal.lfilter", "lfilter", "scipy.signal.lfilter"):
        x = placed(c, ["b", "a", "x"]).get("x")
        if sym_of(x) is not None and sym_of(x) not in Sd.ev.locals_:
            roots[sym_of(x)] = 1
    if not roots:
        roots = {"SIG_": 1}
    Dd = Degrees(Sd, roots, tables={"call:cyclecount.rainflow", "call:rainflow"})
    n += _homogeneous_tests(ctx, Sd, Dd, "_dofde", fd)
    _bound(ctx, Sd, "_dofde", fd)
    if n >= 4:
        ctx.ok(f"scale-invariance rule bound to {n} amplitude comparisons in fdepsd and _dofde", FDE + ":1", nontrivial=False)
    else:
        ctx.error(f"scale-invariance rule bound to {n} amplitude comparisons in fdepsd and _dofde (4 expected: the rule does not see the comparisons it is about)", FDE + ":1")


def _top_loop(fn, node):
    """line of the outermost for / while statement of `fn` that contains `node`; 0 when the node is in fn but in no loop; None when the node is not
    in fn's own text (code of an inlined helper, a synthesised node)"""
    ln = getattr(node, "lineno", None)
    if ln is None or not (fn.lineno <= ln <= fn.end_lineno):
        return None
    stack = list(fn.body)
    while stack:
        st = stack.pop()
        if not (st.lineno <= ln <= getattr(st, "end_lineno", st.lineno)):
            continue
        if isinstance(st, (ast.For, ast.While)):
            return st.lineno
        if isinstance(st, (ast.FunctionDef, ast.AsyncFunctionDef, ast.ClassDef)):
            return None
        for f_ in ("body", "orelse", "finalbody", "handlers"):
            for x in getattr(st, f_, []) or []:
                if isinstance(x, ast.ExceptHandler):
                    stack += x.body
                elif isinstance(x, ast.stmt):
                    stack.append(x)
        if isinstance(st, ast.Match):
            for cs in st.cases:
                stack += cs.body
    return 0


def _homogeneous_tests(ctx, S, D, q, fn):
    n = 0
    where, when = {}, {}
    for t in S.tr.tests:
        for x in _cmp_atoms([t[0]]):
            where.setdefault(repr(x[0]), t[1])
            if len(t) > 4:
                when[repr(x[0])] = min(when.get(repr(x[0]), t[4]), t[4])
    for c in S.cells():
        for x in _cmp_atoms([c[1], c[2]]):
            where.setdefault(repr(x[0]), c[3])
            when[repr(x[0])] = min(when.get(repr(x[0]), c[4]["seq"]), c[4]["seq"])
    for cmpv, a, b in _cmp_atoms(_all_values(S)):
        # the arrays a comparison reads are judged with the content they had when it was made (a row of levels that is re-scaled afterwards
        # still held the unit levels)
        at = when.get(repr(cmpv))
        born = getattr(S.tr, "born", {}).get((cmpv.n.key(), cmpv.d.key()))
        if born is not None and (at is None or born < at):
            at = born           # formed (in a helper, a comprehension) before the statement that uses it: its operands were read by then
        da, db = D.asof(a, at), D.asof(b, at)
        zero = (Fraction(0), ANY)
        if da in zero and db in zero:
            continue            # nothing that scales with the signal on either side
        n += 1
        node = where.get(repr(cmpv), fn)
        if da is None or db is None:
            ctx.error(f"{q}: degree of `{short(cmpv, 160)}` in the signal amplitude", node, {"left": _fmt_deg(da), "right": _fmt_deg(db), "why": [short(p[0]) for p in D.problems[:3]]})
            continue
        ok = da is ANY or db is ANY or da == db
        exact = born is not None and at == born and getattr(S.tr, "born_exact", {}).get((cmpv.n.key(), cmpv.d.key())) is True
        if not ok and not exact:
            # (pass 5) a value does not say *when* the arrays in it were read: `levels = B[j] * amax; B[j] = levels; ... amp >= levels[k]` reads the row
            # before it was re-scaled although the comparison is made afterwards.  When the operands agree under the content the arrays had
            # before one of the earlier stores into an array they read, the verdict depends on the read time - not decided, never a violation
            # (only a store made in the same pass through the same outermost loop can come between a read and the comparison; a loop that
            # was finished before the comparison's loop started cannot; code inlined from helpers has no place in fdepsd's own loops: unknown)
            read = {sym_of(peel(x)[0]) for o in (a, b) for x in walk(o)} - {None}
            here = _top_loop(fn, node)
            early = sorted({cx["seq"] for c, cx in zip(S.tr.cells, S.tr.cellx) if c[0] in read and (at is None or cx["seq"] <= at)
                            and (here is None or _top_loop(fn, c[3]) in (None, here))})
            amb = False
            for t in early:
                ea, eb = D.asof(a, t - 1), D.asof(b, t - 1)
                if ea is not None and eb is not None and (ea is ANY or eb is ANY or ea == eb):
                    amb = True
                    break
            if amb:
                ctx.error(f"{q}: degree of `{short(cmpv, 160)}` in the signal amplitude", node,
                          {"left": _fmt_deg(da), "right": _fmt_deg(db), "why": "the operands read an array that is re-scaled in between; with its earlier content both sides agree"})
                continue
        ctx.check(ok, f"{q}: the comparison `{short(cmpv, 110)}` is scale-invariant (both sides have the same degree in the signal amplitude, or one side is 0)", node,
                  None if ok else {"degree of the left side": _fmt_deg(da), "degree of the right side": _fmt_deg(db), "comparison": short(cmpv),
                                   "consequence": "the branch taken depends on the units of the input signal, so the outputs no longer scale with amplitude^2"})
    return n


def _under(v, facts):
    """resolve ite(...) nodes of a value whose condition the facts decide"""
    for _ in range(8):
        u = app(v, "ite")
        if u is None:
            return v
        t = truth(u[1][0], facts)
        if t is None:
            return v
        v = u[1][1] if t else u[1][2]
    return v


RULES = [
    ("C10-R1", careful(r1_exponents), 27),
    ("C10-R3", careful(r3_telescoping), 9),
    ("C10-R5", careful(r5_binify_guards), 28),
    ("C10-R6", careful(r6_tolerance_strictness), 20),
    ("C10-R7", careful(r7_amplitude_scaling), 14),
]
LEVEL = "other"
EXPLANATION = ("Static, decided on values (functions evaluated on symbols, helpers followed, every branch visited with its guard): binify's dropped index guard is "
               "sound only if getbins' out-of-bounds verdict is the exact complement of numpy.digitize's half-open intervals - the verdict's truth table is "
               "evaluated for both `right` settings; all peak-picking tolerance comparisons are strict and share one tolerance formula; the vectorised findap's "
               "interior reversal test is compiled to a function of the window (k-1, k, k+1) of retained samples and evaluated on every 3-sample signal over five values "
               "(exact arithmetic: marked iff strict local extreme) and on every int8 signal [0, d0, d0+d1] with numpy's wrap-around arithmetic (sign-exact in the "
               "signal's own dtype: no product of slopes unless converted to float); the last retained sample stays marked; fdepsd's exponent/label agreement, (Df/Dt)^(2/b), Miles consistency of "
               "G1/G2/Gb/peak amplitudes in both response arms (symbolic), telescoping of BinCount on a generic count vector; dimensional homogeneity: every "
               "comparison in fdepsd/_dofde compares quantities of the same degree in the signal amplitude and the PSD columns have degree 2.")
MANIFEST = {
    "text": "Thin partial claim decided statically: (R5) getbins/_binify/binify guard flow and half-open interval agreement with numpy.digitize; (R6) strict tolerance "
            "comparisons and one tolerance formula shared by locate.find_unique and both findap variants, the vectorised findap's reversal test decided element by element on retained samples "
            "(truth table over 3-sample signals in exact arithmetic and exhaustively in int8 wrap-around arithmetic: a product of two slopes in the signal's own "
            "dtype is not sign-safe), last retained sample always marked; (R1) fdepsd exponent/label agreement and Miles consistency per response arm; (R3) BinCount telescopes to the total "
            "cycle count, cumulative counts are counts of amplitude >= level; (R7) amplitude-square scaling as dimensional homogeneity (scale-invariant "
            "comparisons, PSD columns of degree 2). The serial==parallel clause is decided under C09. Not decided: findap's alternation / extreme capture on "
            "data (the plateau-drift counter-example of the property is value-level; the two findap variants are different algorithms and provably disagree "
            "on it, so no cross-variant agreement rule exists), G2 >= G1, amplitude <= SRS peak, scale-invariance of findap/rainflow themselves, dtype safety of the loop (numba) variant "
            "of findap, underflow of slope products on float signals (|slope| < 1e-162).",
    "note": "Trusted: CPython ast; numpy.digitize's documented interval semantics (embedded as a two-row table); numpy's fixed-width integer arithmetic (sums, differences, products and "
            "abs of same-dtype integers wrap around; comparisons, sign and conversions to float are exact; Python integers adopt the array's dtype); linearity of scipy.signal.lfilter / detrend / "
            "dsp.windowends / the resampling functions in the signal; verifier/e2_formula.py, verifier/e2_eval.py, verifier/c10_sem.py.",
    "technique": "symbolic evaluation of the anchored functions (guards as truth tables on small numeric models, values as rational normal forms) + "
                 "dimensional (degree-of-homogeneity) analysis + small-vector telescoping check",
}
