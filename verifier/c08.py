"""C08 -- step-wise generator == batch solver for any send history (partial claim).

Every rule decides on *values*: a generator body is executed symbolically for one configuration of the solver object and one kind of send
(verifier/c08_gen.py), array accesses are references (array, partition, column) however the source reaches them, the state that survives from
one send to the next is found by def-use (whatever the locals are called, whether it lives in locals, a tuple, a dict, a namespace or a small
record class), and the expected side is one generic time step of the batch solver evaluated by the same engine (verifier/c08_batch.py) / a formula.
A value the engine cannot lower, a call whose effects on the arrays it cannot follow, a state structure it cannot place: ANALYSIS-ERROR, never a
verdict; a store that is provably absent or provably different: VIOLATION.

Third pass: whenever a helper / sub-generator / dispatch is not followed exactly the affected values are Unknown (or the arm is abandoned), never
compared: objects updated in place are tracked by identity across helper frames (and only where the object is provably an array - an induction
over sends checked on what every kind of send leaves behind), a failed comparison whose values contain an uninterpreted call is undecided, a
local bound to a function the engine cannot call abandons the arm.  What the engine proves before it has to stop (a NameError on the taken path,
an endless loop without yield, time histories of different lengths in one expression) is still reported."""
from __future__ import annotations

import ast

from . import c08_gen as G
from . import e2_formula as F
from . import ode_spaces as O
from . import sem
from .c08_gen import F1ALL, J, NONE, Facts, GenEval, depends, free_syms, is_all, symname
from .core import AnchorError, Unsupported
from .e1_srcmodel import dotted, walk_no_nested, utext
from .e2_eval import Unknown, is_unknown, need

UNC, SE2, BASE = O.UNC, O.SE2, O.BASE
CDF = "pyyeti/ode/solvecdf.py"

D0, V0, F0, F1 = F.sym("@d0"), F.sym("@v0"), F.sym("@f0"), F.sym("@f1")
F1RF, F0RB, F1RB = F.sym("@f1rf"), F.sym("@f0rb"), F.sym("@f1rb")
COEF = {c: F.sym(c) for c in ("F", "G", "A", "B", "Fp", "Gp", "Ap", "Bp")}
BO, ALPHA, IKRF = F.sym("bo"), F.sym("alpha"), F.sym("ikrf")
STALE = F.sym("stale_cache")

# values of the solver's attributes (one symbol per attribute, shared with the batch side)
_PC = ("F", "G", "A", "B", "Fp", "Gp", "Ap", "Bp", "alpha", "Fe", "Ae", "Be", "ur_d", "ur_v", "ur_inv_v", "ur_inv_d", "rur_d", "iur_d", "rur_v", "iur_v")
_SELF = ("bo", "ikrf", "invm", "imrb", "P", "Q", "E_dd", "E_dv", "E_vd", "E_vv", "m", "b", "k")

# canonical names of the array references the rules talk about: (array, partition, column) -> symbol
REFNAME = {("d", "k", "prev"): "@d0", ("v", "k", "prev"): "@v0", ("force", "k", "prev"): "@f0", ("f1", "k", "all"): "@f1", ("f1", "rf", "all"): "@f1rf",
           ("f1", "rb", "all"): "@f1rb", ("force", "rb", "prev"): "@f0rb", ("d", "rb", "prev"): "@drb0", ("v", "rb", "prev"): "@vrb0"}


def _mentions_opaque(detail):
    """the values shown with a failed comparison contain a call the engine did not interpret (printed `call:<name>(...)`)"""
    if detail is None:
        return False
    try:
        import json
        t = detail if isinstance(detail, str) else json.dumps(detail, default=repr)
    except Exception:  # noqa
        t = repr(detail)
    import re
    deliberate = set(NOT_FOLLOWED) | {q_.split(".")[-1] for _, q_, _ in GENS.values()} | {"super", "next", "send", "__next__", "type", "SimpleNamespace"}
    return any(nm.split(".")[-1] not in deliberate for nm in re.findall(r"call:([\w.#]*)\(", t))


def _stopped(ctx, label, where, e):
    """the engine had to stop (Unsupported): an analysis error - unless it had already proved that the send dies on the way"""
    cr = getattr(e, "crashes", None)
    if cr:
        msg, st_ = cr[0]
        ctx.fail(label + ": the send runs through", st_ if st_ is not None else where, {"crash": msg, "then": str(e)[:200]})
    else:
        ctx.error(label, where, str(e))


def _crash_in(detail):
    """the reason when every undetermined value shown with a failed comparison is undetermined because of a definite NameError"""
    import json
    import re
    if detail is None:
        return None
    try:
        t = detail if isinstance(detail, str) else json.dumps(detail, default=repr)
    except Exception:  # noqa
        t = repr(detail)
    if "Unknown(" not in t:
        return None
    hits = re.findall(r"Unknown\(((?:local|name) `[^`]+` is not (?:bound on this path|defined))\)", t)
    return hits[0] if hits and len(hits) == t.count("Unknown(") else None


_VALUE_RULES = ("C08-R1", "C08-R2", "C08-R2c", "C08-R3", "C08-R3c", "C08-R4", "C08-R5")     # (calls a rule deliberately does not follow are not "uninterpreted")


def _fail(ctx, instance, where=None, detail=None, key=None):
    """a comparison that failed on a value containing a call the engine does not interpret (a library routine it has no model of, a function
    it did not follow) is not decided: what the call computes is not known, so the values were never comparable"""
    crash = _crash_in(detail)
    if key is None and crash:
        # a value is undetermined because the path reads a name nothing has bound: the code provably dies there (NameError / UnboundLocalError)
        ctx.fail(instance, where, {"crash": crash})
        return
    if key is None and ctx.rule in _VALUE_RULES and _mentions_opaque(detail):
        ctx.error(instance + " [not decided: a value reaching this comparison contains a call the engine does not interpret]", where, detail)
        return
    ctx.fail(instance, where, detail, key)


def _check(ctx, cond, instance, where=None, detail=None, key=None, nontrivial=True):
    if cond:
        ctx.ok(instance, where, detail, nontrivial)
    else:
        _fail(ctx, instance, where, detail, key)
    return cond


def refsym(arr, rn, cn):
    return F.sym(REFNAME.get((arr, rn, cn), f"@{arr}.{rn}.{cn}"))


# ---------------------------------------------------------------------------------------------------------------- configurations
def attr_env():
    env = {f"self.pc.{c}": F.sym(c) for c in _PC}
    env.update({f"self.{c}": F.sym(c) for c in _SELF})
    return env


def cfg_env(cfg, which=None, extra_truths=()):
    """environment + facts of one configuration.  cfg: order 0/1, rf, k, rb (partitions present), m None/'unc'/'coupled', real, cdf, unc"""
    env = attr_env()
    signs = {}
    env["self.order"] = F.const(cfg.get("order", 1))
    for key, nm in (("rf", "self.rfsize"), ("k", "self.ksize"), ("rb", "self.rbsize")):
        if cfg.get(key, True):
            env[nm] = F.sym(nm)
            signs[nm] = "+"
        else:
            env[nm] = F.const(0)
    env["self.nonrfsz"] = env["self.ksize"]             # _common_precalcs: both are nonrf.size (SolveUnc.get_su_eig re-partitions ksize only in mode E)
    m = cfg.get("m", "unc")
    if m is None:
        env["self.m"] = NONE
    unc = cfg.get("unc", m in (None, "unc"))
    env["self.systype"] = F.sym("float") if cfg.get("real", True) else F.sym("complex")
    truths = [(F.sym("self.unc"), bool(unc)), (F.sym("self.cdforces"), bool(cfg.get("cdf", False))), (F.sym("self.slices"), cfg.get("slices", True)),
              (F.sym("self.pre_eig"), False), (F.sym("self.h"), True), (F.sym("self.pc"), True)]
    truths += list(extra_truths)
    if which is not None:
        signs["j"] = "-" if which == "addon" else "+"        # documented domain: send(i, f) with 1 <= i, send(-1, f)
    return env, Facts(truths=truths, signs=signs)


class Canon:
    """reference hook of a generator body: which array, which partition, which column (by value)"""

    def __init__(self, fn, cfg, mode, which=None):
        self.which = which
        names = [a.arg for a in fn.args.args]
        self.root = {names[1]: "d", names[2]: "v", "self._force": "force", "F1all": "f1"}
        if mode == "E":
            self.root[names[3]] = "a"
        self.root[names[-1]] = "f0p"
        self.cfg, self.mode = cfg, mode
        self.index_vars = set()

    def classify(self, root, rows, col):
        arr = self.root.get(symname(root)) if root is not None else None
        rn = None
        if rows is not None:
            rn = "all" if is_all(rows) else {"self.kdof": "k", "self.rf": "rf", "self.rb": "rb"}.get(symname(rows))
            if rn is None and self.mode == "U" and symname(rows) == "self.nonrf":
                rn = "k"                 # _common_precalcs: kdof = nonrf (only get_su_eig, mode E, narrows kdof to the elastic set)
        if rn == "all" and self.mode == "U":
            # where there are no rf equations the non-rf set is everything; where there are only rf equations the rf set is
            if self.cfg.get("k", True) and not self.cfg.get("rf", True):
                rn = "k"
            elif self.cfg.get("rf", True) and not self.cfg.get("k", True):
                rn = "rf"
        return arr, rn, self.colname(col)

    def colname(self, col):
        if col is None or is_unknown(col) or isinstance(col, tuple):
            return None
        if is_all(col):
            return "all"
        if col.is_const() and col.const_value() == 0:
            return "0"
        if self.which == "addon":
            # an add-on (j < 0) works on the step solved last: the column is the index the earlier send left behind, never the sent j
            if (symname(col) or "").startswith("carry:"):
                self.index_vars.add(symname(col)[6:])
                return "cur"
            return None
        if col.equals(J - 1):
            return "prev"
        if col.equals(J):
            return "cur"
        return None

    def __call__(self, ev, root, rows, col):
        arr, rn, cn = self.classify(root, rows, col)
        if arr is None or rn in (None, "all") or cn is None:
            return None
        if arr in ("f1", "f0p"):
            return refsym(arr, rn, cn) if cn == "all" else None
        if cn == "all":
            return None
        return refsym(arr, rn, cn)


class Arm:
    """one symbolic iteration of a generator loop"""

    def __init__(self, ev, canon):
        self.ev, self.canon, self.loop = ev, canon, ev.loop
        self.lev = ev.loop_ev or ev          # the evaluator that ran the receiving loop (a `yield from` sub-generator, or ev itself)
        self.crashes = list(ev.facts.crashes)  # names read on this path that nothing has bound
        self.cells, self.pre_cells = [], []
        for c in ev.gcells:
            key = canon.classify(c["root"], c["rows"], c["col"]) if c["root"] is not None else (None, None, None)
            rec = dict(c, key=key)
            try:
                # what a load of the cell gives before the iteration stores into it (a plain store `X[:, i] = X[:, i] + inc` is an increment too)
                rec["content"] = ev.mkref(c["root"], c["rows"], c["col"]) if c["root"] is not None and c["col"] is not None else None
            except Exception:  # noqa
                rec["content"] = None
            (self.cells if c["in_loop"] else self.pre_cells).append(rec)

    def cell(self, arr, rn, cn="cur"):
        """the net effect of the iteration on a cell: the value it holds after the last store (a load of a cell stored earlier in the iteration
        reads the stored value), relative to its content before the first one"""
        hit = [c for c in self.cells if c["key"] == (arr, rn, cn)]
        if len(hit) > 1:
            k = max((n for n, c in enumerate(hit) if c["cur"] is None), default=0)      # (a plain store forgets the content)
            return dict(hit[-1], cur=hit[k]["cur"])
        return hit[-1] if hit else None

    def value(self, arr, rn, cn="cur"):
        c = self.cell(arr, rn, cn)
        return None if c is None else c["value"]

    def final(self, name):
        return self.lev.slot_value(name)

    @property
    def carried(self):
        return self.lev.carried

    @property
    def carry_init(self):
        return self.lev.carry_init


GENS = {
    "real": (UNC, "SolveUnc._solve_real_unc_generator", "U"),
    "cdf": (UNC, "SolveUnc._solve_real_unc_generator_cdforces", "U"),
    "complex": (UNC, "SolveUnc._solve_complex_unc_generator", "E"),
    "se2": (SE2, "SolveExp2._solve_se2_generator", "U"),
}


NOT_FOLLOWED = ("_delconj", "_addconj", "_calc_acce_kdof", "_init_dva_part", "_init_dva", "_alloc_dva", "generator", "tsolve", "fsolve", "finalize")


def _inline(ctx, kind):
    cache = ctx.__dict__.setdefault("_c08_inline", {})
    if kind not in cache:
        if kind == "se2":
            specs = [(SE2, "SolveExp2"), (BASE, "_BaseODE")]
        else:
            specs = [(UNC, "SolveUnc"), (BASE, "_BaseODE")]
        cache[kind] = G.inline_table(ctx, specs, exclude=NOT_FOLLOWED)
    return cache[kind]


def array_shapes(env, fn, mode):
    """dimensions of the arrays a body may ask `.shape` of: the time histories are (n, nt), the solver's matrices by their partition"""
    n, nt = F.sym("@n"), NT
    names = [a.arg for a in fn.args.args]
    sh = {names[1]: (n, nt), names[2]: (n, nt), "self._force": (n, nt)}
    if mode == "E":
        sh[names[3]] = (n, nt)
    k = env["self.ksize"]
    for c in ("E_dd", "E_dv", "E_vd", "E_vv", "bo", "alpha"):
        sh[c] = (k, k)
    for c in ("P", "Q"):
        sh[c] = (2 * k, k)
    for c in ("F", "G", "A", "B", "Fp", "Gp", "Ap", "Bp"):
        sh[c] = (k,)
    return sh


NT = F.sym("@nt")


def run_arm(ctx, kind, cfg, which, carry=None, generic=(), generic_prefix=None, sided=False, two_steps=False, jw=None, side=None):
    """evaluate generator `kind` for the configuration and the kind of send; memoised per run.  jw: a world for the sent index of a positive
    send - 1: the first step is sent (j = 1), 2: a later one (j >= 2) - for tests the documented domain j >= 1 alone does not decide.
    side: '+' / '-' - the histories in which the generic step index an earlier send left behind lies far after / far before the sent step
    (for order comparisons of step indices, which "differs from whatever it is compared with" does not decide)"""
    key = (kind, tuple(sorted((k, str(v)) for k, v in cfg.items())), which, tuple(sorted((k, repr(v)) for k, v in (carry or {}).items())),
           tuple(sorted(generic)), generic_prefix, sided, two_steps, jw, side)
    cache = ctx.__dict__.setdefault("_c08_arms", {})
    if key in cache:
        r = cache[key]
        if isinstance(r, Exception):
            raise r
        return r
    rel, qual, mode = GENS[kind]
    fn = ctx.src.func(rel, qual)

    no_assume = set()

    def make(which_, carry_, generic_, prefix_, heap_carried):
        env, facts = cfg_env(cfg, which_)
        facts.no_assume = set(no_assume)
        facts.generic = set(generic_)
        facts.generic_prefix = prefix_
        facts.generic_side = side
        # a message can only be sent when there are at least two time steps: columns of the time histories
        facts.ge2 = [NT]
        facts.ge2_exact = two_steps
        if jw == 1 and which_ == "pos":
            facts.pin = {"j": F.const(1)}
        elif jw == 2 and which_ == "pos":
            facts.ge2 = [NT, J]
        canon = Canon(fn, cfg, mode, which_)
        ev = GenEval(ctx, fn, env=env, facts=facts, inline=_inline(ctx, kind), refhook=canon, carry=carry_, sided=sided,
                     shapes=array_shapes(env, fn, mode), heap_carried=heap_carried)
        ev.tracked, ev.opaque_ok = (lambda v: symname(v) in canon.root), frozenset(NOT_FOLLOWED)
        try:
            ev.run(fn.body)
        except Unsupported as e:
            if not facts.lost:
                e.crashes = list(facts.crashes)      # what the engine had proved before it had to stop
            raise
        if facts.lost:
            raise Unsupported(f"{qual}: {facts.lost[0]}")
        if ev.loop is None:
            raise Unsupported(f"{qual}: no generator loop is reached in configuration {cfg}")
        return ev, canon

    try:
        ev, canon = make(which, carry, generic, generic_prefix, None)
        if (ev.loop_ev or ev).heap_entry:
            # mutable objects (namespace, dict) alive across sends: only the slots some send stores into are state, the others are constants
            hkey = ("heap", key[0], key[1])
            if hkey not in cache:
                written = set()
                for w in ("pos", "addon"):
                    evd, _ = make(w, None, (), "carry:", None)
                    written |= set((evd.loop_ev or evd).heap_written) & set((evd.loop_ev or evd).heap_entry)
                cache[hkey] = frozenset(written)
            ev, canon = make(which, carry, generic, generic_prefix, cache[hkey])
    except Unsupported as e:
        cache[key] = e
        raise
    arm = Arm(ev, canon)
    cache[key] = arm
    if ev.facts.assumed_arrays:
        # an in-place update (`x += y` through another name / inside a helper) of a value an earlier send left behind was followed because that
        # value starts as an array: by induction over sends it must stay one, i.e. every kind of send must leave an array there.  Where that cannot
        # be shown the arm is evaluated again without the assumption: what the other names of the object hold after the update is then unknown
        # (and only the obligations that look at them are undecided)
        bad = set()
        try:
            others = [] if which == "pos" else [a_ for a_ in _generic_arms(ctx, kind, cfg) if a_.canon.which == "pos"]
        except Unsupported:
            others, bad = [], set(ev.facts.assumed_arrays)
        for slot in sorted(ev.facts.assumed_arrays):
            for a_ in [arm] + others:
                fv = a_.final(slot)
                if fv is not None and a_.lev.is_array(fv) is not True:
                    bad.add(slot)
        if bad:
            no_assume |= bad
            try:
                ev, canon = make(which, carry, generic, generic_prefix, cache.get(("heap", key[0], key[1])))
            except Unsupported as e:
                cache[key] = e
                raise
            arm = Arm(ev, canon)
            cache[key] = arm
    return arm


def cfg_tag(cfg):
    parts = [f"order {cfg.get('order')}"]
    for k, lab in (("rf", "rf"), ("k", "non-rf"), ("rb", "rb")):
        if k in cfg:
            parts.append(f"{lab} {'yes' if cfg[k] else 'no'}")
    if "m" in cfg:
        parts.append(f"m {cfg['m'] or 'None'}")
    if "real" in cfg:
        parts.append("real system" if cfg["real"] else "complex system")
    if "unc" in cfg and "m" not in cfg:
        parts.append("uncoupled" if cfg["unc"] else "coupled")
    return ", ".join(parts)


def u_configs(with_k_false=True):
    out = []
    for order in (1, 0):
        for rf in (True, False):
            out.append({"order": order, "rf": rf, "k": True})
        if with_k_false:
            out.append({"order": order, "rf": True, "k": False})
    return out


def se2_configs():
    out = []
    for order in (1, 0):
        for m in (None, "unc", "coupled"):
            for rf in (True, False):
                out.append({"order": order, "rf": rf, "k": True, "m": m, "unc": m != "coupled"})
        for unc in (True, False):
            out.append({"order": order, "rf": True, "k": False, "unc": unc, "m": "unc" if unc else "coupled"})
    return out


def cx_configs():
    out = []
    for order in (1, 0):
        for mass in (None, "unc", "coupled"):
            for real in (True, False):
                out.append({"order": order, "m": mass, "real": real, "rb": True, "k": True, "rf": True, "unc": mass != "coupled"})
    return out


def _all_generator_loops(fn):
    return [n for n in walk_no_nested(fn) if isinstance(n, (ast.While, ast.For)) and G._has_yield(n)]


# ---------------------------------------------------------------------------------------------------------------- carried state
def carried_roles(arms):
    """{carried name: set of roles} over the given arms of one loop.  Roles: 'index' (column of a store), 'value' (enters a stored value
    or a live carried value), 'test' (decides a branch).  A name none of whose earlier values can be observed has no entry."""
    cands = []
    for a in arms:
        for c in a.carried:
            if c not in cands:
                cands.append(c)
    roles = {}

    def add(c, r):
        roles.setdefault(c, set()).add(r)

    for a in arms:
        for c in cands:
            s = "carry:" + c
            for cell in a.cells:
                if depends(cell["value"], s):
                    # the current content of an augmented store is addressed, not used, by the index variable
                    v = cell["value"]
                    if cell["cur"] is not None and not is_unknown(v) and not is_unknown(cell["cur"]) and not isinstance(v, tuple):
                        v = v - cell["cur"]
                    if depends(v, s):
                        add(c, "value")
                for part in (cell["rows"], cell["col"]):
                    if part is not None and depends(part, s):
                        add(c, "index")
            for t in a.ev.facts.tests:
                if depends(t, s):
                    add(c, "test")
    changed = True
    while changed:
        changed = False
        for x in list(roles):
            for a in arms:
                fv = a.final(x)
                if _eq(fv, a.lev.carry_over.get(x, F.sym("carry:" + x))):
                    continue                  # left as it was found: nothing flows into it
                for c in cands:
                    if c != x and depends(fv, "carry:" + c) and "value" not in roles.get(c, ()):
                        add(c, "value")
                        changed = True
    return roles


def _undecided(arm):
    """stored / carried values of the iteration that are unknown because a test was not decided"""
    vals = [c["value"] for c in arm.cells] + [arm.final(k) for k in arm.carried]
    return [v for v in vals if is_unknown(v) and "undecided" in v.why]


def _generic_arms(ctx, kind, cfg):
    try:
        arms = [run_arm(ctx, kind, cfg, w, generic_prefix="carry:") for w in ("pos", "addon")]
        if not _undecided(arms[0]):
            return arms
    except Unsupported as e:
        if "undecided test" not in str(e):
            raise
    # a test the domain j >= 1 does not decide (a tag that never changes compared with j - 1 ...): the first send and the later ones apart
    try:
        later = [run_arm(ctx, kind, cfg, w, generic_prefix="carry:", jw=2) for w in ("pos", "addon")]
        later = later + [run_arm(ctx, kind, cfg, "pos", generic_prefix="carry:", jw=1)]
        if not any(_undecided(a_) for a_ in later):
            return later
    except Unsupported as e:
        if "undecided test" not in str(e):
            raise
    # an order comparison of step indices (`i < i_last`): "whatever step was solved last" falls into the histories in which that step lies
    # after the sent one and those in which it lies before it; both are evaluated (positive and add-on send in each)
    out = []
    for sd in ("-", "+"):
        out += [run_arm(ctx, kind, cfg, w, generic_prefix="carry:", side=sd) for w in ("pos", "addon")]
    return out


def _find_state(ctx, kind, cfg):
    """(index variable, tag, cache, roles) of the loop of this configuration, found by def-use"""
    arms = _generic_arms(ctx, kind, cfg)
    roles = carried_roles(arms)
    tags = [c for c, r in roles.items() if "test" in r]
    if len(tags) > 1:
        raise Unsupported(f"more than one carried value decides a branch: {sorted(tags)}")
    if tags:
        valid = run_arm(ctx, kind, cfg, "pos", carry={tags[0]: J - 1})
        first = [c for c, r in roles.items() if "index" in r and c != tags[0]]
        if len(first) == 1:
            # an add-on follows a positive send, which leaves tag == step index (both obligations of R1): its arm is evaluated in that world,
            # so a test of the tag in the add-on arm (`if i_last == i: ...`) is decided by meaning
            arms[1] = run_arm(ctx, kind, cfg, "addon", carry={tags[0]: F.sym("carry:" + first[0])}, generic_prefix="carry:")
        arms = arms + [valid]
        roles = carried_roles(arms)
        if not any("value" in r for r in roles.values()):
            # the guard may let the cached value through for another step than j-1 (a wrong guard): look at the other worlds as well
            for w_ in (J, J + 1, J - 2):
                try:
                    arms = arms + [run_arm(ctx, kind, cfg, "pos", carry={tags[0]: w_})]
                except Unsupported:
                    continue
                roles = carried_roles(arms)
                if any("value" in r for r in roles.values()):
                    break
    index = [c for c, r in roles.items() if r == {"index"}]
    cache = [c for c, r in roles.items() if "value" in r and "index" not in r and "test" not in r]
    return index, tags, cache, roles, arms


def addon_arm(ctx, kind, cfg):
    """the add-on arm of a configuration (for the damping-as-force generator: in the world a positive send leaves behind)"""
    if kind == "cdf" and cfg.get("k", True):
        return _find_state(ctx, kind, cfg)[4][1]
    return run_arm(ctx, kind, cfg, "addon", generic_prefix="carry:")


def r1_carried_state(ctx):
    nloops = 0
    nconf = 0
    covered = {}
    for kind, configs in (("real", u_configs()), ("cdf", u_configs()), ("complex", cx_configs()), ("se2", se2_configs())):
        rel, qual, mode = GENS[kind]
        fn = ctx.src.func(rel, qual)
        short = qual.split(".")[1]
        loops = _all_generator_loops(fn)
        seen = covered.setdefault(kind, set())
        done_loops = set()
        for cfg in configs:
            tag = f"{short} ({cfg_tag(cfg)})"
            try:
                index, tags, cache, roles, arms = _find_state(ctx, kind, cfg)
            except Unsupported as e:
                _stopped(ctx, f"{tag}: carried state", fn, e)
                continue
            lp = arms[0].loop
            nconf += 1
            seen.add(id(lp))
            und = [v for a_ in arms for v in _undecided(a_)]
            if und:
                ctx.error(f"{tag}: a value of the iteration depends on a test the configuration does not decide", lp, und[0].why)
                continue
            first = id(lp) not in done_loops
            done_loops.add(id(lp))
            # necessary: nothing an earlier send left behind enters the values of this send unless it is checked against the step it belongs
            # to.  (A cache is optional - a generator that recomputes bo @ V[:, i-1] on every send is as good - and only the damping-as-force
            # cache has a meaning this rule can validate.)
            want_cache = kind == "cdf" and cfg["k"] and len(tags) == 1 and len(cache) == 1
            mixed = set(roles) - set(index) - set(tags) - set(cache)
            unchecked = sorted(c for c, r in roles.items() if "value" in r) if not tags else []
            what = f"{tag}: the only state that survives from one send to the next is the step index" \
                + (" plus one cached force and the step it was computed for" if want_cache else "")
            detail = {"carried": {k: sorted(v) for k, v in roles.items()}}
            if len(index) == 1 and not mixed and (not cache or want_cache):
                # (a tag that is tested while nothing cached ever enters a value is inert)
                ctx.ok(what, lp, detail, nontrivial=first)
            elif unchecked:
                _fail(ctx, what, lp, dict(detail, enters_unchecked=unchecked,
                                        consequence="after send(1..5) then send(3, f') a value computed for step 5 enters step 3"))
            else:
                ctx.error(f"{tag}: the state carried from one send to the next has a structure the rule cannot place", lp, detail)
            py = [a for a in arms if a.ev.prime_yields]
            my = [a for a in arms if a.ev.maybe_prime]
            if my and not py:
                # undecided for "two or more time steps": does the smallest case (exactly two steps, one send possible) park the body?
                try:
                    two = run_arm(ctx, kind, cfg, "pos", generic_prefix="carry:", two_steps=True)
                except Unsupported:
                    two = None
                if two is not None and two.ev.prime_yields:
                    py = [two]
            if py:
                _fail(ctx, f"{tag}: with two or more time steps the first yield the body reaches is the receiving one (generator() primes the "
                         "body once; a yield before the loop swallows the first send)", py[0].ev.prime_yields[0],
                         {"test": ast.unparse(getattr(G.parent_if(py[0].ev.prime_yields[0]), "test", ast.Constant(None)))})
            elif my:
                ctx.error(f"{tag}: a `yield` before the generator loop sits under a test that is not decided for two or more time steps", my[0].ev.maybe_prime[0],
                          ast.unparse(my[0].ev.maybe_prime[0].test))
            else:
                ctx.ok(f"{tag}: with two or more time steps the first yield the body reaches is the receiving one (generator() primes the "
                       "body once; a yield before the loop would swallow the first send)", lp, nontrivial=first)
            # a send that reads a name nothing has bound on its path dies with a NameError / UnboundLocalError (the engine follows the path
            # the configuration takes, evaluates what Python evaluates, and knows every binding statement)
            for a_, w_ in zip(arms[:2], ("positive", "add-on")):
                if a_.crashes:
                    msg, st_ = a_.crashes[0]
                    _fail(ctx, f"{tag}: a {w_} send reads no name before something is bound to it", st_ if st_ is not None else lp,
                             {"crash": msg, "all": [m for m, _ in a_.crashes]})
                else:
                    ctx.ok(f"{tag}: a {w_} send reads no name before something is bound to it", lp, nontrivial=False)
            if len(index) != 1:
                continue
            pos, addon = arms[0], arms[1]
            iv = index[0]
            if not _good(pos.final(iv)) or not _good(addon.final(iv)):
                _not_lowered(ctx, f"{tag}: step index after a send not lowered", lp, {"positive": repr(pos.final(iv)), "add-on": repr(addon.final(iv))},
                             pos.final(iv), addon.final(iv))
            else:
                ok = pos.final(iv).equals(J) and addon.final(iv).equals(F.sym("carry:" + iv))
                _check(ctx, ok, f"{tag}: the step index is taken from the send by a positive send and kept by an add-on", lp,
                          None if ok else {"positive": repr(pos.final(iv)), "add-on": repr(addon.final(iv))}, nontrivial=False)
            if want_cache and len(tags) == 1 and len(cache) == 1:
                _cached_damping_force(ctx, tag, cfg, tags[0], cache[0], arms)
            elif kind == "cdf" and cfg["k"] and not cache:
                # nothing is cached: the obligations on the cache hold vacuously (recorded so that the instance count says what was looked at)
                for wname, _c, _g in _worlds("-", "-")[1:]:
                    ctx.ok(f"{tag} [{wname}]: no force is cached by an earlier send; the step is computed from column j-1", lp, nontrivial=False)
                for what_ in ("initial cache", "tag set by a positive send", "tag kept by an add-on", "cache follows V[:, i] on add-ons"):
                    ctx.ok(f"{tag}: no cached force ({what_}: void)", lp, nontrivial=False)
        nloops += len(seen)
        missing = [l for l in loops if id(l) not in seen]
        if missing:
            ctx.error(f"{short}: a generator loop is reached by none of the configurations examined", missing[0], [l.lineno for l in missing])
        else:
            ctx.ok(f"{short}: every generator loop is reached by one of the configurations examined ({len(loops)} loops)", fn, nontrivial=False)
    # (how many syntactic loops the configurations share is a matter of style - merged loops, a common sub-generator: not an obligation)
    if nconf == 40:
        ctx.ok(f"carried-state rule bound to {nconf} of 40 configurations ({nloops} generator loops)", UNC + ":1", nontrivial=False)
    else:
        ctx.error(f"carried-state rule bound to {nconf} of 40 configurations ({nloops} generator loops)", UNC + ":1")


def _worlds(tagname, cachename):
    """the cache tag relative to the step being solved: the send before solved step j-1 (cache valid) or any other step"""
    return [("step j-1 solved last", {tagname: J - 1, cachename: BO * V0}, ()),
            ("step j solved last (redo)", {tagname: J, cachename: STALE}, ()),
            ("step j+1 solved last (jump back)", {tagname: J + 1, cachename: STALE}, ()),
            ("step j-2 solved last (skip ahead)", {tagname: J - 2, cachename: STALE}, ()),
            ("any other step solved last", {cachename: STALE}, ("carry:" + tagname,))]


# the send history that realises a world (the witness printed with a violation)
_WITNESS = {
    "step j solved last (redo)": "send(.., i, f) then send(i, f'): the force cached for step i enters as that of step i-1",
    "step j+1 solved last (jump back)": "send(.., i, i+1) then send(i, f'): the force cached for step i+1 enters step i as that of step i-1",
    "step j-2 solved last (skip ahead)": "send(.., i-1, i, i-2) then send(i, f'): the force cached for step i-2 enters step i as that of step i-1",
    "a much later step solved last (far jump back)": "send(1..5) then send(3, f'): the force of step 5 enters step 3",
    "a much earlier step solved last (far skip ahead)": "send(1..5), send(2, f') then send(5, f''): the force of step 2 enters step 5",
}


def _world_arms(ctx, cfg, wname, carry, generic):
    """[(name of the world, positive-send arm)]: the world as given; when it leaves the cache tag generic ("any other step") and the body orders
    step indices (`i < i_last`) - which "differs from whatever it is compared with" does not decide - the two kinds of history it consists of:
    the tagged step lies far after / far before the sent one.  Every comparison is then one of integers tied to the sent index."""
    try:
        w = run_arm(ctx, "cdf", cfg, "pos", carry=carry, generic=generic)
        if not generic or not _undecided(w):
            return [(wname, w)]
    except Unsupported as e:
        if not generic or "undecided test" not in str(e):
            raise
    return [(nm, run_arm(ctx, "cdf", cfg, "pos", carry=carry, generic=generic, side=sd))
            for nm, sd in (("a much later step solved last (far jump back)", "+"), ("a much earlier step solved last (far skip ahead)", "-"))]


def _cached_damping_force(ctx, tag, cfg, tg, ch, arms):
    pos, addon = arms[0], arms[1]
    lp = pos.loop
    # invariant at loop entry: the cache holds bo @ V[:, tag]
    t0, c0 = pos.carry_init.get(tg), pos.carry_init.get(ch)
    ok = t0 is not None and c0 is not None and not is_unknown(t0) and not is_unknown(c0) and not isinstance(c0, tuple)
    if ok:
        cn = pos.canon.colname(t0)
        ok = cn is not None and c0.equals(BO * refsym("v", "k", cn))
    _check(ctx, ok, f"{tag}: before the first send the cache holds bo @ V[:, s] for the step s it is tagged with", lp,
              None if ok else {"tag": repr(t0), "cache": repr(c0)})
    # meaning of the guard: whatever step was solved last, a value cached for a step other than j-1 never enters step j
    for wname0, carry, generic in _worlds(tg, ch):
        try:
            was = _world_arms(ctx, cfg, wname0, carry, generic)
        except Unsupported as e:
            ctx.error(f"{tag} [{wname0}]: positive send", lp, str(e))
            continue
        if wname0.startswith("step j-1"):
            continue
        for wname, w in was:
            und = _undecided(w)
            if und:
                ctx.error(f"{tag} [{wname}]: a value of the send depends on a test the history does not decide", lp, und[0].why)
                continue
            used = [c["text"] for c in w.cells if depends(c["value"], "stale_cache")] + [k for k in (ch,) if depends(w.final(k), "stale_cache")]
            _check(ctx, not used, f"{tag} [{wname}]: the force cached by an earlier send is not used (it belongs to another step); the step is computed "
                                "from column j-1", lp, None if not used else {
                                    "depends on the stale cache": used,
                                    "witness history": _WITNESS.get(wname, "send(1..5) then send(3, f'): the force of step 5 enters step 3")})
    # bookkeeping of the tag
    if not _good(pos.final(tg)) or not _good(addon.final(tg)):
        _not_lowered(ctx, f"{tag}: tag of the cache after a send not lowered", lp, {"positive": repr(pos.final(tg)), "add-on": repr(addon.final(tg))},
                     pos.final(tg), addon.final(tg))
    else:
        ok = pos.final(tg).equals(J)
        _check(ctx, ok, f"{tag}: a positive send records which step the cache now belongs to", lp, None if ok else repr(pos.final(tg)))
        ok = _eq(addon.final(tg), addon.lev.carry_over.get(tg, F.sym("carry:" + tg)))
        _check(ctx, ok, f"{tag}: an add-on leaves the tag of the cache alone", lp, None if ok else repr(addon.final(tg)), nontrivial=False)
    # an add-on that changes V[:, i] changes the cached force as well
    vch = addon.cell("v", "k") is not None
    if not _good(addon.final(ch)):
        _not_lowered(ctx, f"{tag}: cached damping force after an add-on not lowered", lp, repr(addon.final(ch)), addon.final(ch))
    else:
        cch = not addon.final(ch).equals(F.sym("carry:" + ch))
        _check(ctx, vch == cch, f"{tag}: an add-on force changes the cached damping force exactly when it changes V[:, i]", lp,
                  {"V changed": vch, "cache changed": cch})



# ---------------------------------------------------------------------------------------------------------------- batch side
BATCH = {
    "real": (UNC, "SolveUnc._solve_real_unc", "U"),
    "cdf": (UNC, "SolveUnc._solve_real_unc_cdforces", "U"),
    "complex": (UNC, "SolveUnc._solve_complex_unc", "E"),
    "se2": (SE2, "SolveExp2.tsolve", "U"),
}
# the force history of the batch solver at the step being computed is what the generator is sent
BATCH_REFNAME = {("force", "k", "prev"): "@f0", ("force", "k", "cur"): "@f1", ("force", "rb", "prev"): "@f0rb", ("force", "rb", "cur"): "@f1rb",
                 ("force", "rf", "cur"): "@f1rf"}


def batch_namer(arr, rn, cn):
    nm = BATCH_REFNAME.get((arr, rn, cn)) or REFNAME.get((arr, rn, cn))
    if nm is None:
        nm = f"@{arr}.{rn}.{cn}" if arr in ("d", "v", "a", "force") and cn in ("prev", "cur") else f"@{arr}|{rn}|{cn}"
    return F.sym(nm)


class BatchStep:
    """one generic time step of a batch solver in a configuration"""

    def __init__(self, ev, fn, shared):
        self.ev, self.fn, self.cells, self.carried, self.loops = ev, fn, shared.cells, shared.carried, shared.loops

    def cell(self, arr, rn, loop_only=False):
        hit = [c for c in self.cells if c["arr"] == arr and c["rn"] == rn and c["cn"] == "cur" and (c["loop"] is not None or not loop_only)]
        return hit[-1] if hit else None

    def value(self, arr, rn):
        c = self.cell(arr, rn)
        return None if c is None else c["value"]

    def where(self, arr, rn):
        c = self.cell(arr, rn)
        return c["node"] if c is not None else (self.loops[0] if self.loops else self.fn)

    def unverified(self):
        """carried locals of the time loops whose new value is not, syntactically, their old value one step later (cached forces, modal states)"""
        return [c for c in self.carried if not c["verified"]]


def _batch_inline(ctx, kind):
    cache = ctx.__dict__.setdefault("_c08_binline", {})
    if kind not in cache:
        specs = [(SE2, "SolveExp2"), (BASE, "_BaseODE")] if kind == "se2" else [(UNC, "SolveUnc"), (BASE, "_BaseODE")]
        cache[kind] = G.inline_table(ctx, specs, exclude=("_delconj", "_addconj", "_calc_acce_kdof", "_init_dva_part", "_alloc_dva", "_init_dv", "_set_initial_cond",
                                                          "generator", "tsolve", "fsolve", "finalize"))
    return cache[kind]


def run_batch(ctx, kind, cfg):
    """evaluate one generic time step of the batch solver `kind` in the configuration; memoised per run"""
    from .c08_batch import BatchCanon, BatchEval, Shared
    key = (kind, tuple(sorted((k, str(v)) for k, v in cfg.items())))
    cache = ctx.__dict__.setdefault("_c08_batch", {})
    if key in cache:
        r = cache[key]
        if isinstance(r, Exception):
            raise r
        return r
    rel, qual, mode = BATCH[kind]
    fn = ctx.src.func(rel, qual)
    names = [a.arg for a in fn.args.args]
    table = {names[1]: "force"} if kind == "se2" else {names[1]: "d", names[2]: "v", names[-1]: "force"}
    if kind == "complex":
        table[names[3]] = "a"

    def rootname(v):
        s_ = symname(v)
        if s_ is not None:
            return table.get(s_)
        u = sem.unfn(v) if _good(v) else None
        if u is not None and u[0] == "item" and not isinstance(u[1][0], str) and u[1][1].is_const():
            sc = sem.split_call(u[1][0])
            k = int(u[1][1].const_value())
            if sc is not None and sc[0] == "self._alloc_dva" and 0 <= k < 3:
                return ("d", "v", "a")[k]           # _alloc_dva returns the (d, v, a) arrays it allocated
        return None

    env, facts = cfg_env(cfg, None)
    facts.ge2 = [NT]                                 # there is a step to compute: at least two columns
    sh = {nm: (F.sym("@n"), NT) for nm in table}
    k = env["self.ksize"]
    for c in ("E_dd", "E_dv", "E_vd", "E_vv", "bo", "alpha"):
        sh[c] = (k, k)
    shared = Shared(batch_namer)
    ev = BatchEval(ctx, fn, env=env, facts=facts, inline=_batch_inline(ctx, kind), refhook=BatchCanon(rootname, cfg, mode), shapes=sh, shared=shared)
    ev.tracked, ev.opaque_ok = (lambda v: rootname(v) is not None), frozenset(NOT_FOLLOWED + ("_init_dv", "_set_initial_cond"))
    try:
        ev.run(fn.body)
        if facts.lost:
            raise Unsupported(f"{qual}: {facts.lost[0]}")
        if not shared.loops:
            raise Unsupported(f"{qual}: no time loop is reached in configuration {cfg}")
    except Unsupported as e:
        e.crashes = list(facts.crashes)          # what the engine had proved before it had to stop (a definite exception at run time)
        cache[key] = e
        raise
    r = BatchStep(ev, fn, shared)
    cache[key] = r
    return r


def _bgood(v):
    """a batch value the rule may compare: lowered, and every column it reads placed relative to the step"""
    from .c08_batch import leftovers
    return _good(v) and not leftovers(v)


ROWS_D = F.fn("rowsel", F.sym("self.ksize"), NONE, NONE)      # rows ksize: of the [v; d] force integral
ROWS_V = F.fn("rowsel", NONE, F.sym("self.ksize"), NONE)      # rows :ksize


# ---------------------------------------------------------------------------------------------------------------- step == batch
def _good(v):
    return v is not None and not is_unknown(v) and not isinstance(v, tuple)


def _undefined(*vals):
    """reason when a value could not be formed because the path reads a name nothing has bound (NameError / UnboundLocalError at run time)"""
    for v in vals:
        if is_unknown(v) and ("is not defined" in v.why or "is not bound on this path" in v.why):
            return v.why
    return None


def _not_lowered(ctx, instance, where, detail, *vals):
    """a value the rule needs is unknown: a violation when the code provably crashes there, otherwise an analysis error"""
    why = _undefined(*vals)
    if why:
        _fail(ctx, instance, where, {"crash": why})
    else:
        ctx.error(instance, where, detail)


def _u(v, cfg):
    """where there are no rf equations the whole sent force is its non-rf part"""
    if _good(v) and cfg.get("k", True) and not cfg.get("rf", True):
        return v.subs({"F1all": F1})
    return v


def _eq(a, b):
    return _good(a) and _good(b) and a.equals(b)


def _judge(ctx, label, where, got, want, nontrivial=True, missing="no store into column i of that partition", names=("generator", "expected")):
    """verdict of one value comparison.  got None: the store is absent (a violation); a value the engine could not lower: an analysis error
    (a violation when the path provably crashes); otherwise the two values are compared"""
    if got is None:
        _fail(ctx, label, where, missing)
        return False
    if not _good(got) or not _good(want):
        _not_lowered(ctx, label + ": not lowered", where, {names[0]: repr(got), names[1]: repr(want)}, got, want)
        return False
    ok = got.equals(want)
    _check(ctx, ok, label, where, None if ok else {names[0]: repr(got), names[1]: repr(want)}, nontrivial=nontrivial)
    return ok


def _force_cell(arm):
    for rn in ("all", "k", "rf"):
        c = arm.cell("force", rn)
        if c is not None:
            return c
    return None


def _nothing_else(ctx, arm, allowed, what):
    """every store of the iteration into one of the watched arrays (d, v, a, the force history) goes to column i of an expected partition.
    Stores into other objects (scratch arrays of the body) are none of this rule's business; a store into a watched array the engine
    cannot place is an analysis error, one it can place elsewhere a violation."""
    other, unplaced = [], []
    for c in arm.cells:
        arr, rn, cn = c["key"]
        if arr is None:
            if c["root"] is None or arm.ev._is_view(c["root"]) or arm.ev.tracked(c["root"]):
                unplaced.append(c["text"])
            continue                         # not one of the watched arrays
        if rn is None or cn is None:
            # column or partition not recognised: provably another column when it differs from i by a constant
            col = c["col"]
            off = (col - J) if (_good(col) and arm.canon.which != "addon") else None
            if off is not None and off.is_const() and not off.is_zero():
                other.append(c["text"])
            else:
                unplaced.append(c["text"])
        elif (arr, rn) not in allowed or cn != "cur":
            other.append(c["text"])
    if other:
        _fail(ctx, what, arm.loop, other)
    elif unplaced:
        ctx.error(what + ": a store the rule cannot place", arm.loop, unplaced)
    else:
        ctx.ok(what, arm.loop, nontrivial=False)


def _rf_and_force(ctx, tag, arm, cfg):
    lp = arm.loop
    c = _force_cell(arm)
    _judge(ctx, f"{tag}: a positive send replaces the stored force of step i by the sent force", c["node"] if c else lp,
           c["value"] if c else None, F1ALL, missing="no store into the force history")
    if cfg.get("rf"):
        c = arm.cell("d", "rf")
        _judge(ctx, f"{tag}: residual-flexibility displacement of step i is the static solution K_rf^-1 F1[rf]", c["node"] if c else lp,
               c["value"] if c else None, IKRF * F1RF)
    allowed = {("d", "k"), ("v", "k"), ("d", "rf"), ("force", "all"), ("force", "k"), ("force", "rf"), ("d", "rb"), ("v", "rb"), ("a", "rb")}
    _nothing_else(ctx, arm, allowed, f"{tag}: a positive send writes column i of the solution and of the force history and nothing else")


STATE_SYMS = {"@d0", "@v0", "@f0", "@f0rb", "@drb0", "@vrb0"}


def batch_step(ctx, kind, cfg, derived=0, label=None):
    """the generic step of a batch solver, with the obligation that what its time loop carries from one iteration to the next is the column it
    has just stored (`derived`: how many carried values may be something else - a cached force, a modal state - and are used as a lemma)"""
    qual = BATCH[kind][1].split(".")[-1]
    tag = label or f"{qual} ({cfg_tag(cfg)})"
    try:
        b = run_batch(ctx, kind, cfg)
    except Unsupported as e:
        if getattr(e, "crashes", None):
            # the body could not be evaluated to the end, but on the way the engine proved that it raises (a name read before it is bound,
            # time histories of different lengths combined in one expression)
            msg, st_ = e.crashes[0]
            _fail(ctx, f"{tag}: the batch solver runs through for a force history with more than three time steps", st_, {"crash": msg, "then": str(e)[:200]})
        else:
            ctx.error(f"{tag}: batch step", None, str(e))
        return None
    seen = ctx.__dict__.setdefault("_c08_bseen", set())
    if (kind, id(b)) in seen:
        return b
    seen.add((kind, id(b)))
    if b.ev.facts.crashes:
        msg, st_ = b.ev.facts.crashes[0]
        _fail(ctx, f"{tag}: the batch solver reads no name before something is bound to it", st_ if st_ is not None else b.fn, {"crash": msg})
    unv = b.unverified()
    stale = [c for c in unv if symname(c["hyp"]) in STATE_SYMS]
    notlow = [c for c in unv if not _bgood(c["final"]) or not _bgood(c["hyp"])]
    if notlow:
        ctx.error(f"{tag}: a value the time loop carries is not lowered", notlow[0]["loop"], {c["name"]: repr(c["final"]) for c in notlow})
        return None
    if stale:
        _fail(ctx, f"{tag}: what the time loop carries into the next iteration is the column it has just stored", stale[0]["loop"],
                 {c["name"]: {"holds at the start of step i": repr(c["hyp"]), "after the body": repr(c["final"])} for c in stale})
    elif len(unv) > derived:
        ctx.error(f"{tag}: the time loop carries a value the rule cannot place", unv[0]["loop"], {c["name"]: repr(c["hyp"]) for c in unv})
        return None
    else:
        ctx.ok(f"{tag}: what the time loop carries into the next iteration is the column it has just stored", b.loops[0], nontrivial=False)
    return b


def r2_step_equals_batch(ctx):
    batch = {}
    for order in (1, 0):
        b = batch_step(ctx, "real", {"order": order, "rf": True, "k": True}, label=f"_solve_real_unc (order {order})")
        batch[order] = (b.value("d", "k"), b.value("v", "k"), b.where("d", "k")) if b is not None else (None, None, None)
    ref = {1: (COEF["F"] * D0 + COEF["G"] * V0 + COEF["A"] * F0 + COEF["B"] * F1,
               COEF["Fp"] * D0 + COEF["Gp"] * V0 + COEF["Ap"] * F0 + COEF["Bp"] * F1),
           0: (COEF["F"] * D0 + COEF["G"] * V0 + (COEF["A"] + COEF["B"]) * F0,
               COEF["Fp"] * D0 + COEF["Gp"] * V0 + (COEF["Ap"] + COEF["Bp"]) * F0)}
    for order in (1, 0):
        d1, v1, loop = batch[order]
        if not _bgood(d1) or not _bgood(v1):
            continue
        ok = _eq(d1, ref[order][0]) and _eq(v1, ref[order][1])
        _check(ctx, ok, f"_solve_real_unc_inner_loop (order {order}): the batch step is the documented one-step recurrence "
                      f"{'F d + G v + A f0 + B f1' if order else 'F d + G v + (A + B) f0'} (and its velocity twin)", loop,
                  None if ok else {"d1": repr(d1), "v1": repr(v1)})
    if not all(_bgood(x) for o in (0, 1) for x in batch[o][:2]):
        ctx.error("_solve_real_unc: batch step not lowered", batch[0][2], {o: [repr(x) for x in batch[o][:2]] for o in (0, 1)})
    else:
        ok = batch[1][0].subs({"@f1": F0}).equals(batch[0][0]) and batch[1][1].subs({"@f1": F0}).equals(batch[0][1])
        _check(ctx, ok, "_solve_real_unc_inner_loop: order 0 is order 1 with the force held (f1 := f0)", batch[0][2])
    # generators: plain uncoupled
    for cfg in u_configs():
        tag = f"_solve_real_unc_generator ({cfg_tag(cfg)})"
        try:
            arm = run_arm(ctx, "real", cfg, "pos", generic_prefix="carry:")
        except Unsupported as e:
            _stopped(ctx, f"{tag}: positive send", None, e)
            continue
        if cfg["k"]:
            bs = batch_step(ctx, "real", cfg)
            if bs is None:
                continue
            b = (bs.value("d", "k"), bs.value("v", "k"))
            d1, v1 = _u(arm.value("d", "k"), cfg), _u(arm.value("v", "k"), cfg)
            if not _bgood(b[0]) or not _bgood(b[1]):
                ctx.error(f"{tag}: batch step not lowered", bs.where("d", "k"), {"d": repr(b[0]), "v": repr(b[1])})
                continue
            _judge(ctx, f"{tag}: a positive send stores the batch displacement step computed from column i-1, Force[:, i-1] and the sent force",
                   (arm.cell("d", "k") or {}).get("node") or arm.loop, d1, b[0], names=("generator", "batch"))
            _judge(ctx, f"{tag}: a positive send stores the batch velocity step", (arm.cell("v", "k") or {}).get("node") or arm.loop, v1, b[1],
                   names=("generator", "batch"))
        _rf_and_force(ctx, tag, arm, cfg)
    # generators: coupled damping as force
    def cdf_batch(cfg, tag):
        """(d1, v1, damping force carried into the next step) of the batch damping-as-force recurrence; the carried force is used as a lemma
        (i): at the start of a step it is bo @ V[:, i-1], as its initial value says for step 0"""
        bs = batch_step(ctx, "cdf", cfg, derived=1, label=tag)
        if bs is None:
            return None
        unv = bs.unverified()
        loop = bs.where("d", "k")
        if len(unv) != 1:
            _fail(ctx, f"{tag}: the batch loop carries the off-diagonal damping force of the step it has just solved", loop,
                     {c["name"]: repr(c["hyp"]) for c in bs.carried})
            return None
        if not _bgood(unv[0]["hyp"]):
            ctx.error(f"{tag}: the value the batch loop carries besides the solution is not lowered", loop, repr(unv[0]["hyp"]))
            return None
        ok = _eq(unv[0]["hyp"], BO * V0)
        _check(ctx, ok, f"{tag}: the damping force the batch loop starts from is bo @ V[:, 0]", loop, None if ok else repr(unv[0]["hyp"]), nontrivial=False)
        out = (bs.value("d", "k"), bs.value("v", "k"), unv[0]["final"], loop)
        if not all(_bgood(x) for x in out[:3]):
            ctx.error(f"{tag}: batch step not lowered", loop, [repr(x) for x in out[:3]])
            return None
        ctx.ok(f"{tag}: batch step lowered", loop, nontrivial=False)
        return out

    cb = {}
    for order in (1, 0):
        cb[order] = cdf_batch({"order": order, "rf": True, "k": True}, f"_solve_real_unc_cdforces (order {order})")
    for cfg in u_configs():
        tag = f"_solve_real_unc_generator_cdforces ({cfg_tag(cfg)})"
        if not cfg["k"]:
            try:
                arm = run_arm(ctx, "cdf", cfg, "pos", generic_prefix="carry:")
            except Unsupported as e:
                ctx.error(f"{tag}: positive send", None, str(e))
                continue
            _rf_and_force(ctx, tag, arm, cfg)
            continue
        b = cb[cfg["order"]] if cfg["rf"] else cdf_batch(cfg, f"_solve_real_unc_cdforces ({cfg_tag(cfg)})")
        if b is None:
            continue
        try:
            index, tags, cache, roles, arms = _find_state(ctx, "cdf", cfg)
        except Unsupported as e:
            ctx.error(f"{tag}: carried state", None, str(e))
            continue
        if not cache:
            plan = [("no cache", None)]                  # the force of step i-1 is recomputed on every send
        elif len(tags) == 1 and len(cache) == 1:
            worlds = _worlds(tags[0], cache[0])
            plan = [("cache valid", worlds[0]), ("recompute", worlds[-1])]
            try:
                # (an order comparison of step indices: "any other step" is the steps far after and the steps far before the sent one)
                sub = _world_arms(ctx, cfg, worlds[-1][0], worlds[-1][1], worlds[-1][2])
            except Unsupported:
                sub = []
            if len(sub) == 2:
                plan = [plan[0]] + [(f"recompute: {nm.split(' (')[0]}", (nm, worlds[-1][1], worlds[-1][2], sd)) for (nm, _w), sd in zip(sub, "+-")]
        elif cache and not tags:
            _fail(ctx, f"{tag}: a force cached by an earlier send is used only when it is checked against the step it belongs to", arms[0].loop,
                     {"carried": {k: sorted(v) for k, v in roles.items()}})
            continue
        else:
            ctx.error(f"{tag}: the state carried from one send to the next has a structure the rule cannot place", arms[0].loop,
                      {"carried": {k: sorted(v) for k, v in roles.items()}})
            continue
        evp = None
        # lemma (i): the cached force, when valid, equals bo @ V[:, i-1]; evaluate both arms of the guard
        for arm_name, world in plan:
            try:
                w = arms[0] if world is None else run_arm(ctx, "cdf", cfg, "pos", carry=world[1], generic=world[2], side=world[3] if len(world) > 3 else None)
            except Unsupported as e:
                ctx.error(f"{tag} [{arm_name}]: positive send", arms[0].loop, str(e))
                continue
            evp = evp or w
            d1, v1 = _u(w.value("d", "k"), cfg), _u(w.value("v", "k"), cfg)
            lab = f"{tag} [{arm_name}]: a positive send stores the batch step of the damping-as-force recurrence"
            if d1 is None or v1 is None:
                _fail(ctx, lab, w.loop, "no store into column i of the rb/el partition")
            elif not _good(d1) or not _good(v1):
                _not_lowered(ctx, lab + ": not lowered", w.loop, {"generator d": repr(d1), "generator v": repr(v1)}, d1, v1)
            else:
                ok = d1.equals(b[0]) and v1.equals(b[1])
                _check(ctx, ok, lab, (w.cell("d", "k") or {}).get("node") or w.loop,
                          None if ok else {"generator d": repr(d1), "batch d": repr(b[0]), "generator v": repr(v1), "batch v": repr(b[1])})
            if world is None:
                continue
            dn = _u(w.final(cache[0]), cfg)
            if not _good(dn):
                _not_lowered(ctx, f"{tag} [{arm_name}]: cached damping force after the send not lowered", w.loop, repr(dn), dn)
                continue
            ok = _eq(dn, b[2])
            _check(ctx, ok, f"{tag} [{arm_name}]: the damping force cached for the next step equals the batch loop's carried value", w.loop,
                      None if ok else {"generator": repr(dn), "batch": repr(b[2])})
        if evp is not None:
            _rf_and_force(ctx, tag, evp, cfg)
    # SolveExp2 generator vs tsolve
    P, Q, invm = F.sym("P"), F.sym("Q"), F.sym("invm")
    for cfg in se2_configs():
        tag = f"_solve_se2_generator ({cfg_tag(cfg)})"
        try:
            arm = run_arm(ctx, "se2", cfg, "pos", generic_prefix="carry:")
        except Unsupported as e:
            ctx.error(f"{tag}: positive send", None, str(e))
            continue
        if cfg["k"]:
            mm = invm if cfg["m"] is not None else F.const(1)
            want = P * mm * F0 + (Q * mm * F1 if cfg["order"] == 1 else 0)
            d1, v1 = _u(arm.value("d", "k"), cfg), _u(arm.value("v", "k"), cfg)
            _judge(ctx, f"{tag}: d(i) = E_dd d + E_dv v + (P M^-1 f(i-1) {'+ Q M^-1 f(i)' if cfg['order'] == 1 else ''})[d half, rows ksize:] from column i-1",
                   (arm.cell("d", "k") or {}).get("node") or arm.loop, d1, F.sym("E_dd") * D0 + F.sym("E_dv") * V0 + ROWS_D * want)
            _judge(ctx, f"{tag}: v(i) = E_vd d + E_vv v + (force integral)[v half, rows :ksize] from column i-1",
                   (arm.cell("v", "k") or {}).get("node") or arm.loop, v1, F.sym("E_vd") * D0 + F.sym("E_vv") * V0 + ROWS_V * want)
        _rf_and_force(ctx, tag, arm, cfg)
    for order in (1, 0):
        for mass in (None, "unc", "coupled"):
            bs = batch_step(ctx, "se2", {"order": order, "rf": True, "k": True, "m": mass, "unc": mass != "coupled"},
                            label=f"SolveExp2.tsolve (order {order}, m {mass or 'None'})")
            if bs is None:
                continue
            d1, v1, loop = bs.value("d", "k"), bs.value("v", "k"), bs.where("d", "k")
            if not _bgood(d1) or not _bgood(v1):
                ctx.error(f"SolveExp2.tsolve (order {order}, m {mass or 'None'}): batch step not lowered", loop, {"d": repr(d1), "v": repr(v1)})
                continue
            mm = invm if mass is not None else F.const(1)
            want = P * mm * F0 + (Q * mm * F1 if order == 1 else 0)
            ok = _eq(d1, F.sym("E_dd") * D0 + F.sym("E_dv") * V0 + ROWS_D * want) and _eq(v1, F.sym("E_vd") * D0 + F.sym("E_vv") * V0 + ROWS_V * want)
            _check(ctx, ok, f"SolveExp2.tsolve (order {order}, m {mass or 'None'}): the batch step is d = E_dd d + E_dv v + PQF[d half], "
                          "v = E_vd d + E_vv v + PQF[v half], PQF = P M^-1 f0 (+ Q M^-1 f1)", loop, None if ok else {"d": repr(d1), "v": repr(v1)})


# ---------------------------------------------------------------------------------------------------------------- add-on == f1-linear part
def _inc(cell):
    """what a store adds to the current content of its target (a plain assignment adds value - content, whatever the content is)"""
    if cell is None or not _good(cell["value"]):
        return None
    if cell["cur"] is None:
        if _good(cell.get("content")):
            return cell["value"] - cell["content"]
        return cell["value"] - F.sym("content of " + cell["text"])
    if not _good(cell["cur"]):
        return None
    return cell["value"] - cell["cur"]


def _judge_inc(ctx, label, where, cell, want, missing="no store into column i of that partition"):
    """what a store adds to its target equals `want` (absent store: violation; value not lowered: analysis error)"""
    if cell is None:
        _fail(ctx, label, where, missing)
        return False
    inc = _inc(cell)
    if inc is None or not _good(want):
        _not_lowered(ctx, label + ": not lowered", cell["node"], {"stored": repr(cell["value"]), "content before": repr(cell["cur"])}, cell["value"], cell["cur"], want)
        return False
    ok = inc.equals(want)
    _check(ctx, ok, label, cell["node"], None if ok else {"increment": repr(inc), "expected": repr(want)})
    return ok


def _pos_for_addon(ctx, kind, cfg):
    """the positive-send arm the add-on is compared with (for the damping-as-force generator: the world in which the cache is valid)"""
    if kind == "cdf" and cfg["k"]:
        index, tags, cache, roles, arms = _find_state(ctx, kind, cfg)
        if len(tags) == 1 and len(cache) == 1:
            w = _worlds(tags[0], cache[0])[0]
            return run_arm(ctx, kind, cfg, "pos", carry=w[1], generic=w[2]), cache[0]
        return arms[0], None
    return run_arm(ctx, kind, cfg, "pos", generic_prefix="carry:"), None


def r3_addon_linear_part(ctx):
    """an add-on send adds exactly the f1-linear part of the positive-send update and touches nothing else"""
    for kind, configs in (("real", u_configs()), ("cdf", u_configs()), ("se2", se2_configs())):
        short = GENS[kind][1].split(".")[1]
        for cfg in configs:
            tag = f"{short} ({cfg_tag(cfg)})"
            try:
                pos, cache = _pos_for_addon(ctx, kind, cfg)
                add = addon_arm(ctx, kind, cfg)
            except Unsupported as e:
                ctx.error(f"{tag}: add-on send", None, str(e))
                continue
            lp = add.loop
            if cfg["k"]:
                for arr, label in (("d", "displacement"), ("v", "velocity")):
                    cell = add.cell(arr, "k")
                    if cfg["order"] == 0:
                        _check(ctx, cell is None, f"{tag}: with zero-order hold an add-on force leaves the current {label} untouched (it acts from the next step on)",
                                  cell["node"] if cell else lp, None if cell is None else repr(cell["value"]))
                        continue
                    pv = _u(pos.value(arr, "k"), cfg)
                    if pv is not None and not _good(pv):
                        _not_lowered(ctx, f"{tag}: positive-send {label} the add-on is compared with: not lowered", lp, repr(pv), pv)
                        continue
                    if cell is None or pv is None:
                        _fail(ctx, f"{tag}: add-on updates the current {label}", lp, sorted({c["text"] for c in add.cells}))
                        continue
                    inc = _u(_inc(cell), cfg)
                    if inc is None:
                        ctx.error(f"{tag}: add-on {label}", cell["node"], repr(cell["value"]))
                        continue
                    lin = pv.diff("@f1") * F1
                    ok = inc.equals(lin)
                    _check(ctx, ok, f"{tag}: the add-on {label} increment is the f1-linear part of the positive-send update", cell["node"],
                              None if ok else {"increment": repr(inc), "d(update)/d f1 * F1": repr(lin)})
            _judge_inc(ctx, f"{tag}: an add-on accumulates into the stored force of step i", lp, _force_cell(add), F1ALL, missing="no store into the force history")
            if cfg.get("rf"):
                _judge_inc(ctx, f"{tag}: the add-on rf displacement increment is K_rf^-1 F1[rf]", lp, add.cell("d", "rf"), IKRF * F1RF)
            allowed = {("d", "k"), ("v", "k"), ("d", "rf"), ("force", "all"), ("force", "k"), ("force", "rf")}
            _nothing_else(ctx, add, allowed, f"{tag}: an add-on touches nothing else")
            ivs = sorted(add.canon.index_vars)
            _check(ctx, len(ivs) == 1, f"{tag}: every add-on store addresses the column of the step solved last", lp, ivs, nontrivial=False)
            if cache is not None and cfg["order"] == 1:
                dn_pos, dn_add = _u(pos.final(cache), cfg), _u(add.final(cache), cfg)
                if not _good(dn_pos) or not _good(dn_add):
                    _not_lowered(ctx, f"{tag}: cached damping force after an add-on not lowered", lp, {"add-on": repr(dn_add), "positive": repr(dn_pos)}, dn_pos, dn_add)
                else:
                    ok = (dn_add - F.sym("carry:" + cache)).equals(dn_pos.diff("@f1") * F1)
                    _check(ctx, ok, f"{tag}: the cached damping force receives the f1-linear part as well", lp,
                              None if ok else {"add-on": repr(dn_add), "positive": repr(dn_pos)})


# ---------------------------------------------------------------------------------------------------------------- complex-eigenvalue path


def r2c_complex_path(ctx):
    """complex-eigenvalue solver: (a) the zero-order-hold arm of the batch loop is the first-order arm with the force held; (b) a positive
    send of the generator stores, for the rigid-body, elastic and residual-flexibility partitions, exactly the batch step computed from
    column i-1; in every configuration order x mass (None / diagonal / full) x system type (real / complex)."""
    nconf = 0
    pairs = [("rigid-body displacement", ("d", "rb")), ("rigid-body velocity", ("v", "rb")), ("elastic displacement", ("d", "k")),
             ("elastic velocity", ("v", "k"))]
    for cfg in cx_configs():
        order = cfg["order"]
        tag = f"order {order}, m {cfg['m'] or 'None'}, {'real' if cfg['real'] else 'complex'} system"
        # lemma (ii): the modal state the elastic loop carries is, at the start of a step, what its own column-0 line makes of column i-1
        b = batch_step(ctx, "complex", cfg, derived=1, label=f"_solve_complex_unc ({tag})")
        if b is None:
            continue
        bfn = b.fn
        try:
            g = run_arm(ctx, "complex", cfg, "pos", generic_prefix="carry:")
        except Unsupported as e:
            _stopped(ctx, f"complex path ({tag}): could not evaluate", None, e)
            continue
        lp = g.loop
        nconf += 1
        for what, gk in pairs:
            bv, gv = b.value(*gk), g.value(*gk)
            if gv is None and _bgood(bv):
                _fail(ctx, f"_solve_complex_unc_generator ({tag}): a positive send stores the batch {what} step computed from column i-1", lp,
                         {"generator": "no store into column i of that partition", "stores": sorted({c["text"] for c in g.cells})})
                continue
            if not _bgood(bv) or not _good(gv):
                _not_lowered(ctx, f"complex path ({tag}): {what} not lowered", bfn, {"batch": repr(bv), "generator": repr(gv)}, gv)
                continue
            ok = gv.equals(bv)
            _check(ctx, ok, f"_solve_complex_unc_generator ({tag}): a positive send stores the batch {what} step computed from column i-1", lp,
                      None if ok else {"generator": repr(gv), "batch": repr(bv)})
        # acceleration of the rigid-body modes and the rf displacement
        gv = g.value("a", "rb")
        bv = b.value("a", "rb")
        ok = _good(gv) and _bgood(bv) and gv.equals(bv)
        _check(ctx, ok, f"_solve_complex_unc_generator ({tag}): rigid-body acceleration of step i is M_rb^-1 F1[rb] as in the batch solver", lp,
                  None if ok else {"generator": repr(gv), "batch": repr(bv)})
        _judge(ctx, f"_solve_complex_unc_generator ({tag}): residual-flexibility displacement of step i is K_rf^-1 F1[rf]", lp, g.value("d", "rf"), IKRF * F1RF)
        a0 = [c for c in g.pre_cells if c["key"] == ("a", "rb", "0")]
        gv = g.value("a", "rb")
        ok = len(a0) == 1 and _good(gv) and _eq(a0[0]["value"], gv.subs({"@f1rb": refsym("f0p", "rb", "all")}))
        _check(ctx, ok, f"_solve_complex_unc_generator ({tag}): the rigid-body acceleration of step 0 is M_rb^-1 F0[rb] (the batch value of column 0)",
                  a0[0]["node"] if a0 else lp, None if ok else [repr(c["value"]) for c in a0])
        c = _force_cell(g)
        _judge(ctx, f"_solve_complex_unc_generator ({tag}): a positive send replaces the stored force of step i by the sent force", lp,
               c["value"] if c else None, F1ALL, nontrivial=False, missing="no store into the force history")
        if order == 0:
            try:
                b1 = run_batch(ctx, "complex", dict(cfg, order=1))
            except Unsupported as e:
                ctx.error(f"_solve_complex_unc ({tag}): first-order arm", bfn, str(e))
                continue
            hold = {"@f1rb": F0RB, "@f1": F0}
            for what, gk in pairs:
                v0_, v1_ = b.value(*gk), b1.value(*gk)
                if not _bgood(v0_) or not _bgood(v1_):
                    ctx.error(f"_solve_complex_unc ({tag}): {what} step not lowered", b.where(*gk), {"order 0": repr(v0_), "order 1": repr(v1_)})
                    continue
                ok = v1_.subs(hold).equals(v0_)
                _check(ctx, ok, f"_solve_complex_unc ({tag}): the zero-order-hold {what} step is the first-order one with the force held (f1 := f0)",
                          b.where(*gk), None if ok else {"order 0": repr(v0_), "order 1 with f1:=f0": repr(v1_.subs(hold)) if _good(v1_) else None})
    if nconf == 12:
        ctx.ok(f"complex path evaluated in {nconf} of 12 configurations", None, nontrivial=False)
    else:
        ctx.error(f"complex path evaluated in {nconf} of 12 configurations", None)      # (the configurations that were not evaluated said why)


class F2xCanon:
    """reference hook of a get_f2x body: columns of the mode-shape argument by partition"""

    def __init__(self, phi):
        self.phi = phi

    def __call__(self, ev, root, rows, col):
        if symname(root) == self.phi and is_all(rows):
            nm = {"self.kdof": "phik", "self.rb": "phir", "self.rf": "phirf"}.get(symname(col))
            if nm:
                return F.sym(nm)
        return None


def eval_f2x(ctx, rel, qual, cfg, velo, kind, sided=False):
    """value returned by a get_f2x function in the configuration (helpers followed)"""
    fn = ctx.src.func(rel, qual)
    names = [a.arg for a in fn.args.args]
    env, facts = cfg_env(cfg, None, extra_truths=[(F.sym(names[2]), velo)])
    ev = GenEval(ctx, fn, env=env, facts=facts, inline=_inline(ctx, kind), refhook=F2xCanon(names[1]), sided=sided, strict=True)
    ev.run(fn.body)
    if facts.lost:
        raise Unsupported(f"{qual}: {facts.lost[0]}")
    if facts.crashes:
        return Unknown(facts.crashes[0][0]), fn          # the call dies: reported as a crash by _not_lowered
    if not ev.returns:
        if any(e[0] == "raise" for e in ev.events):
            return RAISES, fn
        raise Unsupported(f"{qual}: no return reached in configuration {cfg}")
    return ev.returns[-1][0], fn


RAISES = Unknown("the function raises in this configuration")


def r3c_complex_addon(ctx):
    """complex-eigenvalue generator: an add-on send (j < 0) adds to step i exactly the part of the positive-send update that is linear in the
    sent force (and nothing for a zero-order hold); _get_f2x_complex_unc uses the same coefficients (Be through the eigenvector recovery for
    the elastic modes, A/2 and Ap for the rigid-body modes)."""
    zero = {k: F.const(0) for k in ("@f0rb", "@drb0", "@vrb0", "@d0", "@v0", "@f0")}
    for cfg in cx_configs():
        order = cfg["order"]
        tag = f"order {order}, m {cfg['m'] or 'None'}, {'real' if cfg['real'] else 'complex'} system"
        try:
            pos = run_arm(ctx, "complex", cfg, "pos", generic_prefix="carry:")
            add = run_arm(ctx, "complex", cfg, "addon", generic_prefix="carry:")
        except Unsupported as e:
            ctx.error(f"complex generator add-on ({tag}): could not evaluate", None, str(e))
            continue
        lp = add.loop
        for key, what in ((("d", "rb"), "rigid-body displacement"), (("v", "rb"), "rigid-body velocity"), (("d", "k"), "elastic displacement"),
                          (("v", "k"), "elastic velocity")):
            a = add.cell(*key)
            if order == 0:
                _check(ctx, a is None, f"_solve_complex_unc_generator ({tag}): an add-on send leaves the {what} of step i alone (zero-order hold: "
                                     "the step does not depend on its end force)", lp, None if a is None else repr(a["value"]))
                continue
            p_ = pos.value(*key)
            inc = _inc(a)
            if a is None and _good(p_):
                _fail(ctx, f"_solve_complex_unc_generator ({tag}): an add-on send adds exactly the f1-linear part of the {what} update", lp,
                         {"add-on": "no store into column i of that partition", "stores": sorted({c["text"] for c in add.cells})})
                continue
            if inc is None or not _good(p_):
                _not_lowered(ctx, f"complex generator add-on ({tag}): {what} not lowered", lp, {"addon": repr(a["value"]) if a else None, "pos": repr(p_)},
                             a["value"] if a else None, p_)
                continue
            want = p_.subs(zero)
            ok = inc.equals(want)
            _check(ctx, ok, f"_solve_complex_unc_generator ({tag}): an add-on send adds exactly the f1-linear part of the {what} update", lp,
                      None if ok else {"add-on increment": repr(inc), "d(update)/d f1 * F1": repr(want)})
        _judge_inc(ctx, f"_solve_complex_unc_generator ({tag}): an add-on send adds M_rb^-1 F1[rb] to the rigid-body acceleration", lp, add.cell("a", "rb"),
                   pos.value("a", "rb"))
        _judge_inc(ctx, f"_solve_complex_unc_generator ({tag}): an add-on send adds K_rf^-1 F1[rf] to the residual-flexibility displacement", lp,
                   add.cell("d", "rf"), IKRF * F1RF)
        _judge_inc(ctx, f"_solve_complex_unc_generator ({tag}): an add-on send accumulates into the stored force of step i", lp, _force_cell(add), F1ALL,
                   missing="no store into the force history")
    # get_f2x, complex path
    for mass, velo, rf in [(m_, v_, r_) for m_ in (None, "unc", "coupled") for v_ in (True, False) for r_ in (False, True)]:
        if True:
            cfg = {"order": 1, "m": mass, "real": True, "rb": True, "k": True, "rf": rf, "unc": mass != "coupled"}
            tag = f"m {mass or 'None'}, {'velocity' if velo else 'displacement'}, rf {'yes' if rf else 'no'}"
            try:
                got, fn0 = eval_f2x(ctx, UNC, "SolveUnc._get_f2x_complex_unc", cfg, velo, "complex", sided=True)
                pos = run_arm(ctx, "complex", dict(cfg, rf=True), "pos", generic_prefix="carry:", sided=True)
            except Unsupported as e:
                ctx.error(f"_get_f2x_complex_unc ({tag}): not lowered", None, str(e))
                continue
            el, rb, rfv = pos.value("v" if velo else "d", "k"), pos.value("v" if velo else "d", "rb"), pos.value("d", "rf")
            if not _good(got) or not _good(el) or not _good(rb) or not _good(rfv):
                _not_lowered(ctx, f"_get_f2x_complex_unc ({tag}): not lowered", fn0, repr(got), got, el, rb, rfv)
                continue
            # unit add-on force through phi^T: f1 -> phik^T, f1rb -> phir^T; response recovered with phik / phir
            el = el.subs(zero).subs({"@f1": F.fn("T", F.sym("phik"))})
            rb = rb.subs(zero).subs({"@f1rb": F.fn("T", F.sym("phir"))})
            want = F.sym("phik") * el + F.sym("phir") * rb
            if rf and not velo:
                want = want + F.sym("phirf") * rfv.subs({"@f1rf": F.fn("T", F.sym("phirf"))})
            ok = got.equals(want)
            _check(ctx, ok, f"_get_f2x_complex_unc ({tag}): flexibility = phi_k (d update/d f1) phi_k^T + phi_rb (d update/d f1) phi_rb^T of the "
                          "complex generator's first-order step", fn0, None if ok else {"got": repr(got), "want": repr(want)})


# ---------------------------------------------------------------------------------------------------------------- get_f2x
def r4_get_f2x(ctx):
    """flexibility returned by get_f2x is the change a unit add-on force produces in the current step (same coefficient as the add-on arm)"""
    phik, phirf = F.sym("phik"), F.sym("phirf")
    for cdf in (False, True):
        for rf in (False, True):
            cfg = {"order": 1, "rf": rf, "k": True, "cdf": cdf, "m": "unc", "real": True, "unc": True}
            gcfg = {"order": 1, "rf": rf, "k": True}
            try:
                pos, _ = _pos_for_addon(ctx, "cdf" if cdf else "real", gcfg)
            except Unsupported as e:
                ctx.error(f"get_f2x ({'damping as force' if cdf else 'diagonal damping'}, rf {rf}): generator step", None, str(e))
                continue
            for velo in (False, True):
                tag = f"SolveUnc.get_f2x ({'velocity' if velo else 'displacement'}, {'damping as force' if cdf else 'diagonal damping'}, rf {'yes' if rf else 'no'})"
                try:
                    flex, fn = eval_f2x(ctx, UNC, "SolveUnc.get_f2x", cfg, velo, "real")
                except Unsupported as e:
                    ctx.error(tag, None, str(e))
                    continue
                upd = _u(pos.value("v" if velo else "d", "k"), gcfg)
                if flex is RAISES:
                    _fail(ctx, f"{tag}: returns the flexibility for real equations of motion", fn, "raises instead")
                    continue
                if not _good(flex) or not _good(upd):
                    _not_lowered(ctx, tag, fn, f"{flex} {upd}", flex, upd)
                    continue
                want = phik * upd.diff("@f1") * phik
                if rf and not velo:
                    want = want + phirf * need(pos.value("d", "rf")).diff("@f1rf") * phirf
                ok = flex.equals(want)
                _check(ctx, ok, f"{tag}: flexibility = phi (d update / d f1) phi^T, the change a unit add-on force produces in the current step "
                              "(rf part: displacement only)", fn, None if ok else {"get_f2x": repr(flex), "from the generator": repr(want)})
    for velo in (False, True):
        try:
            flex, fn = eval_f2x(ctx, UNC, "SolveUnc.get_f2x", {"order": 0, "rf": True, "k": True, "m": "unc", "real": True, "unc": True}, velo, "real")
        except Unsupported as e:
            ctx.error("SolveUnc.get_f2x (order 0)", None, str(e))
            continue
        ok = _good(flex) and flex.is_zero()
        _check(ctx, ok, f"SolveUnc.get_f2x ({'velocity' if velo else 'displacement'}): zero for zero-order hold (an add-on does not change the current step)", fn,
                  None if ok else repr(flex))
    # SolveExp2: sides of the mass inverse and halves of Q as in the add-on arm of the generator
    for mass in (None, "unc", "coupled"):
        for rf in (False, True):
            gcfg = {"order": 1, "rf": rf, "k": True, "m": mass, "unc": mass != "coupled"}
            try:
                add = run_arm(ctx, "se2", gcfg, "addon", generic_prefix="carry:", sided=True)
            except Unsupported as e:
                ctx.error(f"SolveExp2.get_f2x (m {mass or 'None'}, rf {rf}): generator add-on", None, str(e))
                continue
            for velo in (False, True):
                tag = f"SolveExp2.get_f2x ({'velocity' if velo else 'displacement'}, m {mass or 'None'}, rf {'yes' if rf else 'no'})"
                try:
                    flex, fn = eval_f2x(ctx, SE2, "SolveExp2.get_f2x", dict(gcfg, real=True), velo, "se2", sided=True)
                except Unsupported as e:
                    ctx.error(tag, None, str(e))
                    continue
                inc = _u(_inc(add.cell("v" if velo else "d", "k")), gcfg)
                if flex is RAISES:
                    _fail(ctx, f"{tag}: returns the flexibility for real equations of motion", fn, "raises instead")
                    continue
                if not _good(flex) or inc is None:
                    _not_lowered(ctx, tag, fn, f"{flex} {inc}", flex)
                    continue
                want = phik * inc.diff("@f1") * F.fn("T", phik)
                if rf and not velo:
                    want = want + phirf * need(_inc(add.cell("d", "rf"))).diff("@f1rf") * F.fn("T", phirf)
                ok = flex.equals(want)
                _check(ctx, ok, f"{tag}: flexibility = phi_k (Q M^-1)[{'v half' if velo else 'd half'}] phi_k^T (+ rf part for displacement): the same half of Q "
                              "and the same side of the mass inverse as the add-on arm of the generator", fn,
                          None if ok else {"get_f2x": repr(flex), "from the generator": repr(want)})
    for velo in (False, True):
        try:
            flex, fn = eval_f2x(ctx, SE2, "SolveExp2.get_f2x", {"order": 0, "rf": True, "k": True, "m": "unc", "real": True, "unc": True}, velo, "se2", sided=True)
        except Unsupported as e:
            ctx.error("SolveExp2.get_f2x (order 0)", None, str(e))
            continue
        ok = _good(flex) and flex.is_zero()
        _check(ctx, ok, f"SolveExp2.get_f2x ({'velocity' if velo else 'displacement'}): zero for zero-order hold", fn, None if ok else repr(flex))


# ---------------------------------------------------------------------------------------------------------------- typestate
GEN_STATE = ("self._d", "self._v", "self._a", "self._force")


def _item_of(v):
    """(sequence value, position) of item(seq, k)"""
    u = sem.unfn(v) if _good(v) else None
    if u is None or u[0] != "item" or not u[1][1].is_const():
        return None
    return u[1][0], int(u[1][1].const_value())


def _eval_plain(ctx, rel, qual, cfg, kind, truths=(), fresh=False, inline=None, defaults=()):
    fn = ctx.src.func(rel, qual)
    env, facts = cfg_env(cfg, None, extra_truths=truths)
    a = fn.args
    for p_, d in zip([x.arg for x in a.args][::-1], (a.defaults or [])[::-1]):
        if p_ in defaults and isinstance(d, ast.Constant):
            env[p_] = F.sym(str(d.value)) if isinstance(d.value, bool) or d.value is None else F.const(d.value)
    ev = GenEval(ctx, fn, env=env, facts=facts, inline=_inline(ctx, kind) if inline is None else inline, fresh_arrays=fresh)
    ev.run(fn.body)
    if facts.lost:
        raise Unsupported(f"{qual}: {facts.lost[0]}")
    return ev, fn


def r5_typestate(ctx):
    plans = [
        (UNC, "SolveUnc.generator", "real", [({"unc": True, "real": True, "cdf": True, "m": "unc"}, "self._solve_real_unc_generator_cdforces", False),
                                             ({"unc": True, "real": True, "cdf": False, "m": "unc"}, "self._solve_real_unc_generator", False),
                                             ({"unc": False, "real": True, "cdf": False, "m": "coupled"}, "self._solve_complex_unc_generator", True),
                                             ({"unc": True, "real": False, "cdf": False, "m": "unc"}, "self._solve_complex_unc_generator", True)]),
        (SE2, "SolveExp2.generator", "se2", [({"unc": True, "real": True, "m": "unc"}, "self._solve_se2_generator", False)]),
    ]
    for rel, q, kind, variants in plans:
        # interleaved partitions are refused before anything is allocated or shared
        try:
            ev, fn = _eval_plain(ctx, rel, q, {"slices": False}, kind)
            raised = [k for k, e in enumerate(ev.events) if e[0] == "raise"]
            before = [e for e in ev.events[:raised[0]] if e[0] in ("setattr",) or (e[0] == "call" and e[1].startswith("self."))] if raised else None
            ok = bool(raised) and not before
            _check(ctx, ok, f"{q}: interleaved partitions are refused before anything is allocated or published", fn,
                      None if ok else {"raise reached": bool(raised), "effects before": [e[1] for e in before or []]})
        except Unsupported as e:
            ctx.error(f"{q}: refusal of interleaved partitions", None, str(e))
        for cfg, gname, with_a in variants:
            tag = f"{q} ({'uncoupled' if cfg['unc'] else 'coupled'}, {'real' if cfg['real'] else 'complex'}{', damping as force' if cfg.get('cdf') else ''})"
            try:
                ev, fn = _eval_plain(ctx, rel, q, dict(cfg, slices=True), kind)
            except Unsupported as e:
                ctx.error(f"{tag}: typestate", None, str(e))
                continue
            f0 = F.sym(fn.args.args[2].arg)
            st = [ev.env.get(a) for a in GEN_STATE]
            items = [_item_of(v) for v in st]
            seqv = items[0][0] if items[0] else None
            sc = sem.split_call(seqv) if seqv is not None else None
            if not all(items) or sc is None or sc[0] != "self._init_dva_part" or not all(it[0].equals(seqv) for it in items):
                # not four items of one _init_dva_part(...) call: a publication the rule cannot follow (unless something is provably missing)
                if any(v is None for v in st):
                    _fail(ctx, f"{tag}: _d, _v, _a, _force are published before the body is started", fn, {a: repr(v) for a, v in zip(GEN_STATE, st)})
                else:
                    ctx.error(f"{tag}: the published arrays are not the items of one _init_dva_part(...) call", fn, {a: repr(v) for a, v in zip(GEN_STATE, st)})
                continue
            ok = [it[1] for it in items] == [0, 1, 2, 3]
            _check(ctx, ok, f"{tag}: _d, _v, _a, _force are the four arrays _init_dva_part returns, in that order", fn,
                      None if ok else {a: repr(v) for a, v in zip(GEN_STATE, st)})
            if not ok:
                continue
            pub = [a.arg for a in fn.args.args[1:]]
            part = ctx.src.func(BASE, "_BaseODE._init_dva_part")
            placed = sem.place(sc[1], sc[2], [a.arg for a in part.args.args[1:]])
            okp = all(_eq(placed.get(nm), F.sym(nm)) for nm in pub) and set(placed) <= set(pub)
            _check(ctx, okp, f"{tag}: nt, F0, d0, v0, static_ic reach _init_dva_part under their own names (as they reach _init_dva in the batch solver)", fn,
                      None if okp else {k: repr(v) for k, v in placed.items()})
            kinds = [(k, e) for k, e in enumerate(ev.events)]
            last_pub = max((k for k, e in kinds if e[0] == "setattr" and e[1] in GEN_STATE), default=-1)
            gcalls = [(k, e) for k, e in kinds if e[0] == "call" and e[1].startswith("self._solve_") and e[1].endswith(("_generator", "_generator_cdforces"))]
            def primes(e):
                """next(g) / g.send(None) / g.__next__() on the generator object this call created"""
                if e[0] != "call" or not e[2] or ((sem.split_call(e[2][0]) if _good(e[2][0]) else None) or ("",))[0] != gname:
                    return False
                return (e[1] == "next" and len(e[2]) == 1) or (e[1] == ".__next__" and len(e[2]) == 1) or \
                    (e[1] == ".send" and len(e[2]) == 2 and symname(e[2][1]) == "None")

            nexts = [k for k, e in kinds if primes(e)]
            okg = len(gcalls) == 1 and gcalls[0][1][1] == gname
            if okg:
                pos = gcalls[0][1][2]
                want = [st[0], st[1]] + ([st[2]] if with_a else []) + [f0]
                okg = len(pos) == len(want) and not gcalls[0][1][3] and all(_eq(a, b) for a, b in zip(pos, want))
            _check(ctx, okg, f"{tag}: the generator body for this kind of system receives the published d, v{', a' if with_a else ''} and the initial force", fn,
                      None if okg else [(e[1], [repr(x) for x in e[2]]) for _, e in gcalls])
            okn = bool(nexts) and all(k > last_pub for k in nexts) and bool(gcalls) and all(k > gcalls[0][0] for k in nexts)
            _check(ctx, okn, f"{tag}: the arrays are published before the generator is primed", fn, None if okn else {"next": nexts, "last publish": last_pub})
            r = ev.returns[-1][0] if ev.returns else None
            okr = isinstance(r, tuple) and len(r) == 3 and _good(r[0]) and (sem.split_call(r[0]) or ("",))[0] == gname and _eq(r[1], st[0]) and _eq(r[2], st[1])
            _check(ctx, okr, f"{tag}: returns (generator, d, v) - the arrays the generator updates are the ones the caller watches", fn,
                      None if okr else repr(r))
    # SolveCDF.generator only forwards to SolveUnc.generator
    try:
        ev, fn = _eval_plain(ctx, CDF, "SolveCDF.generator", {"unc": True, "real": True, "cdf": True, "m": "unc"}, "real", inline={})
        r = ev.returns[-1][0] if ev.returns else None
        sc = sem.split_call(r) if _good(r) else None
        base = ctx.src.func(UNC, "SolveUnc.generator")
        from .c08_effects import Program
        prog = Program(ctx, [BASE, UNC, SE2, CDF])
        target = None
        if sc is not None and sc[0] == ".generator" and len(sc[1]) >= 1 and (sem.split_call(sc[1][0]) or ("",))[0] == "super":
            target = prog.method("SolveCDF", "generator", after="SolveCDF")[0]        # super().generator(...)
        elif sc is not None and sc[0].endswith(".generator") and sc[0].count(".") == 1 and len(sc[1]) >= 1 and symname(sc[1][0]) == "self" \
                and sc[0].split(".")[0] in prog.mro("SolveCDF")[1:]:
            target = prog.method(sc[0].split(".")[0], "generator")[0]                  # Base.generator(self, ...)
        ok = target is not None and target is base
        if ok:
            placed = sem.place(sc[1][1:], sc[2], [a.arg for a in base.args.args[1:]])
            pub = [a.arg for a in fn.args.args[1:]]
            ok = all(_eq(placed.get(nm), F.sym(nm)) for nm in pub) and set(placed) <= set(pub)
        _check(ctx, ok, "SolveCDF.generator: forwards nt, F0, d0, v0, static_ic to SolveUnc.generator under their own names and returns its result", fn,
                  None if ok else repr(r))
    except (Unsupported, AnchorError) as e:
        ctx.error("SolveCDF.generator: forwarding", None, str(e))
    # finalize
    for get_force in (False, True):
        try:
            fn = ctx.src.func(BASE, "_BaseODE.finalize")
            gf = F.sym(fn.args.args[1].arg)
            ev, fn = _eval_plain(ctx, BASE, "_BaseODE.finalize", {"unc": True, "real": True, "m": "unc"}, "real", truths=[(gf, get_force)])
        except Unsupported as e:
            ctx.error("finalize: typestate", None, str(e))
            continue
        want = [F.sym(a) for a in GEN_STATE]
        calc = [e for e in ev.events if e[0] == "call" and e[1] == "self._calc_acce_kdof"]
        sig = [a.arg for a in ctx.src.func(BASE, "_BaseODE._calc_acce_kdof").args.args[1:]]
        placed = sem.place(calc[0][2], calc[0][3], sig) if len(calc) == 1 and len(calc[0][2]) <= len(sig) else {}
        ok = len(calc) == 1 and len(sig) == 4 and set(placed) == set(sig) and all(_eq(placed[a], b) for a, b in zip(sig, want))
        _check(ctx, ok, f"finalize (get_force {get_force}): acceleration is recovered from equilibrium with the published d, v, a and the force finally in effect", fn,
                  None if ok else [[repr(x) for x in e[2]] for e in calc])
        dels = {e[1] for e in ev.events if e[0] == "del"}
        _check(ctx, set(GEN_STATE) <= dels, f"finalize (get_force {get_force}): the published arrays are forgotten", fn, sorted(dels), nontrivial=False)
        r = ev.returns[-1][0] if ev.returns else None
        obj = symname(r) if _good(r) else None
        ok = obj is not None and ev.heap.get(obj) == "namespace" and all(_eq(ev.env.get(f"{obj}.{k}"), w) for k, w in zip("dva", want))
        _check(ctx, ok, f"finalize (get_force {get_force}): the solution holds the published d, v, a", fn,
                  None if ok else {"returned": repr(r), "members": {k: repr(v) for k, v in ev.env.items() if obj and k in [f"{obj}.{x}" for x in "dva"]}})
        if get_force:
            nm = None
            for k, v in ev.env.items():
                if obj and k == obj + ".force" and _eq(v, want[3]):
                    nm = k
            _check(ctx, nm is not None, "finalize: with get_force the force history finally in effect is returned", fn)
    # _force is read only by finalize and the generator functions
    readers = []
    consts = G.ModConsts(ctx.src)
    for rel in (BASE, UNC, SE2, O.NM, O.FD):
        m = ctx.src.mod(rel)
        for qq, f2 in m.funcs.items():
            for n in walk_no_nested(f2):
                if isinstance(n, ast.Attribute) and n.attr == "_force" and isinstance(n.ctx, ast.Load):
                    readers.append(qq)
                if isinstance(n, ast.Call) and dotted(n.func) == "getattr" and len(n.args) >= 2:
                    a = n.args[1]
                    names = set()
                    if isinstance(a, ast.Constant) and isinstance(a.value, str):
                        names = {a.value}
                    elif isinstance(a, ast.Name):
                        # a name bound by a loop / comprehension over a constant tuple
                        for x in walk_no_nested(f2):
                            it = None
                            if isinstance(x, ast.comprehension) and isinstance(x.target, ast.Name) and x.target.id == a.id:
                                it = x.iter
                            if isinstance(x, ast.For) and isinstance(x.target, ast.Name) and x.target.id == a.id:
                                it = x.iter
                            if isinstance(it, ast.Name):
                                v = consts.get(rel, it.id)
                                if isinstance(v, tuple):
                                    names |= {G.strconst(e) for e in v}
                                else:
                                    names.add("?")
                            elif it is not None:
                                names.add("?")
                    if "_force" in names or "?" in names:
                        readers.append(qq)
    allowed = {"_BaseODE.finalize"} | {q_ for _, q_, _ in GENS.values()}
    # a private helper whose every call site lies in finalize / a generator body (or in such a helper) reads on their behalf
    sites = {}
    for rel in (BASE, UNC, SE2, CDF, O.NM, O.FD):
        try:
            m = ctx.src.mod(rel)
        except Exception:  # noqa
            continue
        for qq, f2 in m.funcs.items():
            if "#" in qq:
                continue
            for n in walk_no_nested(f2):
                if isinstance(n, ast.Call):
                    d_ = dotted(n.func) or ""
                    sites.setdefault(d_.split(".")[-1], set()).add(qq)
                elif isinstance(n, (ast.Attribute, ast.Name)) and isinstance(getattr(n, "ctx", None), ast.Load):
                    nm_ = n.attr if isinstance(n, ast.Attribute) else n.id
                    sites.setdefault("&" + nm_, set()).add(qq)      # the function taken as a value somewhere

    def on_behalf(q_, seen=()):
        if q_ in allowed:
            return True
        nm_ = q_.split(".")[-1]
        callers = sites.get(nm_, set())
        if not nm_.startswith("_") or nm_.startswith("__") or not callers or q_ in seen:
            return False
        mentions = sites.get("&" + nm_, set())
        if not mentions <= callers:
            return False                                         # escapes as a value: callers unknown
        return all(on_behalf(c_, seen + (q_,)) for c_ in callers)

    bad_readers = sorted(q_ for q_ in set(readers) if not on_behalf(q_))
    _check(ctx, not bad_readers, "the stored force history `_force` is read only by the generator bodies and finalize (or private helpers only they call)",
              BASE + ":1", bad_readers)
    # _init_dva_part
    inl = G.inline_table(ctx, [(BASE, "_BaseODE")], exclude=("_init_dva_part", "_init_dva", "generator", "tsolve", "fsolve", "finalize"))
    for unc in (True, False):
        tag = f"_init_dva_part ({'uncoupled' if unc else 'coupled'})"
        try:
            ev, fn = _eval_plain(ctx, BASE, "_BaseODE._init_dva_part", {"unc": unc, "m": "unc" if unc else "coupled", "rf": True, "k": True, "real": True}, "real",
                                 fresh=True, inline=inl, defaults=("istime",))
        except Unsupported as e:
            ctx.error(f"{tag}: initial arrays", None, str(e))
            continue
        f0 = F.sym(fn.args.args[2].arg)
        r = ev.returns[-1][0] if ev.returns else None
        ok = isinstance(r, tuple) and len(r) == 4 and all(symname(x) in ev.fresh for x in r) and len({symname(x) for x in r}) == 4
        if ok:
            kind, src = ev.fresh[symname(r[3])]
            zero = kind == "zeros" or (kind == "copy" and symname(src) in ev.fresh and ev.fresh[symname(src)][0] == "zeros"
                                       and not any(c["root"] is not None and _eq(c["root"], src) for c in ev.gcells))
            cells = [c for c in ev.gcells if c["root"] is not None and _eq(c["root"], r[3])]
            ok = zero and len(cells) == 1 and is_all(cells[0]["rows"]) and _good(cells[0]["col"]) and cells[0]["col"].is_zero() and _eq(cells[0]["value"], f0)
        _check(ctx, ok, f"{tag}: the force history starts as zeros with column 0 = F0", fn, None if ok else repr(r))
        if isinstance(r, tuple) and len(r) == 4:
            for k, nm, what in ((0, fn.args.args[3].arg, "displacement"), (1, fn.args.args[4].arg, "velocity")):
                cells = [c for c in ev.gcells if c["root"] is not None and _eq(c["root"], r[k]) and symname(c["rows"]) == "self.nonrf"]
                ok = len(cells) == 1 and _good(cells[0]["col"]) and cells[0]["col"].is_zero() and \
                    _eq(cells[0]["value"], F.fn("ref", F.sym(nm), F.sym("self.nonrf"), G.ALLM))
                _check(ctx, ok, f"{tag}: a given initial {what} lands in column 0 of the {what} array (non-rf equations), as in the batch solver", fn,
                          None if ok else [(c["text"], repr(c["value"])) for c in cells])
            cells = [c for c in ev.gcells if c["root"] is not None and _eq(c["root"], r[0]) and symname(c["rows"]) == "self.rf"]
            ok = len(cells) == 1 and _good(cells[0]["col"]) and cells[0]["col"].is_zero() and \
                _eq(cells[0]["value"], IKRF * F.fn("ref", f0, F.sym("self.rf"), G.ALLM))
            _check(ctx, ok, f"{tag}: the rf displacement of step 0 is the static solution K_rf^-1 F0[rf] (as in the batch solver)", fn,
                      None if ok else [repr(c["value"]) for c in cells])


# ---------------------------------------------------------------------------------------------------------------- effects on the solver object
ENTRY = ("tsolve", "generator", "finalize", "get_f2x")


def r7_constructor_state_is_read_only(ctx):
    """no method reachable from tsolve / generator (and the generator bodies) / finalize / get_f2x stores in place into an array the constructor
    computed: such a store changes every later solution of the same solver object, so the generator no longer reproduces the batch solution"""
    from .c08_effects import Program
    files = [BASE, UNC, SE2, CDF]
    prog = Program(ctx, files)
    evidence = prog.array_evidence(files)
    nfun = 0
    reported = set()
    for cls in ("SolveUnc", "SolveCDF", "SolveExp2"):
        if cls not in prog.classes:
            raise AnchorError(f"class {cls}")
        protected = prog.ctor_attrs(cls)
        funcs = prog.reachable(cls, ENTRY)
        # generator bodies are started by generator(): reachable through self.<name>(...) calls already
        for fn, c, dc in funcs:
            writes, _ = prog.analyse(fn, c, dc)
            bad = []
            for o, node, how in writes:
                if o[0] != "attr":
                    continue
                comp = o[1].split(".")
                if len(comp) < 2 or comp[1] not in protected:
                    continue
                if how.startswith("augmented assignment") and o[1] not in evidence:
                    continue          # a number: `n += 1` rebinds
                bad.append((o[1], node, how))
            q = f"{dc + '.' if dc else ''}{fn.name}"
            if (q, cls) in reported:
                continue
            reported.add((q, cls))
            nfun += 1
            if bad:
                for path, node, how in bad:
                    _fail(ctx, f"{q} (as reached from {cls}.{'/'.join(ENTRY)}): stores in place into `{path}`, which the constructor computed and every "
                             "later solution of this solver object reads", node,
                             {"how": how, "statement": ast.unparse(node)[:120],
                              "consequence": "the first solution damages the solver; a later generator run (or tsolve) no longer solves the system it was built for"},
                             key=f"C08-R7|{q}|{path}")
            else:
                ctx.ok(f"{q} (as reached from {cls}): no in-place store into an array the constructor computed", fn)
    _check(ctx, nfun >= 20, f"effect rule bound to {nfun} reachable functions", BASE + ":1", nontrivial=False)


# ---------------------------------------------------------------------------------------------------------------- partition typing
from .e3_spaces import Arr, Typer  # noqa: E402


class TraceTyper(Typer):
    """E3 typer run over the statements one configuration actually executes (branches are already resolved by value, helpers are entered with
    the types of their arguments), so the index-space equivalences of the configuration hold for the whole run"""

    def __init__(self, *a, **k):
        super().__init__(*a, **k)
        self.ret_types = {}

    def call(self, node):
        if id(node) in self.ret_types:
            return self.ret_types[id(node)]
        d = dotted(node.func)
        if d == "np.transpose" and len(node.args) == 1:
            t = self.ty(node.args[0])
            return t.T if isinstance(t, Arr) else None
        if d in ("np.ravel",) and len(node.args) == 1:
            t = self.ty(node.args[0])
            return Arr(t.s[0], None, t.r[0], None, one_d=True) if isinstance(t, Arr) else None
        return super().call(node)

    # orientation of a vector given an inserted axis: v[:, None] is a column (one row per entry of v), v[None, :] a row.  "ONE" is the
    # inserted axis: it lines up with any space.
    def _ne(self, a, b):
        if a == "ONE" or b == "ONE":
            return False
        return super()._ne(a, b)

    def _index_elem(self, e):
        if dotted(e) in ("np.newaxis", "numpy.newaxis"):
            return "newaxis"
        return super()._index_elem(e)

    def subscript(self, node):
        elts = list(node.slice.elts) if isinstance(node.slice, ast.Tuple) else [node.slice]
        if len(elts) == 2:
            kinds = [self._index_elem(e) for e in elts]
            if sorted(map(str, kinds)) == ["newaxis", "slice"]:
                base = self.ty(node.value)
                if isinstance(base, Arr):
                    if kinds[1] == "newaxis":
                        return Arr(base.s[0], "ONE", base.r[0], None)
                    return Arr("ONE", base.s[0], None, base.r[0])
        return super().subscript(node)

    def binop(self, node):
        a, b = self.ty(node.left), self.ty(node.right)
        if isinstance(node.op, ast.MatMult):
            return self.matmul(node, a, b)
        if isinstance(a, Arr) and isinstance(b, Arr):
            sa, sb = a.s[0], b.s[0]
            if b.one_d and not a.one_d and a.s[1] is not None:
                sa = a.s[1]
            elif a.one_d and not b.one_d and b.s[1] is not None:
                sb = b.s[1]
            if sa is not None and sb is not None:
                self._res(node)
                if self._ne(sa, sb):
                    self.report("elementwise-space", node, f"`{ast.unparse(node)}`: left operand rows in space {sa}, right operand rows in space {sb}")
            ca, cb = a.s[1], b.s[1]
            if not a.one_d and not b.one_d and ca is not None and cb is not None and "ONE" in (a.s[0], b.s[0], ca, cb) and self._ne(ca, cb):
                # an operand with an inserted axis fixes the orientation: the trailing axes must line up as well
                self._res(node)
                self.report("elementwise-space", node, f"`{ast.unparse(node)}`: trailing axis of the left operand in space {ca}, of the right operand in space {cb} "
                                                       "(a vector with an inserted axis scales the wrong axis)")
            ra, rb = a.r[0], b.r[0]
            r0 = ra if (isinstance(node.op, (ast.Add, ast.Sub)) and ra == rb) else None
            s0 = sa if sa not in (None, "ONE") else (sb if sb is not None else sa)
            c1 = a.s[1] if a.s[1] not in (None, "ONE") else (b.s[1] if b.s[1] is not None else a.s[1])
            return Arr(s0, c1, r0, None)
        if isinstance(node.op, (ast.Mult, ast.Div, ast.Pow)):
            t = a if isinstance(a, Arr) else b
            if isinstance(t, Arr):
                return Arr(t.s[0], t.s[1], None, None)
        if isinstance(a, Arr):
            return a
        if isinstance(b, Arr):
            return b
        from .e3_spaces import SCALAR
        if a == SCALAR and b == SCALAR:
            return SCALAR
        return None


def type_trace(trace, attrs, params, equiv, label, bad, checked):
    def report(kind, node, detail):
        bad.setdefault(id(node), []).append((kind, node, detail, label))

    T = TraceTyper(attrs, params, O.SIZE_NAMES, report, label)
    T.attrs.setdefault("self._force", Arr("N", None))
    T.equiv = list(equiv)
    frames = []
    for ev in trace:
        if ev[0] == "stmt":
            st = ev[1]
            if isinstance(st, ast.Return) and frames:
                frames[-1]["ret"] = T.ty(st.value) if st.value is not None else None
            elif isinstance(st, (ast.Assign, ast.AugAssign, ast.AnnAssign, ast.Expr, ast.Return)):
                T.stmt(st)
        elif ev[0] == "bind":
            T.env[ev[1]] = Arr("N", None)
        elif ev[0] in ("enter", "enter_closure"):
            node, fn = ev[1], ev[2]
            names = [a.arg for a in fn.args.posonlyargs + fn.args.args]
            if names and names[0] in ("self", "cls") and isinstance(node.func, ast.Attribute):
                names = names[1:]
            new = dict(T.env) if ev[0] == "enter_closure" else {}     # a function defined here reads the scope that defined it
            for p_, a in zip(names, node.args):
                new[p_] = T.ty(a)
            for k in node.keywords:
                if k.arg in names:
                    new[k.arg] = T.ty(k.value)
            frames.append({"env": T.env, "node": node, "ret": None})
            T.env = new
        elif ev[0] == "exit":
            fr = frames.pop()
            T.env = fr["env"]
            T.ret_types[id(fr["node"])] = fr["ret"]
    for n in T.checked:
        checked[id(n)] = n


def _equiv(cfg, mode):
    if mode != "U":
        return []
    if cfg.get("k", True) and not cfg.get("rf", True):
        return [("N", "K")]
    if cfg.get("rf", True) and not cfg.get("k", True):
        return [("N", "RF")]
    return []


def r6_typing(ctx):
    U, E, X = O.mode_U(), O.mode_E(), O.exp2_attrs()
    dpar = {1: Arr("N", None, "d"), 2: Arr("N", None, "v")}
    plan = [("real", U, "mode U", u_configs()), ("cdf", U, "mode U", u_configs()), ("complex", E, "mode E", cx_configs()), ("se2", X, "SolveExp2", se2_configs())]
    for kind, attrs, label, configs in plan:
        rel, qual, mode = GENS[kind]
        fn = ctx.src.func(rel, qual)
        names = [a.arg for a in fn.args.args]
        params = {names[1]: dpar[1], names[2]: dpar[2], names[-1]: Arr("N", None)}
        if mode == "E":
            params[names[3]] = Arr("N", None, "a")
        bad, checked = {}, {}
        for cfg in configs:
            for which in ("pos", "addon"):
                try:
                    if which == "addon":
                        tarms = [addon_arm(ctx, kind, cfg)]
                    elif kind == "cdf" and cfg.get("k", True):
                        # (every world the carried-state rule had to tell apart for a positive send: each statement is typed on the paths that reach it)
                        tarms = [a_ for a_ in _generic_arms(ctx, kind, cfg) if a_.canon.which == "pos"]
                    else:
                        tarms = [run_arm(ctx, kind, cfg, which, generic_prefix="carry:")]
                except Unsupported as e:
                    ctx.error(f"{qual} [{label}] ({cfg_tag(cfg)}, {which}): not evaluated", fn, str(e))
                    continue
                for arm in tarms:
                    type_trace(arm.ev.trace, attrs, params, _equiv(cfg, mode), label, bad, checked)
        _report_typing(ctx, qual, label, bad, checked)
    # the get_f2x family and the allocation of the arrays
    jobs = []
    for cdf in (False, True):
        for rf in (False, True):
            for velo in (False, True):
                jobs.append((UNC, "SolveUnc.get_f2x", "real", U, "mode U", {"order": 1, "rf": rf, "k": True, "cdf": cdf, "m": "unc", "real": True, "unc": True}, velo))
    for mass in (None, "unc", "coupled"):
        for velo in (False, True):
            jobs.append((UNC, "SolveUnc._get_f2x_complex_unc", "complex", E, "mode E",
                         {"order": 1, "m": mass, "real": True, "rb": True, "k": True, "rf": True, "unc": mass != "coupled"}, velo))
            for rf in (False, True):
                jobs.append((SE2, "SolveExp2.get_f2x", "se2", X, "SolveExp2", {"order": 1, "rf": rf, "k": True, "m": mass, "unc": mass != "coupled", "real": True}, velo))
    by = {}
    for rel, qual, kind, attrs, label, cfg, velo in jobs:
        fn = ctx.src.func(rel, qual)
        names = [a.arg for a in fn.args.args]
        env, facts = cfg_env(cfg, None, extra_truths=[(F.sym(names[2]), velo)])
        ev = GenEval(ctx, fn, env=env, facts=facts, inline=_inline(ctx, kind), refhook=F2xCanon(names[1]), strict=True)
        bad, checked = by.setdefault((qual, label), ({}, {}))
        try:
            ev.run(fn.body)
        except Unsupported as e:
            ctx.error(f"{qual} [{label}] ({cfg_tag(cfg)}): not evaluated", fn, str(e))
            continue
        type_trace(ev.trace, attrs, {names[1]: Arr("PHYS", "N")}, _equiv(cfg, "U" if label != "mode E" else "E"), label, bad, checked)
    for (qual, label), (bad, checked) in by.items():
        _report_typing(ctx, qual, label, bad, checked)
    inl = G.inline_table(ctx, [(BASE, "_BaseODE")], exclude=("_init_dva_part", "_init_dva", "generator", "tsolve", "fsolve", "finalize"))
    bad, checked = {}, {}
    for unc in (True, False):
        try:
            ev, fn = _eval_plain(ctx, BASE, "_BaseODE._init_dva_part", {"unc": unc, "m": "unc" if unc else "coupled", "rf": True, "k": True, "real": True}, "real",
                                 inline=inl, defaults=("istime",))
        except Unsupported as e:
            ctx.error("_BaseODE._init_dva_part [mode U]: not evaluated", None, str(e))
            continue
        names = [a.arg for a in fn.args.args]
        type_trace(ev.trace, U, {names[2]: Arr("N", None), names[3]: Arr("N", None, "d"), names[4]: Arr("N", None, "v"), "d": dpar[1], "v": dpar[2]}, [], "mode U",
                   bad, checked)
    _report_typing(ctx, "_BaseODE._init_dva_part", "mode U", bad, checked)


def _report_typing(ctx, qual, label, bad, checked):
    seen = set()
    for lst in bad.values():
        for kind, node, detail, lab in lst:
            key = f"C08-R6|{qual}|{label}|{kind}|{ast.unparse(node)[:90]}"
            if key in seen:
                continue
            seen.add(key)
            _fail(ctx, f"{qual} [{label}]: {kind}", node, detail, key=key)
    for i, node in checked.items():
        if i in bad:
            continue
        ctx.ok(f"{qual} [{label}]: `{ast.unparse(node)[:70]}` index/operand spaces agree", node)


RULES = [
    ("C08-R1", r1_carried_state, 225),
    ("C08-R2", r2_step_equals_batch, 140),
    ("C08-R2c", r2c_complex_path, 130),
    ("C08-R3", r3_addon_linear_part, 140),
    ("C08-R3c", r3c_complex_addon, 90),
    ("C08-R4", r4_get_f2x, 24),
    ("C08-R5", r5_typestate, 44),
    ("C08-R6", r6_typing, 120),
    ("C08-R7", r7_constructor_state_is_read_only, 40),
]
LEVEL = "other"
EXPLANATION = ("Static, decided on values: every generator body is executed symbolically per configuration of the solver object (order, partitions "
               "present, mass None/diagonal/full, real/complex) and per kind of send; array accesses are references (array, partition, column) "
               "however the source reaches them. The state carried from one send to the next (found by def-use) is exactly the step index plus, "
               "for damping-as-force, a cached force whose tag is re-validated by meaning; the positive-send update is the batch step as an exact "
               "symbolic identity in (column i-1, Force[:, i-1], sent force); an add-on adds exactly the f1-linear part; get_f2x uses that same "
               "coefficient (same half of Q and same side of the mass inverse for SolveExp2); typestate of generator()/finalize(); partition typing "
               "of the executed paths; no method reachable from tsolve/generator/finalize/get_f2x stores in place into constructor state.")
MANIFEST = {
    "text": "Partial claim decided statically: (R1) the loop-carried state of all 15 generator loops, found by def-use on a symbolic iteration, is exactly the "
            "step index (+ one cached damping force and its tag for damping-as-force; in every world 'step j-1 / j / j+1 / j-2 / any other step was solved "
            "last' a force cached for a step other than j-1 never enters step j; the tag is set by every positive send, the cache follows V[:, i] on add-ons); "
            "(R2) positive send == batch step for the uncoupled, damping-as-force and SolveExp2 generators in every order / rf / rf-only / mass configuration; "
            "(R3) add-on increment == d(update)/d f1 * F1 and touches nothing else; (R4) get_f2x == phi (d update/d f1) phi^T incl. the rf part, for "
            "SolveExp2 with the same half of Q and the same side of M^-1 as the add-on arm; (R5) generator() publishes the four arrays of _init_dva_part "
            "before priming and hands them to the right body, finalize() recovers acceleration from exactly those, _init_dva_part starts the force history "
            "with F0 and the rf displacement with K_rf^-1 F0[rf]; (R6) index-space typing of the executed paths; (R7) constructor-computed arrays are never "
            "stored into in place after construction (alias analysis). By induction over sends these give the batch solution for every finite history in "
            "the documented domain. (R2c/R3c) the same for the complex-eigenvalue generator against SolveUnc._solve_complex_unc in 12 configurations. "
            "Not decided: bit-equality of differently associated sums, add-on before any positive send.",
    "note": "Trusted: CPython ast; verifier/e2_formula.py with matrix products abstracted to commutative products (a wrong coefficient or term is seen; a wrong "
            "multiplication order only where the side is tracked: lu_solve / transposes in SolveExp2.get_f2x versus the generator); lemma used: the cached "
            "damping force, when its tag says step j-1, equals bo @ V[:, j-1]. The batch solvers are evaluated by the same engine for one generic time step "
            "(verifier/c08_batch.py): whole-history slices are series, what a time loop carries is checked to be the column just stored, and the two "
            "carried values for which that is not a syntactic identity (the batch damping force; the modal state y of the complex solver) are used "
            "as lemmas with their own initial values as definitions. State kept across sends may live in locals, tuples, dicts, namespaces or small "
            "record classes (their methods are followed on the object); helpers may be functions, methods, nested functions, lambdas, partials, getters, "
            "properties, callbacks handed to a shared receiving loop, `yield from` sub-generators; library functions are known under any imported "
            "name (operator.mul / matmul dispatch). Arrays updated in place are followed by object identity (`x += y` on a helper's parameter, "
            "`np.add(.., out=x)`, `x[:] = ..`, a column bound to a local and updated through it) where the object is provably an array - otherwise "
            "every other name of the object is unknown; a load of a cell stored earlier in the same send reads the stored value; endless `for` "
            "loops (itertools.count, iter(int, 1)) are receiving loops; batch loops may iterate over columns (zip / enumerate / range / sliced "
            "transposes). A comparison that fails on a value containing a call the engine does not interpret is undecided (exit 2), a definite "
            "NameError / endless loop / shape mismatch found on the way a violation. Not followed (exit 2): break / else on the receiving loop, "
            "nested receiving loops, yield in an except handler, match, partial in-place stores into carried arrays, in-place methods (sort, put ...), "
            "helpers that store into array views but live outside the package.",
    "technique": "symbolic execution per configuration + def-use of loop-carried state + symbolic step formulas compared with the batch loop body + "
                 "differentiation for the add-on part + may-alias effect analysis",
}
