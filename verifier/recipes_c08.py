"""C08 self-test recipes (text edits of /repo sources applied to scratch copies by verifier/selftest.py in the thorough tier).

break   : behaviour-breaking edits for the obligations that decide on values (guard of the cached damping force by meaning, SE2 add-on halves,
          sides of the mass inverse in SolveExp2.get_f2x, rf-only loops, initial rf displacement, typestate of generator()/finalize(),
          in-place stores into constructor state)
neutral : behaviour-preserving refactorings the rules must stay silent on (ternary <-> if/else with inverted test and `continue`, `msg = yield`
          and `while 1`, getattr/delattr loops over a constant tuple, slice objects, np.transpose / np.identity / np.fill_diagonal / np.dot
          spellings, partition-first post-multiplication, temporaries, De Morgan on the dispatch of generator())

Second hardening pass: the blocks of verifier/c08_recipe_blocks.py (whole-function refactorings verified byte-identical over 240,923 digests) are
"neutral" recipes; every construct the engine learnt for them has "break" recipes - the same refactored form with one wrong edit inside:
  batch side   : per-step indexing instead of whole-history slices, tuple state carried by the time loop, a helper closure, a local array read
                 back by the loop, a dict of matrices, loop variable counting the stored column
  generator    : cache in a dict + nested helper functions + one loop for all configurations + try/finally; functools.partial over a function
                 picked from a tuple by `order == 1`, operator.attrgetter / itemgetter, lambda, starred unpacking and calls, list.append, zip over
                 a string; `yield from` a generator method / a nested generator function
  typestate    : setattr loop over zip, `body(*args)`, generator.send(None) / __next__(), chained + starred unpacking, dict state + **kwargs

Third hardening pass: the blocks of verifier/c08_recipe_blocks3.py (verified byte-identical over the 84,066 records of compare_c08.py) are "neutral"
recipes, and each new form has "break" recipes with one wrong edit inside:
  state / arrays updated in place : the cached damping force through `np.add(.., out=)`, a `[:]` store, a helper's parameter (`frc += ..` inside a static
                 method: `frc = frc + ..` there leaves the caller's cache stale); columns bound to locals and updated through them (`col = V[:, i]; col += ..`,
                 `col[:] = ..`, `np.add(col, .., out=col)`); a scratch buffer refilled through `out=`
  objects / dispatch : a small class defined inside the generator whose methods do the step; static methods that take the solver object under another name;
                 one shared receiving loop that is handed the add-on / advance callbacks; a property deciding the order; functools.reduce over the terms;
                 library functions under imported names (`from operator import matmul as _mm`, `times = mul if unc else matmul`), index tuples
  loops        : `for _ in itertools.count()` / `iter(int, 1)` as receiving loops; batch loops over `zip(range(1, nt), PQF.T)`, sliced transposes"""
from .c08_recipe_blocks import BLOCKS
from .c08_recipe_blocks3 import BLOCKS3

UNC = "pyyeti/ode/solveunc.py"
SE2 = "pyyeti/ode/solveexp2.py"
BASE = "pyyeti/ode/_base_ode_class.py"

_CDF_STEP = ("                        dmpfrc0 = dmpfrc1 if i_last == i - 1 else bo @ vi\n"
             "                        i_last = i\n"
             "                        _f0 = F0k - dmpfrc0\n")

_CDF_TAIL = "                        i_last = i\n                        _f0 = F0k - dmpfrc0\n"

RECIPES = [
    # ------------------------------------------------------------------ breaking
    ("C08", "break", ["C08-R1"], UNC, _CDF_STEP,
     "                        dmpfrc0 = bo @ vi if i_last == i else dmpfrc1\n                        i_last = i\n                        _f0 = F0k - dmpfrc0\n",
     "cache guard: recompute only when the current step is redone (stale force on a jump back)"),
    ("C08", "break", ["C08-R1"], UNC, _CDF_STEP,
     "                        if i_last != i - 1:\n                            dmpfrc0 = dmpfrc1\n                        else:\n                            dmpfrc0 = bo @ vi\n"
     "                        i_last = i\n                        _f0 = F0k - dmpfrc0\n",
     "cache guard as if/else with the arms the wrong way round"),
    ("C08", "break", ["C08-R1"], UNC, _CDF_STEP,
     "                        dmpfrc0 = dmpfrc1\n                        i_last = i\n                        _f0 = F0k - dmpfrc0\n",
     "cached force used without validation"),
    ("C08", "break", ["C08-R1", "C08-R2"], UNC, _CDF_STEP,
     "                        dmpfrc0 = dmpfrc1 if i_last == i - 1 else bo @ di\n                        i_last = i\n                        _f0 = F0k - dmpfrc0\n",
     "recompute arm uses the displacement of step i-1"),
    # order comparisons of the step indices (round-5 seed L and its siblings): decided on the send histories redo / jump back / skip ahead / far
    ("C08", "break", ["C08-R1", "C08-R2"], UNC, _CDF_STEP, "                        dmpfrc0 = bo @ vi if i < i_last else dmpfrc1\n" + _CDF_TAIL,
     "cache guard: recompute only after a step back (send(i) twice uses the force of step i as that of step i-1)"),
    ("C08", "break", ["C08-R1"], UNC, _CDF_STEP, "                        dmpfrc0 = dmpfrc1 if i <= i_last + 1 else bo @ vi\n" + _CDF_TAIL,
     "cache guard: cache used whenever the cached step is not before i-1 (stale on redo and jump back)"),
    ("C08", "break", ["C08-R1", "C08-R2"], UNC, _CDF_STEP, "                        dmpfrc0 = dmpfrc1 if i_last < i else bo @ vi\n" + _CDF_TAIL,
     "cache guard: cache used whenever the cached step is an earlier one (stale on a skip ahead)"),
    ("C08", "break", ["C08-R1", "C08-R2"], UNC, _CDF_STEP,
     "                        if i_last >= i:\n                            dmpfrc0 = bo @ vi\n                        else:\n                            dmpfrc0 = dmpfrc1\n" + _CDF_TAIL,
     "cache guard as if/else on i_last >= i (stale on a skip ahead)"),
    ("C08", "break", ["C08-R1"], UNC, "        bo = self.bo\n        i_last = 0\n\n        if self.order == 1:\n", "        bo = self.bo\n        i_last = 1\n\n        if self.order == 1:\n",
     "cache tagged with step 1 while it holds the force of step 0"),
    ("C08", "break", ["C08-R3"], SE2, "                        PQF = Q @ F1[kdof]\n                        D[:, i] += PQF[ksize:]\n                        V[:, i] += PQF[:ksize]\n",
     "                        PQF = Q @ F1[kdof]\n                        D[:, i] += PQF[:ksize]\n                        V[:, i] += PQF[ksize:]\n",
     "SE2 add-on halves swapped"),
    ("C08", "break", ["C08-R4"], SE2, "                        Q = la.lu_solve(self.invm, Q.T, trans=1, check_finite=False).T\n                n = self.nonrfsz\n",
     "                        Q = la.lu_solve(self.invm, Q, check_finite=False)\n                n = self.nonrfsz\n",
     "SolveExp2.get_f2x: mass inverse applied from the left"),
    ("C08", "break", ["C08-R4"], SE2, "                if velo:\n                    flex = phik @ Q[:n] @ phik.T\n", "                if not velo:\n                    flex = phik @ Q[:n] @ phik.T\n",
     "SolveExp2.get_f2x: halves of Q exchanged between displacement and velocity"),
    ("C08", "break", ["C08-R2"], SE2, "                        i = j\n                        Force[:, i] = F1\n                        d[:, i] = ikrf @ F1[rf]\n",
     "                        i = j\n                        Force[:, i] = F1\n                        d[:, i - 1] = ikrf @ F1[rf]\n",
     "SE2 rf-only loop (coupled) stores into the previous column"),
    ("C08", "break", ["C08-R5"], BASE, "                d[self.rf, 0] = self.ikrf.ravel() * F0[self.rf]\n", "                d[self.rf, 0] = self.ikrf.ravel() * F0[self.nonrf]\n",
     "_init_dva_part: initial rf displacement from the wrong partition of F0"),
    ("C08", "break", ["C08-R5"], BASE, "        self._calc_acce_kdof(d, v, a, f)\n        sol = self._solution(d, v, a)\n        if get_force:",
     "        self._calc_acce_kdof(v, d, a, f)\n        sol = self._solution(d, v, a)\n        if get_force:",
     "finalize: d and v exchanged in the equilibrium call"),
    ("C08", "break", ["C08-R5"], SE2, "        self._d, self._v, self._a, self._force = d, v, a, force\n        generator = self._solve_se2_generator(d, v, F0)\n",
     "        self._d, self._v, self._a, self._force = d, v, force, a\n        generator = self._solve_se2_generator(d, v, F0)\n",
     "SolveExp2.generator publishes a and force the wrong way round"),
    ("C08", "break", ["C08-R5"], UNC, "            if self.cdforces:\n                generator = self._solve_real_unc_generator_cdforces(d, v, F0)\n            else:\n",
     "            if not self.cdforces:\n                generator = self._solve_real_unc_generator_cdforces(d, v, F0)\n            else:\n",
     "SolveUnc.generator dispatches the damping-as-force body for diagonal damping"),
    ("C08", "break", ["C08-R7"], BASE, "                    b = self.bo.copy()\n", "                    b = self.bo\n",
     "_calc_acce_kdof writes the diagonal damping into the solver's off-diagonal matrix"),
    ("C08", "break", ["C08-R7"], UNC, "            if order == 0:\n                A = 1.5 * A\n                Ap = 2.0 * Ap\n",
     "            if order == 0:\n                A *= 1.5\n                Ap *= 2.0\n",
     "complex generator scales the rigid-body coefficients of the solver in place (every later generator scales them again)"),
    ("C08", "break", ["C08-R3"], UNC, "                    if j < 0:\n                        # add to previous soln\n                        Force[:, i] += F1\n                        drf[:, i] += ikrf * F1[rf]\n                    else:\n                        i = j\n                        Force[:, i] = F1\n                        # rb + el:\n                        F0k = Force[kdof, i - 1]\n                        di = D[:, i - 1]\n                        vi = V[:, i - 1]\n                        D[:, i] = F * di",
     "                    if j < 0:\n                        # add to previous soln\n                        Force[:, j] += F1\n                        drf[:, i] += ikrf * F1[rf]\n                    else:\n                        i = j\n                        Force[:, i] = F1\n                        # rb + el:\n                        F0k = Force[kdof, i - 1]\n                        di = D[:, i - 1]\n                        vi = V[:, i - 1]\n                        D[:, i] = F * di",
     "add-on accumulates the force into column j (negative) instead of the step solved last"),
    ("C08", "break", ["C08-R1"], UNC, "        nt = d.shape[1]\n        order = self.order\n", "        nt = d.shape[1] - 1\n        order = self.order\n",
     "complex generator parks at the priming yield when there are two time steps (the first send is swallowed)"),
    ("C08", "break", ["C08-R2c"], UNC, "            else:\n                rbforce = F0[rb]\n            a[rb, 0] = rbforce\n",
     "            else:\n                rbforce = F0[rb]\n            a[rb, 0] = 0.0\n",
     "complex generator: rigid-body acceleration of step 0 not initialised from F0"),
    ("C08", "break", ["C08-R3c"], UNC, "        flex = self._add_rf_flex(flex, phi, velo, unc)\n        return flex\n\n    def get_su_eig",
     "        return flex\n\n    def get_su_eig", "_get_f2x_complex_unc drops the residual-flexibility part"),
    ("C08", "break", ["C08-R3c"], UNC, "                    flexr = la.lu_solve(imrb, flexr, check_finite=False)\n", "                    flexr = la.lu_solve(imrb, flexr.T, trans=1, check_finite=False).T\n",
     "_get_f2x_complex_unc: rigid-body mass inverse applied from the right"),
    ("C08", "break", ["C08-R5"], SE2, "        d, v, a, force = self._init_dva_part(nt, F0, d0, v0, static_ic)\n        self._d, self._v, self._a, self._force = d, v, a, force\n        generator = self._solve_se2_generator",
     "        d, v, a, force = self._init_dva_part(nt, F0, v0, d0, static_ic)\n        self._d, self._v, self._a, self._force = d, v, a, force\n        generator = self._solve_se2_generator",
     "SolveExp2.generator hands d0 and v0 to _init_dva_part the wrong way round"),
    ("C08", "break", ["C08-R5"], "pyyeti/ode/solvecdf.py", "        return super().generator(nt, F0, d0, v0, static_ic)\n", "        return super().generator(nt, F0, v0, d0, static_ic)\n",
     "SolveCDF.generator forwards d0 and v0 exchanged"),
    ("C08", "break", ["C08-R5"], BASE, "        self._init_dv(d, v, d0, v0, F0, static_ic)\n        if self.rfsize:\n            if self.unc:\n                d[self.rf, 0] = self.ikrf.ravel()",
     "        self._init_dv(v, d, d0, v0, F0, static_ic)\n        if self.rfsize:\n            if self.unc:\n                d[self.rf, 0] = self.ikrf.ravel()",
     "_init_dva_part stores the initial displacement into the velocity array"),
    ("C08", "break", ["C08-R6"], BASE, "                flexrf = ikrf.ravel()[:, None] * phirf.T\n", "                flexrf = ikrf.ravel()[None, :] * phirf.T\n",
     "_add_rf_flex scales the columns instead of the rows (inserted axis on the wrong side)"),
    ("C08", "break", ["C08-R2", "C08-R3"], UNC, "        Fp = pc.Fp\n        Gp = pc.Gp\n        Ap = pc.Ap\n        Bp = pc.Bp\n\n        if self.order == 1:\n            if self.rfsize:\n                # rigid-body and elastic equations:\n                D = d[kdof]\n                V = v[kdof]\n                # resflex",
     "        Gp = pc.Gp\n        Ap = pc.Ap\n        Bp = pc.Bp\n\n        if self.order == 1:\n            if self.rfsize:\n                # rigid-body and elastic equations:\n                D = d[kdof]\n                V = v[kdof]\n                # resflex",
     "real generator: coefficient local never bound (NameError on the first positive send)"),
    # ------------------------------------------------------------------ behaviour-preserving
    ("C08", "neutral", [], UNC, "                        i = j\n                        Force[:, i] = F1\n                        # rb + el:\n                        F0k = Force[kdof, i - 1]\n                        F1k = F1[kdof]\n                        di = D[:, i - 1]\n                        vi = V[:, i - 1]\n                        D[:, i] = F * di",
     "                        i = int(j)\n                        Force[:, j] = F1\n                        # rb + el:\n                        F0k = Force[kdof, j - 1]\n                        F1k = F1[kdof]\n                        di = D[:, i - 1]\n                        vi = V[:, j - 1]\n                        D[:, i] = F * di",
     "positive send addresses the columns through the sent index itself"),
    # correct spellings of the cache guard, equality and order comparisons of the step indices alike
    ("C08", "neutral", [], UNC, _CDF_STEP, '                        dmpfrc0 = dmpfrc1 if i_last + 1 == i else bo @ vi\n' + _CDF_TAIL,
     'cache guard written i_last + 1 == i'),
    ("C08", "neutral", [], UNC, _CDF_STEP, '                        dmpfrc0 = dmpfrc1 if i - i_last == 1 else bo @ vi\n' + _CDF_TAIL,
     'cache guard written i - i_last == 1'),
    ("C08", "neutral", [], UNC, _CDF_STEP, '                        dmpfrc0 = dmpfrc1 if not (i_last != i - 1) else bo @ vi\n' + _CDF_TAIL,
     'cache guard written not (i_last != i - 1)'),
    ("C08", "neutral", [], UNC, _CDF_STEP, '                        dmpfrc0 = dmpfrc1 if i_last < i <= i_last + 1 else bo @ vi\n' + _CDF_TAIL,
     'cache guard as a chained order comparison that pins i_last = i - 1'),
    ("C08", "neutral", [], UNC, _CDF_STEP, '                        dmpfrc0 = bo @ vi if (i_last < i - 1 or i_last > i - 1) else dmpfrc1\n' + _CDF_TAIL,
     'cache guard: recompute when the cached step lies on either side of i - 1'),
    ("C08", "neutral", [], UNC, _CDF_STEP, '                        if i_last < i - 1 or i <= i_last:\n                            dmpfrc0 = bo @ vi\n                        else:\n                            dmpfrc0 = dmpfrc1\n' + _CDF_TAIL,
     'cache guard as if/else on two order comparisons (skip ahead or not after the cached step)'),
    ("C08", "neutral", [], UNC, _CDF_STEP,
     "                        if i_last != i - 1:\n                            dmpfrc0 = bo @ vi\n                        else:\n                            dmpfrc0 = dmpfrc1\n"
     "                        i_last = i\n                        _f0 = F0k - dmpfrc0\n",
     "cache guard as if/else with an inverted test"),
    ("C08", "neutral", [], UNC, _CDF_STEP,
     "                        prev = i - 1\n                        have = prev == i_last\n                        dmpfrc0 = np.dot(bo, vi)\n                        if have:\n"
     "                            dmpfrc0 = dmpfrc1\n                        i_last = prev + 1\n                        _f0 = F0k - dmpfrc0\n",
     "cache guard through temporaries, default-then-override, np.dot"),
    ("C08", "neutral", [], SE2, "            if unc:\n                while True:\n                    j, F1 = yield\n                    if j < 0:\n",
     "            if unc:\n                while 1:\n                    msg = yield\n                    j, F1 = msg\n                    if j < 0:\n",
     "`msg = yield` and `while 1`"),
    ("C08", "neutral", [], BASE, "        d, v, a, f = self._d, self._v, self._a, self._force\n        del self._d, self._v, self._a, self._force\n",
     "        names = (\"_d\", \"_v\", \"_a\", \"_force\")\n        d, v, a, f = [getattr(self, name) for name in names]\n        for name in names:\n            delattr(self, name)\n",
     "finalize reads and forgets the published arrays through getattr / delattr loops"),
    ("C08", "neutral", [], SE2, "                if velo:\n                    flex = phik @ Q[:n] @ phik.T\n                else:\n                    flex = phik @ Q[n:] @ phik.T\n",
     "                rows = slice(None, n) if velo else slice(n, None)\n                flex = phik @ Q[rows] @ np.transpose(phik)\n",
     "SolveExp2.get_f2x: half of Q through a slice object, np.transpose"),
    ("C08", "neutral", [], SE2,
     "                Q = self.Q\n                kdof = self.kdof\n                phik = phi[:, kdof]\n                if self.m is not None:\n                    if unc:\n"
     "                        invm = self.invm.ravel()\n                        Q = Q * invm\n                    else:\n"
     "                        Q = la.lu_solve(self.invm, Q.T, trans=1, check_finite=False).T\n                n = self.nonrfsz\n"
     "                if velo:\n                    flex = phik @ Q[:n] @ phik.T\n                else:\n                    flex = phik @ Q[n:] @ phik.T\n",
     "                n = self.nonrfsz\n                Q = self.Q[:n] if velo else self.Q[n:]\n                kdof = self.kdof\n                phik = phi[:, kdof]\n"
     "                if self.m is not None:\n                    if unc:\n                        Q = Q * self.invm.ravel()\n                    else:\n"
     "                        Q = la.lu_solve(self.invm, Q.T, trans=1, check_finite=False).T\n                flex = phik @ Q @ phik.T\n",
     "SolveExp2.get_f2x: the needed half of Q is taken first, then post-multiplied by the mass inverse"),
    ("C08", "neutral", [], BASE, "                    i = np.arange(self.ksize)\n                    b[i, i] = self.b  # full damping\n",
     "                    np.fill_diagonal(b, self.b)  # full damping\n",
     "_calc_acce_kdof fills the diagonal of its private copy with np.fill_diagonal"),
    ("C08", "neutral", [], UNC, "        if self.unc and self.systype is float:\n            # for uncoupled, m, b, k have rb+el (all nonrf)\n            if self.cdforces:\n",
     "        if not (not self.unc or self.systype is not float):\n            # for uncoupled, m, b, k have rb+el (all nonrf)\n            if self.cdforces:\n",
     "SolveUnc.generator dispatch through De Morgan"),
    ("C08", "neutral", [], UNC, "                        D[:, i] = F * di + G * vi + A * F0k + B * F1k\n                        V[:, i] = Fp * di + Gp * vi + Ap * F0k + Bp * F1k\n",
     "                        prev_d, prev_v = D[:, i - 1], Force[kdof][:, i - 1]\n                        D[:, i] = (F * prev_d + G * vi) + (B * F1[kdof] + A * prev_v)\n"
     "                        V[:, i] = Fp * di + Gp * vi + Ap * Force[:, i - 1][kdof] + Bp * F1k\n",
     "real generator: the force of step i-1 reached through three different index compositions"),
    ("C08", "neutral", [], UNC, "                tmp = B * (np.eye(self.ksize) - alpha * pc.Bp)\n                flex = phik @ tmp @ phik.T\n",
     "                eye = np.identity(self.ksize)\n                tmp = B * eye - B * (alpha * pc.Bp)\n                flex = np.dot(phik @ tmp, np.transpose(phik))\n",
     "_get_f2x_real_unc: distributed product, np.identity / np.dot / np.transpose"),
]


def _neutral(key, desc):
    rel, old, new = BLOCKS[key]
    return ("C08", "neutral", [], rel, old, new, desc)


def _break(key, rules, a, b, desc):
    """the refactored form of block `key` with the edit a -> b inside"""
    rel, old, new = BLOCKS[key]
    assert new.count(a) == 1, (key, a, new.count(a))
    return ("C08", "break", rules, rel, old, new.replace(a, b), desc)


RECIPES += [
    _neutral("batch_inner", "batch inner loop: one loop for both orders, range(nt - 1) storing into column k + 1, force columns read directly"),
    _neutral("batch_cdf", "batch damping-as-force: per-step force terms, (d, v, damping force) carried as a tuple, implicit velocity solve in a nested function"),
    _neutral("batch_cx_rb", "batch complex solver: rigid-body state carried as a tuple, tuple store"),
    _neutral("batch_cx_el", "batch complex solver: the modal state is read back from the y array, loop variable counts the stored column"),
    _neutral("batch_se2", "SolveExp2.tsolve: halves of the force integral taken before the loop, matrices in a dict, range(1, nt)"),
    _neutral("gen_cdf_dict", "damping-as-force generator: cache in a dict, nested helper functions, one loop for all configurations, try/finally"),
    _neutral("gen_real_partial", "real generator: functools.partial of a function picked from a tuple by `order == 1`, attrgetter / itemgetter, lambda, "
                                 "starred unpacking, list.append + starred call, zip over a string"),
    _neutral("gen_se2_yieldfrom", "SolveExp2 generator: `yield from` a generator static method (rf only) and a nested generator function (rb/el)"),
    _neutral("gen_cdf_tuple", "damping-as-force generator (one loop): cached force and its step carried as a tuple"),
    _neutral("gen_cdf_namespace", "damping-as-force generator (one loop): cached force and its step in a SimpleNamespace, recompute-if-stale statement"),
    _neutral("ts_unc_generator", "SolveUnc.generator: setattr loop over zip, body picked by a conditional expression, body(*args), generator.send(None)"),
    _neutral("ts_se2_generator", "SolveExp2.generator: chained assignment with starred unpacking, generator.__next__()"),
    _neutral("ts_finalize", "finalize: published arrays taken into a dict by a helper (getattr / delattr with built names), **state calls, dict.pop"),
    ("C08", "break", ["C08-R1"], UNC, "                        F0 = Force[:, i - 1]\n                        di = d[:, i - 1]\n                        vi = v[:, i - 1]\n                        d[:, i] = F * di + G * vi + A * F0 + B * F1\n",
     "                        F0 = Force[:, i - 1]\n                        rf_before = drf[:, i]\n                        di = d[:, i - 1]\n                        vi = v[:, i - 1]\n                        d[:, i] = F * di + G * vi + A * F0 + B * F1\n",
     "a send reads a local that is bound only when there are rf equations (UnboundLocalError; the value is never used)"),
    # ---- one wrong edit inside each new form
    _break("batch_inner", ["C08-R2"], "            fnext = fk[:, k + 1]", "            fnext = fk[:, k]", "refactored batch loop reads the force of the wrong column"),
    _break("batch_inner", ["C08-R2"], "        D[:, k + 1] = dprev = dnew", "        D[:, k + 1] = dnew", "refactored batch loop never advances the displacement it carries"),
    _break("batch_cdf", ["C08-R2"], "            state = dnew, vnew, dmpfrc1", "            state = dnew, vnew, dmpfrc0", "tuple state of the batch loop carries the stale damping force"),
    _break("batch_cdf", ["C08-R2"], "abfp - Ap * dmpfrc0", "abfp + Ap * dmpfrc0", "sign of the damping force in the refactored batch step"),
    _break("batch_cdf", ["C08-R2"], "            return frc, v_part - Bp * frc", "            return frc, v_part - B * frc", "nested helper of the batch step uses the displacement coefficient"),
    _break("batch_cx_rb", ["C08-R2c"], "                    rbstate = dnew, vnew", "                    rbstate = dlast, vnew", "tuple state of the rigid-body loop keeps the old displacement"),
    _break("batch_cx_el", ["C08-R2c"], "y[:, i] = Fe * y[:, i - 1] + ABF[:, i - 1]", "y[:, i] = Fe * y[:, i - 1] + ABF[:, i]", "elastic loop reads the force term of the wrong step"),
    _break("batch_se2", ["C08-R2"], 'E["vd"] @ d0 + E["vv"] @ v0 + PQF_v[:, old]', 'E["vd"] @ d0 + E["vv"] @ v0 + PQF_d[:, old]', "velocity takes the displacement half of the force integral"),
    _break("batch_se2", ["C08-R2"], "                    old = new - 1", "                    old = new", "refactored tsolve loop computes a column from itself"),
    _break("batch_se2", ["C08-R2"], '"dv": self.E_dv', '"dv": self.E_vd', "dict of matrices: E_dv and E_vd exchanged"),
    _break("gen_cdf_dict", ["C08-R1"], '            if cache["step"] != i - 1:\n                return bo @ vi', '            if cache["step"] != i:\n                return bo @ vi',
           "dict cache: guard compares with the current step"),
    _break("gen_cdf_dict", ["C08-R1"], '            cache["step"] = i\n', "            pass\n", "dict cache: the tag is never updated"),
    _break("gen_cdf_dict", ["C08-R1"], '            cache["force"] = dmpfrc1', "            pass", "dict cache: the force is never stored"),
    _break("gen_cdf_dict", ["C08-R1"], '            cache["force"] += dmpfrc1_addon', "            pass", "dict cache: an add-on does not update the cached force"),
    _break("gen_cdf_dict", ["C08-R2"], "            return vec[kdof] if have_rf else vec", "            return vec[rf] if have_rf else vec", "nested helper picks the rf part of the force"),
    _break("gen_cdf_dict", ["C08-R1"], '        cache = {"force": bo @ V[:, 0], "step": 0}', '        cache = {"force": bo @ V[:, 0], "step": 1}', "dict cache tagged with step 1"),
    _break("gen_cdf_dict", ["C08-R2"], "            vi = V[:, i - 1]\n            dmpfrc0 = damping_force_at_start(i, vi)", "            vi = V[:, i]\n            dmpfrc0 = damping_force_at_start(i, vi)",
           "nested step function reads the velocity of the column being written"),
    _break("gen_cdf_dict", ["C08-R7"], "            v_part = Bp * F1k\n            dmpfrc1_addon = alpha @ v_part\n", "            v_part = np.multiply(Bp, F1k, out=Bp)\n            dmpfrc1_addon = alpha @ v_part\n",
           "nested add-on helper computes into the solver's own Bp (out=)"),
    _break("gen_cdf_dict", ["C08-R3"], "                    if first_order:\n                        add_on(i, F1)", "                    if not first_order:\n                        add_on(i, F1)",
           "add-on helper called for the zero-order hold only"),
    _break("gen_cdf_tuple", ["C08-R1"], "cdstate[0] if cdstate[1] == i - 1 else bo @ vi", "cdstate[0] if cdstate[1] == i else bo @ vi", "tuple state: guard compares with the current step"),
    _break("gen_cdf_tuple", ["C08-R1"], "                        cdstate = alpha @ v_part, i\n", "                        cdstate = alpha @ v_part, cdstate[1]\n", "tuple state: the tag is never advanced"),
    _break("gen_cdf_tuple", ["C08-R1", "C08-R3"], "                        frc += dmpfrc1_addon\n", "                        frc -= dmpfrc1_addon\n", "tuple state: the add-on moves the cached force the wrong way"),
    _break("gen_cdf_tuple", ["C08-R1"], "                cdstate = bo @ V[:, 0], i_last\n", "                cdstate = bo @ D[:, 0], i_last\n", "tuple state: initial cache from the displacement"),
    _break("gen_cdf_namespace", ["C08-R1"], "                        if cd.step != i - 1:\n                            cd.force = bo @ vi", "                        if cd.step == i - 1:\n                            cd.force = bo @ vi",
           "namespace state: recomputes only when the cache is valid"),
    _break("gen_cdf_namespace", ["C08-R1"], "                        cd.step = i\n", "                        cd.step = i - 1\n", "namespace state: the tag names the step before the one solved"),
    _break("gen_cdf_namespace", ["C08-R1"], "                        cd.force += dmpfrc1_addon\n", "                        pass\n", "namespace state: an add-on does not update the cached force"),
    _break("gen_real_partial", ["C08-R2"], "_REAL_UNC_STEP = (_real_unc_zoh, _real_unc_foh)", "_REAL_UNC_STEP = (_real_unc_foh, _real_unc_zoh)", "dispatch tuple the wrong way round"),
    _break("gen_real_partial", ["C08-R2"], "            coefs = F, G, A + B, B, Fp, Gp, Ap + Bp, Bp", "            coefs = F, G, A + B, B, Fp, Gp, Ap, Bp", "zero-order coefficients: Ap instead of Ap + Bp"),
    _break("gen_real_partial", ["C08-R2"], "            F, G, AB, *_, Fp, Gp, ABp, _ = coefs", "            F, G, AB, *_, Gp, Fp, ABp, _ = coefs", "starred unpacking exchanges Fp and Gp"),
    _break("gen_real_partial", ["C08-R3"], 'zip("DV", (coefs[3], coefs[-1]))', 'zip("VD", (coefs[3], coefs[-1]))', "add-on loop pairs the arrays with the wrong coefficients"),
    _break("gen_real_partial", ["C08-R2"], "                args = [pick(Force[:, i - 1])]", "                args = [pick(Force[:, i])]", "argument list built from the force of the current column"),
    _break("gen_real_partial", ["C08-R2"], "            pick = operator.itemgetter(kdof)", "            pick = operator.itemgetter(rf)", "itemgetter picks the rf partition"),
    _break("gen_real_partial", ["C08-R2"], 'operator.attrgetter("F", "G", "A", "B", "Fp", "Gp", "Ap", "Bp")', 'operator.attrgetter("F", "G", "B", "A", "Fp", "Gp", "Ap", "Bp")',
           "attrgetter fetches A and B in the wrong order"),
    _break("gen_real_partial", ["C08-R2"], '_REAL_UNC_STEP[first_order], arrays["D"], arrays["V"], coefs', '_REAL_UNC_STEP[first_order], arrays["V"], arrays["D"], coefs',
           "partial binds the velocity array as the displacement array"),
    _break("gen_se2_yieldfrom", ["C08-R2"], "                d[:, i] = ikrf * F1[rf] if diag else ikrf @ F1[rf]", "                d[:, i - 1] = ikrf * F1[rf] if diag else ikrf @ F1[rf]",
           "sub-generator stores into the previous column"),
    _break("gen_se2_yieldfrom", ["C08-R3"], "                d[:, i] += ikrf * F1[rf] if diag else ikrf @ F1[rf]", "                d[:, i] = ikrf * F1[rf] if diag else ikrf @ F1[rf]",
           "sub-generator: the add-on overwrites instead of accumulating"),
    _break("gen_se2_yieldfrom", ["C08-R2"], "            yield from sends(d[kdof], v[kdof], lambda vec: vec[kdof])", "            yield from sends(d[kdof], v[kdof], lambda vec: vec[rf])",
           "lambda handed to the nested generator picks the rf part"),
    _break("gen_se2_yieldfrom", ["C08-R2"], "            yield from sends(d[kdof], v[kdof], lambda vec: vec[kdof])", "            yield from sends(v[kdof], d[kdof], lambda vec: vec[kdof])",
           "nested generator receives v and d exchanged"),
    _break("gen_se2_yieldfrom", ["C08-R3"], "                        PQF = Q @ kpart(F1)\n                        D[:, i] += PQF[ksize:]\n                        V[:, i] += PQF[:ksize]",
           "                        PQF = Q @ kpart(F1)\n                        D[:, i] += PQF[:ksize]\n                        V[:, i] += PQF[ksize:]", "nested generator: add-on halves exchanged"),
    _break("gen_se2_yieldfrom", ["C08-R1"], "            rf, ikrf = rf_part\n        while True:", "            rf, ikrf = rf_part\n        yield\n        while True:",
           "sub-generator parks at an extra yield (the first send is swallowed)"),
    _break("ts_unc_generator", ["C08-R5"], 'zip(("_d", "_v", "_a", "_force"), arrays)', 'zip(("_d", "_v", "_force", "_a"), arrays)', "setattr loop publishes a and force exchanged"),
    _break("ts_unc_generator", ["C08-R5"], "            args = d, v, F0", "            args = v, d, F0", "argument tuple of the body: d and v exchanged"),
    _break("ts_unc_generator", ["C08-R5"], "        d, v, a = arrays[:3]", "        d, v, a = arrays[1:4]", "slice of the published arrays shifted by one"),
    _break("ts_unc_generator", ["C08-R5"], "        generator.send(None)\n", "        pass\n", "generator not primed"),
    _break("ts_se2_generator", ["C08-R5"], "self._d, self._v, self._a, self._force = d, v, *_ =", "self._v, self._d, self._a, self._force = d, v, *_ =", "chained unpacking publishes d and v exchanged"),
    _break("ts_se2_generator", ["C08-R5"], "        generator.__next__()\n", "        pass\n", "SolveExp2 generator not primed"),
    _break("ts_finalize", ["C08-R5"], '            state[key] = getattr(self, "_" + key)', '            state[key] = getattr(self, "_" + ("v" if key == "d" else key))', "dict state: the velocity published as displacement"),
    _break("ts_finalize", ["C08-R5"], '        for key in state:\n            delattr(self, "_" + key)', '        for key in ("d", "v"):\n            delattr(self, "_" + key)', "only d and v are forgotten"),
]



def _neutral3(key, desc):
    rel, old, new = BLOCKS3[key]
    return ("C08", "neutral", [], rel, old, new, desc)


def _break3(key, rules, a, b, desc, nth=None):
    """the refactored form of block `key` with the edit a -> b inside (nth: which occurrence of `a`, when there are several)"""
    rel, old, new = BLOCKS3[key]
    if nth is None:
        assert new.count(a) == 1, (key, a, new.count(a))
        return ("C08", "break", rules, rel, old, new.replace(a, b), desc)
    parts = new.split(a)
    assert len(parts) > nth + 1, (key, a, len(parts))
    return ("C08", "break", rules, rel, old, a.join(parts[:nth + 1]) + b + a.join(parts[nth + 1:]), desc)


RECIPES += [
    _neutral3("inplace_cache", "damping-as-force add-on: the cached force updated with np.add(.., out=) / a whole-array store"),
    _neutral3("inplace_arg", "damping-as-force add-on in a static method that updates the cached force through its parameter (`frc += ..`)"),
    _neutral3("local_class", "real generator: a small class defined inside the body holds the views, its methods advance / add on"),
    _neutral3("explicit_self", "real generator: static methods that take the solver object explicitly under another name; `msg = yield`"),
    _neutral3("send_loop_callbacks", "real generator: one shared receiving loop (yield from a static generator method) is handed add-on / advance callbacks"),
    _neutral3("scratch_out", "real generator add-on: a scratch buffer refilled through out=, the velocity column updated through a local view"),
    _neutral3("column_views", "SolveExp2 generator: columns bound to locals and updated through them (+=, np.add out=, [:] and [...] stores)"),
    _neutral3("imported_ops_unc", "damping-as-force generator: `from operator import matmul as _mm` inside the body, _mm(bo, vi)"),
    _neutral3("imported_ops_se2", "SolveExp2 generator: `times = mul if unc else matmul` chosen once, an index tuple (slice(None), i)"),
    _neutral3("property_reduce", "real generator: a property decides the order; the step as functools.reduce over (coefficient, vector) pairs"),
    _neutral3("endless_for_se2", "SolveExp2 generator: `for _ in itertools.count()` as receiving loops"),
    _neutral3("endless_for_unc", "rf-only loops of both real generators: `for _send in iter(int, 1)`"),
    _neutral3("batch_zip_range", "SolveExp2.tsolve: `for i, PQFi in zip(range(1, nt), PQF.T)`"),
    _neutral3("batch_sliced_T", "SolveExp2.tsolve: enumerate(zip(PQF[ksize:].T, PQF[:ksize].T[: nt - 1]))"),
    _neutral3("dict_dispatch", "real generator (no rf): nested functions that read the generator's own parameters, picked from a dict keyed by `j < 0`; they return the step index"),
    # ---- one wrong edit inside each new form
    _break3("dict_dispatch", ["C08-R2", "C08-R3"], "handlers = {True: addon, False: advance}", "handlers = {True: advance, False: addon}", "dict dispatch the wrong way round"),
    _break3("dict_dispatch", ["C08-R1"], "                    v[:, i] = Fp * di + Gp * vi + Ap * F0 + Bp * F1\n                    return i\n",
            "                    v[:, i] = Fp * di + Gp * vi + Ap * F0 + Bp * F1\n                    return i - 1\n", "the advance handler returns the previous step as the step solved last"),
    _break3("dict_dispatch", ["C08-R3"], "                    d[:, i] += B * F1\n                    v[:, i] += Bp * F1\n", "                    d[:, i] += Bp * F1\n                    v[:, i] += B * F1\n",
            "add-on handler: coefficients exchanged"),
    _break3("inplace_cache", ["C08-R1", "C08-R3"], "np.add(dmpfrc1, dmpfrc1_addon, out=dmpfrc1)", "np.add(dmpfrc1, dmpfrc1_addon)", "the sum is computed but the cached force is not updated"),
    _break3("inplace_cache", ["C08-R3"], "dmpfrc1[:] = dmpfrc1 + dmpfrc1_addon", "dmpfrc1[:] = dmpfrc1 - dmpfrc1_addon", "whole-array store moves the cached force the wrong way"),
    _break3("inplace_arg", ["C08-R1", "C08-R3"], "        frc += frc_addon\n", "        frc = frc + frc_addon\n",
            "the helper rebinds its parameter instead of updating the array: the caller's cached force stays stale"),
    _break3("inplace_arg", ["C08-R3"], "        frc += frc_addon\n", "        frc -= frc_addon\n", "the helper moves the cached force the wrong way"),
    _break3("inplace_arg", ["C08-R1", "C08-R3"], "self._cdf_addon(alpha, B, Bp, d, v, i, F1, dmpfrc1)", "self._cdf_addon(alpha, B, Bp, d, v, i, F1, dmpfrc1.copy())",
            "the helper is handed a copy of the cached force"),
    _break3("local_class", ["C08-R2"], "self.coefs.Ap * f0 + self.coefs.Bp * f1", "self.coefs.Ap * f1 + self.coefs.Bp * f0", "method of the local class: forces exchanged in the velocity step"),
    _break3("local_class", ["C08-R3"], "                        self.V[:, i] += self.coefs.Bp * f1\n", "                        self.V[:, i] += self.coefs.B * f1\n",
            "method of the local class: the velocity add-on uses the displacement coefficient"),
    _break3("local_class", ["C08-R2"], "                stepper = Stepper(pc, D, V)\n", "                stepper = Stepper(pc, V, D)\n", "the object is built with d and v exchanged"),
    _break3("explicit_self", ["C08-R3"], "        V[:, i] += pc.Bp * f1\n", "        V[:, i] += pc.B * f1\n", "static method: the velocity add-on uses the displacement coefficient"),
    _break3("explicit_self", ["C08-R2"], "self._real_advance(self, D, V, i, Force[kdof, i - 1], F1[kdof])", "self._real_advance(self, D, V, i, F1[kdof], Force[kdof, i - 1])",
            "static method called with the two forces exchanged"),
    _break3("send_loop_callbacks", ["C08-R2", "C08-R3"], "yield from self._send_loop(Force, addon, advance)", "yield from self._send_loop(Force, advance, addon)",
            "the shared receiving loop is handed the callbacks the wrong way round"),
    _break3("send_loop_callbacks", ["C08-R2"], "                force_hist[:, i] = F1\n                advance(i, F1)\n", "                force_hist[:, i] = F1\n                advance(i - 1, F1)\n",
            "the shared receiving loop advances the previous column"),
    _break3("scratch_out", ["C08-R3"], "np.multiply(Bp, F1k, out=tmp)", "np.multiply(B, F1k, out=tmp)", "scratch buffer refilled with the displacement increment"),
    _break3("scratch_out", ["C08-R3"], "                        vcol = V[:, i]\n", "                        vcol = V[:, i].copy()\n", "the add-on goes into a copy of the velocity column"),
    _break3("column_views", ["C08-R3"], "                    fcol = Force[:, i]\n", "                    fcol = Force[:, i - 1]\n", "the add-on force is accumulated into the previous column"),
    _break3("column_views", ["C08-R3"], "np.add(vcol, PQF[:ksize], out=vcol)", "np.add(vcol, PQF[:ksize])", "the velocity add-on is computed and dropped"),
    _break3("column_views", ["C08-R2"], "                    dcol[:] = E_dd @ d0", "                    dcol = E_dd @ d0", "the name of the column view is rebound: nothing is stored"),
    _break3("imported_ops_unc", ["C08-R2"], "_mm(bo, vi)", "_mm(bo, di)", "recompute arm uses the displacement of step i-1", nth=0),
    _break3("imported_ops_se2", ["C08-R2"], "cur = (slice(None), i)", "cur = (slice(None), i - 1)", "index tuple addresses the previous column"),
    _break3("property_reduce", ["C08-R2"], "        return self.order == 1\n", "        return self.order == 0\n", "the property that decides the order is inverted"),
    _break3("property_reduce", ["C08-R2"], "zip((Fp, Gp, Ap, Bp), state)", "zip((Fp, Gp, Bp, Ap), state)", "reduce over the terms: Ap and Bp exchanged"),
    _break3("endless_for_se2", ["C08-R3"], "                        D[:, i] += PQF[ksize:]\n                        V[:, i] += PQF[:ksize]\n",
            "                        D[:, i] += PQF[:ksize]\n                        V[:, i] += PQF[ksize:]\n", "endless for loop: add-on halves exchanged"),
    _break3("endless_for_unc", ["C08-R2"], "                    d[:, i] = ikrf * F1[rf]\n", "                    d[:, i - 1] = ikrf * F1[rf]\n",
            "endless for loop (rf only): stores into the previous column", nth=0),
    _break3("batch_zip_range", ["C08-R2"], "zip(range(1, nt), PQF.T)", "zip(range(1, nt), PQF.T[1:])", "batch loop pairs step i with the force integral of step i + 1"),
    _break3("batch_zip_range", ["C08-R2"], "+ PQFi[ksize:]", "+ PQFi[:ksize]", "batch loop: displacement takes the velocity half"),
    _break3("batch_sliced_T", ["C08-R2"], "zip(PQF[ksize:].T, PQF[:ksize].T[: nt - 1])", "zip(PQF[:ksize].T, PQF[ksize:].T[: nt - 1])", "batch loop: halves of the force integral exchanged"),
    _break3("batch_sliced_T", ["C08-R2"], "PQF[:ksize].T[: nt - 1]", "PQF[:ksize].T[1:]", "batch loop: the velocity half read one step ahead"),
]
