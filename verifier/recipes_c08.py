"""C08 self-test recipes (text edits of /repo sources applied to scratch copies by verifier/selftest.py in the thorough tier).

break   : behaviour-breaking edits for the obligations that decide on values (guard of the cached damping force by meaning, SE2 add-on halves,
          sides of the mass inverse in SolveExp2.get_f2x, rf-only loops, initial rf displacement, typestate of generator()/finalize(),
          in-place stores into constructor state)
neutral : behaviour-preserving refactorings the rules must stay silent on (ternary <-> if/else with inverted test and `continue`, `msg = yield`
          and `while 1`, getattr/delattr loops over a constant tuple, slice objects, np.transpose / np.identity / np.fill_diagonal / np.dot
          spellings, partition-first post-multiplication, temporaries, De Morgan on the dispatch of generator())"""

UNC = "pyyeti/ode/solveunc.py"
SE2 = "pyyeti/ode/solveexp2.py"
BASE = "pyyeti/ode/_base_ode_class.py"

_CDF_STEP = ("                        dmpfrc0 = dmpfrc1 if i_last == i - 1 else bo @ vi\n"
             "                        i_last = i\n"
             "                        _f0 = F0k - dmpfrc0\n")

RECIPES = [
    # ------------------------------------------------------------------ breaking
    ("C08", "break", ["C08-R1"], UNC, _CDF_STEP,
     "                        dmpfrc0 = bo @ vi if i_last == i else dmpfrc1\n                        i_last = i\n                        _f0 = F0k - dmpfrc0\n",
     "cache guard: recompute only when the current step is redone (stale force on a jump back)"),
    ("C08", "break", ["C08-R1"], UNC, _CDF_STEP,
     "                        if i_last != i - 1:\n                            dmpfrc0 = dmpfrc1\n                        else:\n                            dmpfrc0 = bo @ vi\n"
     "                        i_last = i\n                        _f0 = F0k - dmpfrc0\n",
     "cache guard as if/else with the arms the wrong way round"),
    ("C08", "break", ["C08-R1"], UNC, _CDF_STEP,
     "                        dmpfrc0 = dmpfrc1\n                        i_last = i\n                        _f0 = F0k - dmpfrc0\n",
     "cached force used without validation"),
    ("C08", "break", ["C08-R1", "C08-R2"], UNC, _CDF_STEP,
     "                        dmpfrc0 = dmpfrc1 if i_last == i - 1 else bo @ di\n                        i_last = i\n                        _f0 = F0k - dmpfrc0\n",
     "recompute arm uses the displacement of step i-1"),
    ("C08", "break", ["C08-R1"], UNC, "        bo = self.bo\n        i_last = 0\n\n        if self.order == 1:\n", "        bo = self.bo\n        i_last = 1\n\n        if self.order == 1:\n",
     "cache tagged with step 1 while it holds the force of step 0"),
    ("C08", "break", ["C08-R3"], SE2, "                        PQF = Q @ F1[kdof]\n                        D[:, i] += PQF[ksize:]\n                        V[:, i] += PQF[:ksize]\n",
     "                        PQF = Q @ F1[kdof]\n                        D[:, i] += PQF[:ksize]\n                        V[:, i] += PQF[ksize:]\n",
     "SE2 add-on halves swapped"),
    ("C08", "break", ["C08-R4"], SE2, "                        Q = la.lu_solve(self.invm, Q.T, trans=1, check_finite=False).T\n                n = self.nonrfsz\n",
     "                        Q = la.lu_solve(self.invm, Q, check_finite=False)\n                n = self.nonrfsz\n",
     "SolveExp2.get_f2x: mass inverse applied from the left"),
    ("C08", "break", ["C08-R4"], SE2, "                if velo:\n                    flex = phik @ Q[:n] @ phik.T\n", "                if not velo:\n                    flex = phik @ Q[:n] @ phik.T\n",
     "SolveExp2.get_f2x: halves of Q exchanged between displacement and velocity"),
    ("C08", "break", ["C08-R2"], SE2, "                        i = j\n                        Force[:, i] = F1\n                        d[:, i] = ikrf @ F1[rf]\n",
     "                        i = j\n                        Force[:, i] = F1\n                        d[:, i - 1] = ikrf @ F1[rf]\n",
     "SE2 rf-only loop (coupled) stores into the previous column"),
    ("C08", "break", ["C08-R5"], BASE, "                d[self.rf, 0] = self.ikrf.ravel() * F0[self.rf]\n", "                d[self.rf, 0] = self.ikrf.ravel() * F0[self.nonrf]\n",
     "_init_dva_part: initial rf displacement from the wrong partition of F0"),
    ("C08", "break", ["C08-R5"], BASE, "        self._calc_acce_kdof(d, v, a, f)\n        sol = self._solution(d, v, a)\n        if get_force:",
     "        self._calc_acce_kdof(v, d, a, f)\n        sol = self._solution(d, v, a)\n        if get_force:",
     "finalize: d and v exchanged in the equilibrium call"),
    ("C08", "break", ["C08-R5"], SE2, "        self._d, self._v, self._a, self._force = d, v, a, force\n        generator = self._solve_se2_generator(d, v, F0)\n",
     "        self._d, self._v, self._a, self._force = d, v, force, a\n        generator = self._solve_se2_generator(d, v, F0)\n",
     "SolveExp2.generator publishes a and force the wrong way round"),
    ("C08", "break", ["C08-R5"], UNC, "            if self.cdforces:\n                generator = self._solve_real_unc_generator_cdforces(d, v, F0)\n            else:\n",
     "            if not self.cdforces:\n                generator = self._solve_real_unc_generator_cdforces(d, v, F0)\n            else:\n",
     "SolveUnc.generator dispatches the damping-as-force body for diagonal damping"),
    ("C08", "break", ["C08-R7"], BASE, "                    b = self.bo.copy()\n", "                    b = self.bo\n",
     "_calc_acce_kdof writes the diagonal damping into the solver's off-diagonal matrix"),
    ("C08", "break", ["C08-R7"], UNC, "            if order == 0:\n                A = 1.5 * A\n                Ap = 2.0 * Ap\n",
     "            if order == 0:\n                A *= 1.5\n                Ap *= 2.0\n",
     "complex generator scales the rigid-body coefficients of the solver in place (every later generator scales them again)"),
    ("C08", "break", ["C08-R3"], UNC, "                    if j < 0:\n                        # add to previous soln\n                        Force[:, i] += F1\n                        drf[:, i] += ikrf * F1[rf]\n                    else:\n                        i = j\n                        Force[:, i] = F1\n                        # rb + el:\n                        F0k = Force[kdof, i - 1]\n                        di = D[:, i - 1]\n                        vi = V[:, i - 1]\n                        D[:, i] = F * di",
     "                    if j < 0:\n                        # add to previous soln\n                        Force[:, j] += F1\n                        drf[:, i] += ikrf * F1[rf]\n                    else:\n                        i = j\n                        Force[:, i] = F1\n                        # rb + el:\n                        F0k = Force[kdof, i - 1]\n                        di = D[:, i - 1]\n                        vi = V[:, i - 1]\n                        D[:, i] = F * di",
     "add-on accumulates the force into column j (negative) instead of the step solved last"),
    ("C08", "break", ["C08-R1"], UNC, "        nt = d.shape[1]\n        order = self.order\n", "        nt = d.shape[1] - 1\n        order = self.order\n",
     "complex generator parks at the priming yield when there are two time steps (the first send is swallowed)"),
    ("C08", "break", ["C08-R2c"], UNC, "            else:\n                rbforce = F0[rb]\n            a[rb, 0] = rbforce\n",
     "            else:\n                rbforce = F0[rb]\n            a[rb, 0] = 0.0\n",
     "complex generator: rigid-body acceleration of step 0 not initialised from F0"),
    ("C08", "break", ["C08-R3c"], UNC, "        flex = self._add_rf_flex(flex, phi, velo, unc)\n        return flex\n\n    def get_su_eig",
     "        return flex\n\n    def get_su_eig", "_get_f2x_complex_unc drops the residual-flexibility part"),
    ("C08", "break", ["C08-R3c"], UNC, "                    flexr = la.lu_solve(imrb, flexr, check_finite=False)\n", "                    flexr = la.lu_solve(imrb, flexr.T, trans=1, check_finite=False).T\n",
     "_get_f2x_complex_unc: rigid-body mass inverse applied from the right"),
    ("C08", "break", ["C08-R5"], SE2, "        d, v, a, force = self._init_dva_part(nt, F0, d0, v0, static_ic)\n        self._d, self._v, self._a, self._force = d, v, a, force\n        generator = self._solve_se2_generator",
     "        d, v, a, force = self._init_dva_part(nt, F0, v0, d0, static_ic)\n        self._d, self._v, self._a, self._force = d, v, a, force\n        generator = self._solve_se2_generator",
     "SolveExp2.generator hands d0 and v0 to _init_dva_part the wrong way round"),
    ("C08", "break", ["C08-R5"], "pyyeti/ode/solvecdf.py", "        return super().generator(nt, F0, d0, v0, static_ic)\n", "        return super().generator(nt, F0, v0, d0, static_ic)\n",
     "SolveCDF.generator forwards d0 and v0 exchanged"),
    ("C08", "break", ["C08-R5"], BASE, "        self._init_dv(d, v, d0, v0, F0, static_ic)\n        if self.rfsize:\n            if self.unc:\n                d[self.rf, 0] = self.ikrf.ravel()",
     "        self._init_dv(v, d, d0, v0, F0, static_ic)\n        if self.rfsize:\n            if self.unc:\n                d[self.rf, 0] = self.ikrf.ravel()",
     "_init_dva_part stores the initial displacement into the velocity array"),
    ("C08", "break", ["C08-R6"], BASE, "                flexrf = ikrf.ravel()[:, None] * phirf.T\n", "                flexrf = ikrf.ravel()[None, :] * phirf.T\n",
     "_add_rf_flex scales the columns instead of the rows (inserted axis on the wrong side)"),
    ("C08", "break", ["C08-R2", "C08-R3"], UNC, "        Fp = pc.Fp\n        Gp = pc.Gp\n        Ap = pc.Ap\n        Bp = pc.Bp\n\n        if self.order == 1:\n            if self.rfsize:\n                # rigid-body and elastic equations:\n                D = d[kdof]\n                V = v[kdof]\n                # resflex",
     "        Gp = pc.Gp\n        Ap = pc.Ap\n        Bp = pc.Bp\n\n        if self.order == 1:\n            if self.rfsize:\n                # rigid-body and elastic equations:\n                D = d[kdof]\n                V = v[kdof]\n                # resflex",
     "real generator: coefficient local never bound (NameError on the first positive send)"),
    # ------------------------------------------------------------------ behaviour-preserving
    ("C08", "neutral", [], UNC, "                        i = j\n                        Force[:, i] = F1\n                        # rb + el:\n                        F0k = Force[kdof, i - 1]\n                        F1k = F1[kdof]\n                        di = D[:, i - 1]\n                        vi = V[:, i - 1]\n                        D[:, i] = F * di",
     "                        i = int(j)\n                        Force[:, j] = F1\n                        # rb + el:\n                        F0k = Force[kdof, j - 1]\n                        F1k = F1[kdof]\n                        di = D[:, i - 1]\n                        vi = V[:, j - 1]\n                        D[:, i] = F * di",
     "positive send addresses the columns through the sent index itself"),
    ("C08", "neutral", [], UNC, _CDF_STEP,
     "                        if i_last != i - 1:\n                            dmpfrc0 = bo @ vi\n                        else:\n                            dmpfrc0 = dmpfrc1\n"
     "                        i_last = i\n                        _f0 = F0k - dmpfrc0\n",
     "cache guard as if/else with an inverted test"),
    ("C08", "neutral", [], UNC, _CDF_STEP,
     "                        prev = i - 1\n                        have = prev == i_last\n                        dmpfrc0 = np.dot(bo, vi)\n                        if have:\n"
     "                            dmpfrc0 = dmpfrc1\n                        i_last = prev + 1\n                        _f0 = F0k - dmpfrc0\n",
     "cache guard through temporaries, default-then-override, np.dot"),
    ("C08", "neutral", [], SE2, "            if unc:\n                while True:\n                    j, F1 = yield\n                    if j < 0:\n",
     "            if unc:\n                while 1:\n                    msg = yield\n                    j, F1 = msg\n                    if j < 0:\n",
     "`msg = yield` and `while 1`"),
    ("C08", "neutral", [], BASE, "        d, v, a, f = self._d, self._v, self._a, self._force\n        del self._d, self._v, self._a, self._force\n",
     "        names = (\"_d\", \"_v\", \"_a\", \"_force\")\n        d, v, a, f = [getattr(self, name) for name in names]\n        for name in names:\n            delattr(self, name)\n",
     "finalize reads and forgets the published arrays through getattr / delattr loops"),
    ("C08", "neutral", [], SE2, "                if velo:\n                    flex = phik @ Q[:n] @ phik.T\n                else:\n                    flex = phik @ Q[n:] @ phik.T\n",
     "                rows = slice(None, n) if velo else slice(n, None)\n                flex = phik @ Q[rows] @ np.transpose(phik)\n",
     "SolveExp2.get_f2x: half of Q through a slice object, np.transpose"),
    ("C08", "neutral", [], SE2,
     "                Q = self.Q\n                kdof = self.kdof\n                phik = phi[:, kdof]\n                if self.m is not None:\n                    if unc:\n"
     "                        invm = self.invm.ravel()\n                        Q = Q * invm\n                    else:\n"
     "                        Q = la.lu_solve(self.invm, Q.T, trans=1, check_finite=False).T\n                n = self.nonrfsz\n"
     "                if velo:\n                    flex = phik @ Q[:n] @ phik.T\n                else:\n                    flex = phik @ Q[n:] @ phik.T\n",
     "                n = self.nonrfsz\n                Q = self.Q[:n] if velo else self.Q[n:]\n                kdof = self.kdof\n                phik = phi[:, kdof]\n"
     "                if self.m is not None:\n                    if unc:\n                        Q = Q * self.invm.ravel()\n                    else:\n"
     "                        Q = la.lu_solve(self.invm, Q.T, trans=1, check_finite=False).T\n                flex = phik @ Q @ phik.T\n",
     "SolveExp2.get_f2x: the needed half of Q is taken first, then post-multiplied by the mass inverse"),
    ("C08", "neutral", [], BASE, "                    i = np.arange(self.ksize)\n                    b[i, i] = self.b  # full damping\n",
     "                    np.fill_diagonal(b, self.b)  # full damping\n",
     "_calc_acce_kdof fills the diagonal of its private copy with np.fill_diagonal"),
    ("C08", "neutral", [], UNC, "        if self.unc and self.systype is float:\n            # for uncoupled, m, b, k have rb+el (all nonrf)\n            if self.cdforces:\n",
     "        if not (not self.unc or self.systype is not float):\n            # for uncoupled, m, b, k have rb+el (all nonrf)\n            if self.cdforces:\n",
     "SolveUnc.generator dispatch through De Morgan"),
    ("C08", "neutral", [], UNC, "                        D[:, i] = F * di + G * vi + A * F0k + B * F1k\n                        V[:, i] = Fp * di + Gp * vi + Ap * F0k + Bp * F1k\n",
     "                        prev_d, prev_v = D[:, i - 1], Force[kdof][:, i - 1]\n                        D[:, i] = (F * prev_d + G * vi) + (B * F1[kdof] + A * prev_v)\n"
     "                        V[:, i] = Fp * di + Gp * vi + Ap * Force[:, i - 1][kdof] + Bp * F1k\n",
     "real generator: the force of step i-1 reached through three different index compositions"),
    ("C08", "neutral", [], UNC, "                tmp = B * (np.eye(self.ksize) - alpha * pc.Bp)\n                flex = phik @ tmp @ phik.T\n",
     "                eye = np.identity(self.ksize)\n                tmp = B * eye - B * (alpha * pc.Bp)\n                flex = np.dot(phik @ tmp, np.transpose(phik))\n",
     "_get_f2x_real_unc: distributed product, np.identity / np.dot / np.transpose"),
]
