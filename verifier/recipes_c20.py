"""C20 self-test recipes in addition to the table in selftest.py: (property, "break" | "neutral", expected rules, file, old text, new text, description).
The old text occurs exactly once in pyyeti/stats.py."""

S = "pyyeti/stats.py"

_N_ARM = '''        def _func(n, p, s, pr):
            return p - (1 - betainc(s + 1, n - s, pr))

        def _run_brentq(c, r, p):
            # find [a, b] interval by brute force:
            a = r
            if _func(a, 1 - c, r - 1, 1 - p) >= 0:
                # `r` samples (the fewest possible) already meet the confidence
                return a
            b = 2 * a
            loops = 0
            while _func(b, 1 - c, r - 1, 1 - p) < 0 and loops < 30:
                a = b
                b = 2 * a
                loops += 1
            return brentq(_func, a, b, args=(1 - c, r - 1, 1 - p))
'''

_N_ARM_NEGATED = '''        def _excess(n, target, s, pr):
            return (1 - betainc(s + 1, n - s, pr)) - target

        def _run_brentq(c, r, p):
            lo = r
            if _excess(lo, 1 - c, r - 1, 1 - p) <= 0:
                return lo
            hi = lo + lo
            for _ in range(30):
                if 0 <= -_excess(hi, 1 - c, r - 1, 1 - p):
                    break
                lo, hi = hi, 2 * hi
            return brentq(_excess, lo, hi, args=(1 - c, r - 1, 1 - p))
'''

_N_ARM_CLOSURE = '''        def _run_brentq(c, r, p):
            deficit = lambda m: (1 - c) - binom.cdf(r - 1, m, 1 - p)
            a = r
            if not deficit(a) < 0:
                return a
            b = 2 * a
            loops = 0
            while True:
                if deficit(b) >= 0 or loops == 30:
                    break
                a = b
                b = 2 * a
                loops += 1
            return brentq(deficit, a, b)
'''

_N_ARM_STORED = '''        def _func(n, p, s, pr):
            return p - (1 - betainc(s + 1, n - s, pr))

        def _run_brentq(c, r, p):
            a = r
            fa = _func(a, 1 - c, r - 1, 1 - p)
            if fa >= 0:
                return a
            b = 2 * a
            fb = _func(b, 1 - c, r - 1, 1 - p)
            loops = 0
            while fb < 0 and loops < 30:
                a = b
                b = 2 * a
                fb = _func(b, 1 - c, r - 1, 1 - p)
                loops += 1
            return brentq(_func, a, b, args=(1 - c, r - 1, 1 - p))
'''

_NEWTON = '''    while np.any(abs(r - rold) > tol) and loops < MAXLOOPS:
        rold = r
        lhi = sn + rold
        llo = sn - rold
        num = norm.cdf(lhi) - norm.cdf(llo) - prob
        den = spi * (np.exp(-(lhi**2) / 2) + np.exp(-(llo**2) / 2))
        r = rold - num / den
        loops += 1
'''

_NEWTON_DO_WHILE = '''    while True:
        rnew = r - (norm.cdf(sn + r) - norm.cdf(sn - r) - prob) / (spi * (np.exp(-((sn + r) ** 2) / 2) + np.exp(-((sn - r) ** 2) / 2)))
        loops += 1
        moved = np.abs(rnew - r)
        r = rnew
        if not (moved > tol).any() or loops == MAXLOOPS:
            break
'''

_NEWTON_STOPS_EARLY = '''    while True:
        rnew = r - (norm.cdf(sn + r) - norm.cdf(sn - r) - prob) / (spi * (np.exp(-((sn + r) ** 2) / 2) + np.exp(-((sn - r) ** 2) / 2)))
        loops += 1
        moved = np.abs(rnew - r)
        r = rnew
        if not (moved > tol).all() or loops == MAXLOOPS:
            break
'''

RECIPES = [
    # ---- broken variants for the obligations added during hardening
    ("C20", "break", ["C20-R1"], S, "    pnonc = sn * norm.ppf(p)\n", "    pnonc = sn * abs(norm.ppf(p))\n", "non-centrality from |z_p|"),
    ("C20", "break", ["C20-R2"], S, "        r = rold - num / den\n", "        r = np.clip(rold - num / den, 0.5 * rold, 1.5 * rold)\n", "Newton step clipped to unestablished limits"),
    ("C20", "break", ["C20-R2"], S, "        r = rold - num / den\n", "        r = np.minimum(rold - num / den, rold + sn)\n", "Newton step limited from above"),
    ("C20", "break", ["C20-R2"], S, "    while np.any(abs(r - rold) > tol) and loops < MAXLOOPS:", "    while np.any(abs(r - rold) > 100 * tol) and loops < MAXLOOPS:", "coarser tolerance than requested"),
    ("C20", "break", ["C20-R2"], S, "            RuntimeWarning,\n        )\n    return r\n", "            RuntimeWarning,\n        )\n    return rold\n", "previous iterate returned"),
    ("C20", "break", ["C20-R2"], S, _NEWTON, _NEWTON_STOPS_EARLY, "do-while form that stops when one element has converged"),
    ("C20", "break", ["C20-R4"], S, "            return brentq(_func, a, b, args=(1 - c, r - 1, 1 - p))", "            return brentq(_func, a, b, args=(1 - c, r - 1, 1 - p), xtol=0.01)",
     "coarse root rounded to an integer"),
    ("C20", "break", ["C20-R4"], S, "        n.flat = [1 - brentq(_func, 0, 1, args=(1 - c, r - 1, n)) for (c, r, n) in b]", "        n.flat = [brentq(_func, 0, 1, args=(1 - c, r - 1, n)) for (c, r, n) in b]",
     "coverage arm returns the exceedance probability"),
    ("C20", "break", ["C20-R4"], S, "        return r.astype(int)\n", "        return r.astype(int) + 1\n", "rank with an offset"),
    ("C20", "break", ["C20-R4", "C20-R5"], S, "            if _func(a, 1 - c, r - 1, 1 - p) >= 0:\n", "            if _func(a, 1 - c, r - 1, 1 - p) <= 0:\n", "early exit on the wrong sign"),
    ("C20", "break", ["C20-R5"], S, "            while _func(b, 1 - c, r - 1, 1 - p) < 0 and loops < 30:", "            while _func(b, 1 - c, r - 1, 1 - p) > 0 and loops < 30:", "search loop runs on the wrong sign"),
    ("C20", "break", ["C20-R5"], S, "            while _func(b, 1 - c, r - 1, 1 - p) < 0 and loops < 30:", "            while _func(b, 1 - c, r - 1, 1 - p) < 0 or loops < 30:", "search loop may stop on the counter alone"),
    ("C20", "break", ["C20-R5"], S, "            return brentq(_func, a, b, args=(1 - c, r - 1, 1 - p))", "            return brentq(a, _func, b, args=(1 - c, r - 1, 1 - p))", "brentq arguments misplaced"),
    ("C20", "break", ["C20-R5"], S, _N_ARM, _N_ARM_CLOSURE.replace("            if not deficit(a) < 0:\n                return a\n", ""), "closure form without the test at the lower end (F16 again)"),
    # ---- behaviour-preserving variants the rules were made robust against
    ("C20", "neutral", [], S, "    return nct.ppf(c, n - 1, pnonc) / sn", "    return nct.isf(1 - c, nc=pnonc, df=n - 1) / sn", "isf form, shape parameters by keyword"),
    ("C20", "neutral", [], S, _NEWTON, _NEWTON_DO_WHILE, "Newton loop as do-while: test after the update, no name for the previous iterate"),
    ("C20", "neutral", [], S, "    while np.any(abs(r - rold) > tol) and loops < MAXLOOPS:", "    while loops < MAXLOOPS and (tol < np.abs(rold - r)).any():", "loop test reordered, .any() method, flipped comparison"),
    ("C20", "neutral", [], S, "    r = _getr(n, p, tol)\n    return np.sqrt((n - 1) / chi) * r", "    return _getr(prob=p, n=n, tol=tol) / np.sqrt(chi / (n - 1))", "_getr by keyword, scale as a divisor"),
    ("C20", "neutral", [], S, "        return binom.sf(r - 1, n, 1 - p)", "        return betainc(r, n - r + 1, 1 - p)", "confidence arm through the incomplete beta function"),
    ("C20", "neutral", [], S, _N_ARM, _N_ARM_NEGATED, "negated residual, flipped tests, for-range search, tuple assignment"),
    ("C20", "neutral", [], S, _N_ARM, _N_ARM_CLOSURE, "residual as a closure lambda in binom.cdf form, while True search"),
    ("C20", "neutral", [], S, "        n.flat = [1 - brentq(_func, 0, 1, args=(1 - c, r - 1, n)) for (c, r, n) in b]",
     "        n.flat = [brentq(lambda q: (1 - c) - binom.cdf(r - 1, n, 1 - q), 0, 1) for (c, r, n) in b]", "coverage arm solved for p directly"),
    ("C20", "neutral", [], S, _N_ARM, _N_ARM_STORED, "probe values kept in temporaries that the search loop updates"),
    ("C20", "break", ["C20-R5"], S, _N_ARM, _N_ARM_STORED.replace("                b = 2 * a\n                fb = _func(b, 1 - c, r - 1, 1 - p)\n", "                b = 2 * a\n"),
     "stored probe value not refreshed after the bracket end moves"),
    ("C20", "neutral", [], S, "            return int(r[()])\n", "            return int(r.item())\n", "scalar through .item()"),
]
