"""C20 self-test recipes in addition to the table in selftest.py: (property, "break" | "neutral", expected rules, file, old text, new text, description).
The old text occurs exactly once in pyyeti/stats.py."""

S = "pyyeti/stats.py"

_N_ARM = '''        def _func(n, p, s, pr):
            return p - (1 - betainc(s + 1, n - s, pr))

        def _run_brentq(c, r, p):
            # find [a, b] interval by brute force:
            a = r
            if _func(a, 1 - c, r - 1, 1 - p) >= 0:
                # `r` samples (the fewest possible) already meet the confidence
                return a
            b = 2 * a
            loops = 0
            while _func(b, 1 - c, r - 1, 1 - p) < 0 and loops < 30:
                a = b
                b = 2 * a
                loops += 1
            return brentq(_func, a, b, args=(1 - c, r - 1, 1 - p))
'''

_N_ARM_NEGATED = '''        def _excess(n, target, s, pr):
            return (1 - betainc(s + 1, n - s, pr)) - target

        def _run_brentq(c, r, p):
            lo = r
            if _excess(lo, 1 - c, r - 1, 1 - p) <= 0:
                return lo
            hi = lo + lo
            for _ in range(30):
                if 0 <= -_excess(hi, 1 - c, r - 1, 1 - p):
                    break
                lo, hi = hi, 2 * hi
            return brentq(_excess, lo, hi, args=(1 - c, r - 1, 1 - p))
'''

_N_ARM_CLOSURE = '''        def _run_brentq(c, r, p):
            deficit = lambda m: (1 - c) - binom.cdf(r - 1, m, 1 - p)
            a = r
            if not deficit(a) < 0:
                return a
            b = 2 * a
            loops = 0
            while True:
                if deficit(b) >= 0 or loops == 30:
                    break
                a = b
                b = 2 * a
                loops += 1
            return brentq(deficit, a, b)
'''

_N_ARM_STORED = '''        def _func(n, p, s, pr):
            return p - (1 - betainc(s + 1, n - s, pr))

        def _run_brentq(c, r, p):
            a = r
            fa = _func(a, 1 - c, r - 1, 1 - p)
            if fa >= 0:
                return a
            b = 2 * a
            fb = _func(b, 1 - c, r - 1, 1 - p)
            loops = 0
            while fb < 0 and loops < 30:
                a = b
                b = 2 * a
                fb = _func(b, 1 - c, r - 1, 1 - p)
                loops += 1
            return brentq(_func, a, b, args=(1 - c, r - 1, 1 - p))
'''

_NEWTON = '''    while np.any(abs(r - rold) > tol) and loops < MAXLOOPS:
        rold = r
        lhi = sn + rold
        llo = sn - rold
        num = norm.cdf(lhi) - norm.cdf(llo) - prob
        den = spi * (np.exp(-(lhi**2) / 2) + np.exp(-(llo**2) / 2))
        r = rold - num / den
        loops += 1
'''

_NEWTON_DO_WHILE = '''    while True:
        rnew = r - (norm.cdf(sn + r) - norm.cdf(sn - r) - prob) / (spi * (np.exp(-((sn + r) ** 2) / 2) + np.exp(-((sn - r) ** 2) / 2)))
        loops += 1
        moved = np.abs(rnew - r)
        r = rnew
        if not (moved > tol).any() or loops == MAXLOOPS:
            break
'''

_NEWTON_STOPS_EARLY = '''    while True:
        rnew = r - (norm.cdf(sn + r) - norm.cdf(sn - r) - prob) / (spi * (np.exp(-((sn + r) ** 2) / 2) + np.exp(-((sn - r) ** 2) / 2)))
        loops += 1
        moved = np.abs(rnew - r)
        r = rnew
        if not (moved > tol).all() or loops == MAXLOOPS:
            break
'''

RECIPES = [
    # ---- broken variants for the obligations added during hardening
    ("C20", "break", ["C20-R1"], S, "    pnonc = sn * norm.ppf(p)\n", "    pnonc = sn * abs(norm.ppf(p))\n", "non-centrality from |z_p|"),
    ("C20", "break", ["C20-R2"], S, "        r = rold - num / den\n", "        r = np.clip(rold - num / den, 0.5 * rold, 1.5 * rold)\n", "Newton step clipped to unestablished limits"),
    ("C20", "break", ["C20-R2"], S, "        r = rold - num / den\n", "        r = np.minimum(rold - num / den, rold + sn)\n", "Newton step limited from above"),
    ("C20", "break", ["C20-R2"], S, "    while np.any(abs(r - rold) > tol) and loops < MAXLOOPS:", "    while np.any(abs(r - rold) > 100 * tol) and loops < MAXLOOPS:", "coarser tolerance than requested"),
    ("C20", "break", ["C20-R2"], S, "            RuntimeWarning,\n        )\n    return r\n", "            RuntimeWarning,\n        )\n    return rold\n", "previous iterate returned"),
    ("C20", "break", ["C20-R2"], S, _NEWTON, _NEWTON_STOPS_EARLY, "do-while form that stops when one element has converged"),
    ("C20", "break", ["C20-R4"], S, "            return brentq(_func, a, b, args=(1 - c, r - 1, 1 - p))", "            return brentq(_func, a, b, args=(1 - c, r - 1, 1 - p), xtol=0.01)",
     "coarse root rounded to an integer"),
    ("C20", "break", ["C20-R4"], S, "        n.flat = [1 - brentq(_func, 0, 1, args=(1 - c, r - 1, n)) for (c, r, n) in b]", "        n.flat = [brentq(_func, 0, 1, args=(1 - c, r - 1, n)) for (c, r, n) in b]",
     "coverage arm returns the exceedance probability"),
    ("C20", "break", ["C20-R4"], S, "        return r.astype(int)\n", "        return r.astype(int) + 1\n", "rank with an offset"),
    ("C20", "break", ["C20-R4", "C20-R5"], S, "            if _func(a, 1 - c, r - 1, 1 - p) >= 0:\n", "            if _func(a, 1 - c, r - 1, 1 - p) <= 0:\n", "early exit on the wrong sign"),
    ("C20", "break", ["C20-R5"], S, "            while _func(b, 1 - c, r - 1, 1 - p) < 0 and loops < 30:", "            while _func(b, 1 - c, r - 1, 1 - p) > 0 and loops < 30:", "search loop runs on the wrong sign"),
    ("C20", "break", ["C20-R5"], S, "            while _func(b, 1 - c, r - 1, 1 - p) < 0 and loops < 30:", "            while _func(b, 1 - c, r - 1, 1 - p) < 0 or loops < 30:", "search loop may stop on the counter alone"),
    ("C20", "break", ["C20-R5"], S, "            return brentq(_func, a, b, args=(1 - c, r - 1, 1 - p))", "            return brentq(a, _func, b, args=(1 - c, r - 1, 1 - p))", "brentq arguments misplaced"),
    ("C20", "break", ["C20-R5"], S, _N_ARM, _N_ARM_CLOSURE.replace("            if not deficit(a) < 0:\n                return a\n", ""), "closure form without the test at the lower end (F16 again)"),
    # ---- behaviour-preserving variants the rules were made robust against
    ("C20", "neutral", [], S, "    return nct.ppf(c, n - 1, pnonc) / sn", "    return nct.isf(1 - c, nc=pnonc, df=n - 1) / sn", "isf form, shape parameters by keyword"),
    ("C20", "neutral", [], S, _NEWTON, _NEWTON_DO_WHILE, "Newton loop as do-while: test after the update, no name for the previous iterate"),
    ("C20", "neutral", [], S, "    while np.any(abs(r - rold) > tol) and loops < MAXLOOPS:", "    while loops < MAXLOOPS and (tol < np.abs(rold - r)).any():", "loop test reordered, .any() method, flipped comparison"),
    ("C20", "neutral", [], S, "    r = _getr(n, p, tol)\n    return np.sqrt((n - 1) / chi) * r", "    return _getr(prob=p, n=n, tol=tol) / np.sqrt(chi / (n - 1))", "_getr by keyword, scale as a divisor"),
    ("C20", "neutral", [], S, "        return binom.sf(r - 1, n, 1 - p)", "        return betainc(r, n - r + 1, 1 - p)", "confidence arm through the incomplete beta function"),
    ("C20", "neutral", [], S, _N_ARM, _N_ARM_NEGATED, "negated residual, flipped tests, for-range search, tuple assignment"),
    ("C20", "neutral", [], S, _N_ARM, _N_ARM_CLOSURE, "residual as a closure lambda in binom.cdf form, while True search"),
    ("C20", "neutral", [], S, "        n.flat = [1 - brentq(_func, 0, 1, args=(1 - c, r - 1, n)) for (c, r, n) in b]",
     "        n.flat = [brentq(lambda q: (1 - c) - binom.cdf(r - 1, n, 1 - q), 0, 1) for (c, r, n) in b]", "coverage arm solved for p directly"),
    ("C20", "neutral", [], S, _N_ARM, _N_ARM_STORED, "probe values kept in temporaries that the search loop updates"),
    ("C20", "break", ["C20-R5"], S, _N_ARM, _N_ARM_STORED.replace("                b = 2 * a\n                fb = _func(b, 1 - c, r - 1, 1 - p)\n", "                b = 2 * a\n"),
     "stored probe value not refreshed after the bracket end moves"),
    ("C20", "neutral", [], S, "            return int(r[()])\n", "            return int(r.item())\n", "scalar through .item()"),
]


# ---------------------------------------------------------------------------------------------------------------------------------
# second hardening pass: one construct, many spellings (element-wise application over np.broadcast, dispatch on `which`, Newton loop shapes,
# bracket search split between functions, library callables by value)
_OS_BODY = """    if which == "c":
        r = np.asarray(r)
        p = np.asarray(p)
        return binom.sf(r - 1, n, 1 - p)
    elif which == "r":
        # c = np.asarray(c)
        # p = np.asarray(p)
        # return binom.ppf(1-c, n, 1-p)  # gets 'value too deep error'
        b = np.broadcast(c, n, p)
        r = np.empty(b.shape)
        r.flat = [binom.ppf(1 - c, n, 1 - p) for (c, n, p) in b]
        if r.ndim == 0:
            return int(r[()])
        return r.astype(int)
    elif which == "n":

""" + _N_ARM + """
        b = np.broadcast(c, r, p)
        n = np.empty(b.shape)
        n.flat = [_run_brentq(c, r, p) for (c, r, p) in b]
        return np.ceil(n).astype(int)
    elif which == "p":

        def _func(pr, p, s, n):
            return p - binom.cdf(s, n, pr)

        b = np.broadcast(c, r, n)
        n = np.empty(b.shape)
        n.flat = [1 - brentq(_func, 0, 1, args=(1 - c, r - 1, n)) for (c, r, n) in b]
        if n.ndim == 0:
            return n[()]
        return n
    raise ValueError("invalid `which` setting")
"""

_N_ARM_IND = "".join("    " + ln + "\n" if ln else "\n" for ln in _N_ARM.splitlines())

# match statement; hand-kept running index into a ravel() view; np.fromiter over a generator; np.vectorize
_OS_MATCH = """    match which:
        case "c":
            r = np.asarray(r)
            p = np.asarray(p)
            return binom.sf(r - 1, n, 1 - p)
        case "r":
            b = np.broadcast(c, n, p)
            r = np.empty(b.shape)
            out = r.ravel()
            k = 0
            for ci, ni, pi in b:
                out[k] = binom.ppf(1 - ci, ni, 1 - pi)
                k += 1
            if r.ndim == 0:
                return int(r[()])
            return r.astype(int)
        case "n":

""" + _N_ARM_IND + """
            b = np.broadcast(c, r, p)
            n = np.fromiter((_run_brentq(*t) for t in b), dtype=float, count=b.size).reshape(b.shape)
            return np.ceil(n).astype(int)
        case "p":

            def _func(pr, p, s, n):
                return p - binom.cdf(s, n, pr)

            solve = np.vectorize(lambda c, r, n: 1 - brentq(_func, 0, 1, args=(1 - c, r - 1, n)), otypes=[float])
            n = solve(c, r, n)
            if n.ndim == 0:
                return n[()]
            return n
        case _:
            raise ValueError("invalid `which` setting")
"""

# table of closures indexed by `which`; starmap into `.flat[:]`; zip(range(size), b) with `.flat[i]`; np.array(list).reshape
_OS_TABLE = """    import itertools

    def _conf():
        return binom.sf(np.asarray(r) - 1, n, 1 - np.asarray(p))

    def _rank():
        b = np.broadcast(c, n, p)
        out = np.empty(b.shape)
        out.flat[:] = list(itertools.starmap(lambda c, n, p: binom.ppf(1 - c, n, 1 - p), b))
        return int(out[()]) if out.ndim == 0 else out.astype(int)

    def _size():
""" + _N_ARM + """
        b = np.broadcast(c, r, p)
        out = np.empty(b.shape)
        for i, crp in zip(range(b.size), b):
            out.flat[i] = _run_brentq(*crp)
        return np.ceil(out).astype(int)

    def _cover():
        def _func(pr, p, s, n):
            return p - binom.cdf(s, n, pr)

        b = np.broadcast(c, r, n)
        vals = [1 - brentq(_func, 0, 1, args=(1 - c, r - 1, n)) for (c, r, n) in b]
        out = np.array(vals).reshape(b.shape)
        return out[()] if out.ndim == 0 else out

    table = {"c": _conf, "r": _rank, "n": _size, "p": _cover}
    if which not in table:
        raise ValueError("invalid `which` setting")
    return table[which]()
"""

_NEWTON_BODY = """rold = r
        lhi = sn + rold
        llo = sn - rold
        num = norm.cdf(lhi) - norm.cdf(llo) - prob
        den = spi * (np.exp(-(lhi**2) / 2) + np.exp(-(llo**2) / 2))
        r = rold - num / den
        loops += 1
"""
_NEWTON_ELSE_BREAK = """    while True:
        if np.any(abs(r - rold) > tol) and loops < MAXLOOPS:
            """ + _NEWTON_BODY.replace("\n        ", "\n            ") + """        else:
            break
"""
_NEWTON_FLAG = """    moving = True
    while moving and loops < MAXLOOPS:
        """ + _NEWTON_BODY + """        moving = np.any(abs(r - rold) > tol)
"""
_NEWTON_RETURN_INSIDE = """    while loops < MAXLOOPS:
        if not np.any(abs(r - rold) > tol):
            return r
        """ + _NEWTON_BODY
_NEWTON_TWO_BREAKS = """    with np.errstate(over="ignore"):
        while True:
            if not np.max(np.abs(r - rold)) > tol:
                break
            if loops >= MAXLOOPS:
                break
            """ + _NEWTON_BODY.replace("\n        ", "\n            ").replace("r = rold - num / den\n            loops += 1", "r, loops = rold - num / den, 1 + loops") + """            if np.any(np.isnan(r)):
                warnings.warn("nan", RuntimeWarning)
"""

_N_ARM_HELPER = """        def _func(n, p, s, pr):
            return p - (1 - betainc(s + 1, n - s, pr))

        def _expand(f, lo, args, limit=30):
            hi = lo + lo
            tries = 0
            while f(hi, *args) < 0 and tries < limit:
                lo, hi = hi, hi + hi
                tries = 1 + tries
            return lo, hi

        def _run_brentq(c, r, p):
            args = (1 - c, r - 1, 1 - p)
            if _func(r, *args) >= 0:
                return r
            a, b = _expand(_func, r, args)
            return brentq(_func, a, b, args=args)
"""
_N_ARM_SPLIT = """        def _func(n, p, s, pr):
            return p - (1 - betainc(s + 1, n - s, pr))

        def _search(a, args):
            b = 2 * a
            loops = 0
            while _func(b, *args) < 0 and loops < 30:
                a, b = b, 2 * b
                loops += 1
            return brentq(_func, a, b, args=args)

        def _run_brentq(c, r, p):
            args = (1 - c, r - 1, 1 - p)
            return r if _func(r, *args) >= 0 else _search(r, args)
"""
_N_ARM_PARTIAL = """        def _func(n, p, s, pr):
            return p - (1 - betainc(s + 1, n - s, pr))

        def _run_brentq(c, r, p, limit=None):
            import functools
            from scipy import optimize

            limit = 30 if limit is None else limit
            resid = functools.partial(_func, p=1 - c, s=r - 1, pr=1 - p)
            a = r
            if (fa := resid(a)) >= 0:
                return a
            b = 2 * a
            for _ in range(limit):
                if (fb := resid(b)) < 0:
                    a, b = b, 2 * b
                    continue
                break
            return optimize.brentq(resid, a, b)
"""

RECIPES += [
    # ---- behaviour-preserving
    ("C20", "neutral", [], S, _OS_BODY, _OS_MATCH, "match statement; running index into ravel(); np.fromiter; np.vectorize"),
    ("C20", "neutral", [], S, _OS_BODY, _OS_TABLE, "table of closures indexed by which; starmap; zip(range(size), b); np.array(list).reshape"),
    ("C20", "neutral", [], S, "        r.flat = [binom.ppf(1 - c, n, 1 - p) for (c, n, p) in b]\n",
     "        it = r.flat\n        for i, t in enumerate(b):\n            it[i] = binom.ppf(1 - t[0], t[1], 1 - t[2])\n", "alias of the .flat view, element tuple indexed"),
    ("C20", "neutral", [], S, "        n.flat = [_run_brentq(c, r, p) for (c, r, p) in b]\n", "        n[...] = np.reshape(list(map(lambda crp: _run_brentq(*crp), b)), b.shape)\n", "map + reshape stored with [...]"),
    ("C20", "neutral", [], S, _NEWTON, _NEWTON_ELSE_BREAK, "Newton loop: while True with the body under the test and break in the else arm"),
    ("C20", "neutral", [], S, _NEWTON, _NEWTON_FLAG, "Newton loop: the test carried in a flag set at the end of the pass"),
    ("C20", "neutral", [], S, _NEWTON, _NEWTON_RETURN_INSIDE, "Newton loop: return from inside the loop, the cap as loop test"),
    ("C20", "neutral", [], S, _NEWTON, _NEWTON_TWO_BREAKS, "Newton loop: two breaks, largest change, tuple update, unrelated test in the body, with block"),
    ("C20", "neutral", [], S, "        num = norm.cdf(lhi) - norm.cdf(llo) - prob\n", "        num = norm.sf(llo) - norm.sf(x=lhi, loc=0, scale=1) - prob\n", "survival-function form of the residual"),
    ("C20", "neutral", [], S, "    spi = 1 / np.sqrt(2 * np.pi)\n", "    import math\n\n    spi = np.power(math.tau, -0.5)\n", "tau, power ufunc, local import"),
    ("C20", "neutral", [], S, "        den = spi * (np.exp(-(lhi**2) / 2) + np.exp(-(llo**2) / 2))\n", "        den = np.add(norm.pdf(lhi), norm.pdf(llo))\n", "density through norm.pdf"),
    ("C20", "neutral", [], S, "    while np.any(abs(r - rold) > tol) and loops < MAXLOOPS:", "    while np.logical_and(np.greater(np.absolute(np.subtract(r, rold)), tol).any(), loops < MAXLOOPS):", "comparison and conjunction as ufuncs"),
    ("C20", "neutral", [], S, "    return nct.ppf(c, n - 1, pnonc) / sn", "    return np.divide(nct(n - 1, pnonc).ppf(c), sn)", "frozen distribution, divide ufunc"),
    ("C20", "neutral", [], S, "    chi = chi2.ppf(1 - c, n - 1)", "    chi = chi2(df=n - 1).isf(c)", "frozen chi-square, isf"),
    ("C20", "neutral", [], S, "        return binom.sf(r - 1, n, 1 - p)", "        return binom(n, 1 - p).sf(r - 1)", "frozen binomial"),
    ("C20", "neutral", [], S, _N_ARM, _N_ARM_HELPER, "doubling loop in a helper that returns the bracket; limit as defaulted parameter"),
    ("C20", "neutral", [], S, _N_ARM, _N_ARM_SPLIT, "sign test at the lower end in the caller (conditional expression), doubling loop and brentq in a helper"),
    ("C20", "neutral", [], S, _N_ARM, _N_ARM_PARTIAL, "functools.partial residual, walrus probes, for/continue/break, optimize.brentq, limit defaulting to None"),
    # ---- broken variants in the new spellings
    ("C20", "break", ["C20-R2"], S, _NEWTON, _NEWTON_FLAG.replace("np.any(abs(r - rold) > tol)", "np.all(abs(r - rold) > tol)"), "flag form that stops when one element has converged"),
    ("C20", "break", ["C20-R2"], S, _NEWTON, _NEWTON_RETURN_INSIDE.replace("            return r\n", "            return rold\n"), "return of the previous iterate from inside the loop"),
    ("C20", "break", ["C20-R2"], S, "    while np.any(abs(r - rold) > tol) and loops < MAXLOOPS:", "    while np.min(np.abs(r - rold)) > tol and loops < MAXLOOPS:", "smallest change compared with the tolerance"),
    ("C20", "break", ["C20-R4"], S, "        n.flat = [_run_brentq(c, r, p) for (c, r, p) in b]\n", "        n.flat = list(map(lambda crp: _run_brentq(*crp) + 1, b))\n", "map form with an offset on the root"),
    ("C20", "break", ["C20-R4"], S, "        r.flat = [binom.ppf(1 - c, n, 1 - p) for (c, n, p) in b]\n",
     "        it = r.flat\n        for i, t in enumerate(b):\n            it[i] = binom.ppf(1 - t[0], t[1], t[2])\n", "element loop with the coverage instead of its complement"),
    ("C20", "break", ["C20-R5"], S, _N_ARM, _N_ARM_HELPER.replace("            if _func(r, *args) >= 0:\n                return r\n", ""), "helper form without the test at the lower end"),
    ("C20", "break", ["C20-R5"], S, _N_ARM, _N_ARM_HELPER.replace("< 0 and tries < limit", "< 0 or tries < limit"), "helper form whose loop may stop on the counter alone"),
    ("C20", "break", ["C20-R4", "C20-R5"], S, _N_ARM, _N_ARM_SPLIT.replace("return r if _func(r, *args) >= 0 else", "return r if _func(r, *args) <= 0 else"), "split form with the early exit on the wrong sign"),
    ("C20", "break", ["C20-R5"], S, _N_ARM, _N_ARM_SPLIT.replace("return r if _func(r, *args) >= 0 else _search(r, args)", "return _search(r, args)"), "split form without the early exit"),
]


# ---------------------------------------------------------------------------------------------------------------------------------
# third hardening pass: what a helper establishes about the values it returns goes with those values to every call site (the bracket search
# in a helper that returns the bracket and signals "no bracket needed" by None / a flag; the sign test in a helper that returns a bool; the
# residual from a factory; the bracket found by the caller and handed to the solver inside a comprehension or an element loop; the element-wise
# application in a helper that takes the function; the Newton terms / convergence test / whole loop in helpers)
_FUNC_N = '''        def _func(n, p, s, pr):
            return p - (1 - betainc(s + 1, n - s, pr))

'''
_BR_NONE = _FUNC_N + '''        def _bracket(c, r, p):
            a = r
            if _func(a, 1 - c, r - 1, 1 - p) >= 0:
                return a, None
            loops = 0
            b = 2 * a
            while _func(b, 1 - c, r - 1, 1 - p) < 0 and loops < 30:
                a = b
                loops += 1
                b = 2 * a
            return a, b

        def _run_brentq(c, r, p):
            a, b = _bracket(c, r, p)
            if b is None:
                return a
            return brentq(_func, a, b, args=(1 - c, r - 1, 1 - p))
'''
_BR_FLAG = _FUNC_N + '''        def _bracket(c, r, p):
            lo = r
            if _func(lo, 1 - c, r - 1, 1 - p) >= 0:
                return True, lo, lo
            hi = 2 * lo
            for _ in range(30):
                if not _func(hi, 1 - c, r - 1, 1 - p) < 0:
                    break
                lo, hi = hi, 2 * hi
            return False, lo, hi

        def _run_brentq(c, r, p):
            met, lo, hi = _bracket(c, r, p)
            if met:
                return lo
            return brentq(_func, lo, hi, args=(1 - c, r - 1, 1 - p))
'''
_BR_WHOLE_NONE = _FUNC_N + '''        def _bracket(c, r, p):
            args = (1 - c, r - 1, 1 - p)
            if _func(r, *args) >= 0:
                return None
            a, b = r, 2 * r
            loops = 0
            while _func(b, *args) < 0 and loops < 30:
                a, b = b, 2 * b
                loops += 1
            return a, b

        def _run_brentq(c, r, p):
            br = _bracket(c, r, p)
            if br is None:
                return r
            a, b = br
            return brentq(_func, a, b, args=(1 - c, r - 1, 1 - p))
'''
_BR_LOWER_NONE = _FUNC_N + '''        def _bracket(c, r, p):
            a = r
            if _func(a, 1 - c, r - 1, 1 - p) >= 0:
                return None, a
            loops = 0
            b = 2 * a
            while _func(b, 1 - c, r - 1, 1 - p) < 0 and loops < 30:
                a = b
                loops += 1
                b = 2 * a
            return a, b

        def _run_brentq(c, r, p):
            lo, hi = _bracket(c, r, p)
            return hi if lo is None else brentq(_func, lo, hi, args=(1 - c, r - 1, 1 - p))
'''
_BR_BOOL = _FUNC_N + '''        def _meets(m, c, r, p):
            return _func(m, 1 - c, r - 1, 1 - p) >= 0

        def _bracket(c, r, p):
            if _meets(r, c, r, p):
                return r, None
            a, b, loops = r, 2 * r, 0
            while not _meets(b, c, r, p) and loops < 30:
                a, b, loops = b, 2 * b, loops + 1
            return a, b

        def _run_brentq(c, r, p):
            a, b = _bracket(c, r, p)
            if b is None:
                return a
            return brentq(_func, a, b, args=(1 - c, r - 1, 1 - p))
'''
_BR_FACTORY = '''        def _resid_for(c, r, p):
            q, s, pr = 1 - c, r - 1, 1 - p
            return lambda m: q - (1 - betainc(s + 1, m - s, pr))

        def _bracket(f, a):
            if f(a) >= 0:
                return a, None
            b, loops = 2 * a, 0
            while f(b) < 0 and loops < 30:
                a, b, loops = b, 2 * b, loops + 1
            return a, b

        def _run_brentq(c, r, p):
            f = _resid_for(c, r, p)
            a, b = _bracket(f, r)
            return a if b is None else brentq(f, a, b)
'''
_N_FILL = "\n        b = np.broadcast(c, r, p)\n        n = np.empty(b.shape)\n        n.flat = [_run_brentq(c, r, p) for (c, r, p) in b]\n"
_N_WHOLE = _N_ARM + _N_FILL
_EACH_HELPER = _BR_NONE + '''
        def _each(f, *ops):
            bc = np.broadcast(*ops)
            out = np.empty(bc.shape)
            out.flat = [f(*t) for t in bc]
            return out

        n = _each(_run_brentq, c, r, p)
'''
_BR_PASSED = _BR_NONE.replace('''        def _run_brentq(c, r, p):
            a, b = _bracket(c, r, p)
            if b is None:
                return a
            return brentq(_func, a, b, args=(1 - c, r - 1, 1 - p))
''', '''        def _solve(a, b, c, r, p):
            return a if b is None else brentq(_func, a, b, args=(1 - c, r - 1, 1 - p))
''')
_BR_PASSED_COMP = _BR_PASSED + '''
        b = np.broadcast(c, r, p)
        n = np.empty(b.shape)
        n.flat = [_solve(*_bracket(c, r, p), c, r, p) for (c, r, p) in b]
'''
_BR_PASSED_LOOP = _BR_PASSED + '''
        b = np.broadcast(c, r, p)
        n = np.empty(b.shape)
        for i, (ci, ri, pi) in enumerate(b):
            lo, hi = _bracket(ci, ri, pi)
            n.flat[i] = _solve(lo, hi, ci, ri, pi)
'''
_NO_LOWER_TEST = "            if _func(a, 1 - c, r - 1, 1 - p) >= 0:\n                return a, None\n"

_GETR_BODY = '''    sn = 1 / np.sqrt(n)
    spi = 1 / np.sqrt(2 * np.pi)

    # initial guess at r = r_inf * (1+1/(2*n)
    r = norm.ppf(prob + (1 - prob) / 2) * (1 + 1 / (2 * n))
    rold = r + 10
    loops = 0
    MAXLOOPS = 100
''' + _NEWTON + '''    if loops == MAXLOOPS:  # pragma: no cover
        warnings.warn(
            "maximum number of loops exceeded. Solution will likely be inaccurate.",
            RuntimeWarning,
        )
    return r
'''
_GETR_TERMS = '''    def terms(r, sn):
        lhi, llo = sn + r, sn - r
        return norm.cdf(lhi) - norm.cdf(llo) - prob, (np.exp(-(lhi**2) / 2) + np.exp(-(llo**2) / 2)) / np.sqrt(2 * np.pi)

    def moving(r, rold):
        return np.any(abs(r - rold) > tol)

    sn = 1 / np.sqrt(n)
    r = norm.ppf(prob + (1 - prob) / 2) * (1 + 1 / (2 * n))
    rold = r + 10
    loops = 0
    MAXLOOPS = 100
    while moving(r, rold) and loops < MAXLOOPS:
        rold = r
        num, den = terms(rold, sn)
        r = rold - num / den
        loops += 1
    if loops == MAXLOOPS:  # pragma: no cover
        warnings.warn(
            "maximum number of loops exceeded. Solution will likely be inaccurate.",
            RuntimeWarning,
        )
    return r
'''
_GETR_HANDED_ON = '''    sn = 1 / np.sqrt(n)
    spi = 1 / np.sqrt(2 * np.pi)
    r = norm.ppf(prob + (1 - prob) / 2) * (1 + 1 / (2 * n))
    return _getr_iterate(r, sn, spi, prob, tol)


def _getr_iterate(r, sn, spi, prob, tol, maxloops=100):
    rold = r + 10
    loops = 0
''' + _NEWTON.replace("MAXLOOPS", "maxloops") + '''    if loops == maxloops:  # pragma: no cover
        warnings.warn(
            "maximum number of loops exceeded. Solution will likely be inaccurate.",
            RuntimeWarning,
        )
    return r
'''

RECIPES += [
    # ---- behaviour-preserving
    ("C20", "neutral", [], S, _N_ARM, _BR_NONE, "bracket search in a helper that returns (a, None) when no bracket is needed, else (a, b); statements reordered"),
    ("C20", "neutral", [], S, _N_ARM, _BR_FLAG, "bracket helper returns a flag with the bracket; for-range search"),
    ("C20", "neutral", [], S, _N_ARM, _BR_WHOLE_NONE, "bracket helper returns None or the bracket, unpacked later"),
    ("C20", "neutral", [], S, _N_ARM, _BR_LOWER_NONE, "bracket helper signals through the lower end; conditional expression around brentq"),
    ("C20", "neutral", [], S, _N_ARM, _BR_BOOL, "sign test in a helper that returns a bool; simultaneous assignment with the counter"),
    ("C20", "neutral", [], S, _N_ARM, _BR_FACTORY, "residual made by a factory; bracket helper is handed the function"),
    ("C20", "neutral", [], S, _N_WHOLE, _EACH_HELPER, "element-wise application in a helper that is handed the function and the operands"),
    ("C20", "neutral", [], S, _N_WHOLE, _BR_PASSED_COMP, "bracket found in the comprehension and handed (starred) to the solver"),
    ("C20", "neutral", [], S, _N_WHOLE, _BR_PASSED_LOOP, "bracket found in an element loop and handed to the solver"),
    ("C20", "neutral", [], S, _GETR_BODY, _GETR_TERMS, "Newton terms (as a pair) and convergence test in local helpers"),
    ("C20", "neutral", [], S, _GETR_BODY, _GETR_HANDED_ON, "Newton loop in a module-level helper; the cap as a defaulted parameter"),
    # ---- broken variants in these spellings
    ("C20", "break", ["C20-R5"], S, _N_ARM, _BR_NONE.replace(_NO_LOWER_TEST, ""), "returned-bracket form without the test at the lower end (F16 again)"),
    ("C20", "break", ["C20-R5"], S, _N_ARM, _BR_NONE.replace("< 0 and loops < 30", "< 0 or loops < 30"), "returned-bracket form whose loop may stop on the counter alone"),
    ("C20", "break", ["C20-R4", "C20-R5"], S, _N_ARM, _BR_NONE.replace(">= 0:\n                return a, None", "<= 0:\n                return a, None"), "returned-bracket form with the early exit on the wrong sign"),
    ("C20", "break", ["C20-R4"], S, _N_ARM, _BR_NONE.replace("                return a\n", "                return a + 1\n"), "returned-bracket form: early exit returns another point than the one tested"),
    ("C20", "break", ["C20-R5"], S, _N_ARM, _BR_NONE.replace("            if b is None:\n", "            if b is not None:\n"), "returned-bracket form: None test inverted (brentq is handed None)"),
    ("C20", "break", ["C20-R5"], S, _N_ARM, _BR_FLAG.replace("                if not _func(hi, 1 - c, r - 1, 1 - p) < 0:\n                    break\n", ""), "flag form: the upper end is never tested"),
    ("C20", "break", ["C20-R5"], S, _N_ARM, _BR_FLAG.replace("            if met:\n", "            if not met:\n"), "flag form: flag inverted (brentq gets the point that already meets the confidence twice)"),
    ("C20", "break", ["C20-R5"], S, _N_ARM, _BR_WHOLE_NONE.replace("            if _func(r, *args) >= 0:\n                return None\n", ""), "None-or-bracket form without the test at the lower end"),
    ("C20", "break", ["C20-R5"], S, _N_ARM, _BR_BOOL.replace("while not _meets(b, c, r, p) and", "while _meets(b, c, r, p) and"), "bool-helper form: search loop runs on the wrong outcome"),
    ("C20", "break", ["C20-R5"], S, _N_ARM, _BR_FACTORY.replace("            if f(a) >= 0:\n                return a, None\n", ""), "factory form without the test at the lower end"),
    ("C20", "break", ["C20-R4"], S, _N_WHOLE, _EACH_HELPER.replace("out.flat = [f(*t) for t in bc]", "out.flat = [f(*t) + 1 for t in bc]"), "element helper adds an offset"),
    ("C20", "break", ["C20-R5"], S, _N_WHOLE, _BR_PASSED_COMP.replace(_NO_LOWER_TEST, ""), "handed-over bracket (comprehension) without the test at the lower end"),
    ("C20", "break", ["C20-R5"], S, _N_WHOLE, _BR_PASSED_COMP.replace("_solve(*_bracket(c, r, p), c, r, p)", "_solve(*_bracket(p, r, c), c, r, p)"), "bracket searched for other parameters than the root"),
    ("C20", "break", ["C20-R5"], S, _N_WHOLE, _BR_PASSED_LOOP.replace("_bracket(ci, ri, pi)", "_bracket(ci, ri + 1, pi)"), "element loop: bracket searched for another rank"),
    ("C20", "break", ["C20-R2"], S, _GETR_BODY, _GETR_TERMS.replace("np.any(abs", "np.all(abs"), "convergence helper stops when one element has converged"),
    ("C20", "break", ["C20-R2"], S, _GETR_BODY, _GETR_TERMS.replace("norm.cdf(lhi) - norm.cdf(llo) - prob,", "norm.cdf(lhi) + norm.cdf(llo) - prob,"), "terms helper: residual with the wrong sign on the lower limit"),
    ("C20", "break", ["C20-R2"], S, _GETR_BODY, _GETR_HANDED_ON.replace("_getr_iterate(r, sn, spi, prob, tol)", "_getr_iterate(r, sn, spi, tol, prob)"), "loop helper called with tol and prob swapped"),
    ("C20", "break", ["C20-R2"], S, _GETR_BODY, _GETR_HANDED_ON.replace("    return _getr_iterate(", "    return 1.001 * _getr_iterate("), "result of the loop helper scaled before it is returned"),
    ("C20", "break", ["C20-R4"], S, "            a = r\n", "            a = max(r, int((r - 1) / (1 - p)))\n", "bracket search started above the least admissible sample size: the early exit may return a non-minimal n"),
]


# ---- pass 6: values returned ahead of the Newton iteration (a fast path is justified only by a test that bounds the residual by tol)
_GUESS = "    r = norm.ppf(prob + (1 - prob) / 2) * (1 + 1 / (2 * n))\n"
_R_INF = "    r_inf = norm.ppf(prob + (1 - prob) / 2)\n"
_LAST_RETURN = "            RuntimeWarning,\n        )\n    return r\n"
RECIPES += [
    ("C20", "break", ["C20-R2"], S, _GUESS, _R_INF + "    if np.all(sn < 1e-3):\n        return r_inf * np.ones_like(sn)\n    r = r_inf * (1 + 1 / (2 * n))\n",
     "fast path for very large samples: the normal quantile returned without iteration (np.all over the broadcast argument)"),
    ("C20", "break", ["C20-R2"], S, _GUESS, "    if n > 1e6:\n        return norm.ppf((1 + prob) / 2)\n" + _GUESS, "scalar threshold on n skips the iteration"),
    ("C20", "break", ["C20-R2"], S, _GUESS, _R_INF + "    if np.any(n > 1e6):\n        return r_inf + 0 * sn\n    r = r_inf * (1 + 1 / (2 * n))\n", "np.any form of the large-sample shortcut"),
    ("C20", "break", ["C20-R2"], S, _GUESS, _R_INF + "    if (sn < 1e-3).all():\n        return r_inf + 0 * sn\n    r = r_inf * (1 + 1 / (2 * n))\n", "method form of the reduction in the shortcut's guard"),
    ("C20", "break", ["C20-R2"], S, _GUESS, _GUESS + "    if np.all(prob > 0.999999):\n        return r\n", "threshold on the coverage: the initial guess is returned as the answer"),
    ("C20", "break", ["C20-R2"], S, _GUESS, _GUESS + "    if 1 / (2 * n) < 1e-9:\n        return r\n", "initial guess returned when its first-order correction is small (not compared with tol)"),
    ("C20", "break", ["C20-R2"], S, _GUESS, _GUESS + "    return r\n", "initial guess returned, the loop is dead code"),
    ("C20", "break", ["C20-R2"], S, _LAST_RETURN, _LAST_RETURN.replace("return r\n", "return np.where(sn < 1e-3, norm.ppf((1 + prob) / 2), r)\n"),
     "element-wise large-sample replacement of the converged iterate"),
    ("C20", "break", ["C20-R2"], S, _GETR_BODY, _GETR_HANDED_ON.replace("    return _getr_iterate(", "    if np.all(sn < 1e-3):\n        return r\n    return _getr_iterate("),
     "loop-helper form: the caller returns the initial guess for large samples"),
    ("C20", "break", ["C20-R3"], S, "    r = _getr(n, p, tol)\n", "    r = norm.ppf((1 + p) / 2) if np.all(n > 1e6) else _getr(n, p, tol)\n", "large-sample shortcut in kdouble instead of the coverage root"),
    ("C20", "neutral", [], S, _GUESS, "    def guess():\n        r_inf = norm.ppf((1 + prob) / 2)\n        return r_inf + r_inf / (2 * n)\n\n    r = guess()\n",
     "initial guess computed in a nested helper (its return is not a return of _getr)"),
    ("C20", "neutral", [], S, _GUESS, "    if np.any(np.asarray(n) < 2):\n        raise ValueError('n must be at least 2')\n" + _GUESS, "argument check that raises, ahead of the loop (a reduction in a guard that returns nothing)"),
    ("C20", "neutral", [], S, _GUESS, "    eps = tol\n" + _R_INF + "    half = 1 / (2 * n)\n    r = r_inf + r_inf * half\n    tol = eps\n", "tolerance through a named local; initial guess split into terms"),
    ("C20", "neutral", [], S, _GUESS, _GUESS + "    if not np.all(np.isfinite(r)):\n        warnings.warn('non-finite initial guess', RuntimeWarning)\n", "warning (no return) under a reduction ahead of the loop"),
]
_LAST_BLOCK = ("    if loops == MAXLOOPS:  # pragma: no cover\n        warnings.warn(\n            \"maximum number of loops exceeded. Solution will likely be inaccurate.\",\n"
               "            RuntimeWarning,\n        )\n    return r\n")
RECIPES += [
    ("C20", "neutral", [], S, "    sn = 1 / np.sqrt(n)\n    spi = 1 / np.sqrt(2 * np.pi)\n", "    n = np.asarray(n, dtype=float)\n    sn = n ** -0.5\n    spi = (2 * np.pi) ** -0.5\n",
     "powers instead of 1/sqrt; n converted to a float array first"),
    ("C20", "neutral", [], S, _LAST_BLOCK, "    if loops < MAXLOOPS:\n        return r\n    warnings.warn(\n        \"maximum number of loops exceeded. Solution will likely be inaccurate.\",\n"
     "        RuntimeWarning,\n    )\n    return r\n", "two returns of the iterate after the loop, the warning on the fall-through"),
    ("C20", "neutral", [], S, _GUESS, "    if np.ndim(n) == 0:\n        corr = 1 + 0.5 / n\n    else:\n        corr = 1 + 0.5 / np.asarray(n)\n    r = norm.ppf(prob + (1 - prob) / 2) * corr\n",
     "an `if` ahead of the loop that assigns the same value in both arms and returns nothing"),
]
