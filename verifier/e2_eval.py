"""E2 front end: forward substitution of Python statements into Rat formulas.

The evaluator walks straight-line statement lists, keeps an environment
name -> value, erases array subscripts (X[pv] is X on the selected rows),
and records every subscript store.  Branches are selected structurally through a
`cond` oracle supplied by the rule (by the normalised text of the test).  Values
that cannot be lowered become `Unknown` and propagate; a rule that needs such a
value reports ANALYSIS-ERROR -- never "equal".
"""
from __future__ import annotations

import ast
from fractions import Fraction

from . import e2_formula as F
from .core import Unsupported
from .e1_srcmodel import dotted


class Unknown:
    def __init__(self, why):
        self.why = why

    def __repr__(self):
        return f"Unknown({self.why})"


def is_unknown(v):
    return isinstance(v, Unknown)


def need(v, what=""):
    if isinstance(v, Unknown):
        raise Unsupported(f"{what}: {v.why}")
    if not isinstance(v, F.Rat):
        raise Unsupported(f"{what}: not a formula ({type(v).__name__})")
    return v


IDENT_METHODS = {"astype", "copy", "ravel", "conj_none", "squeeze", "flatten"}
ZERO_CTORS = {"np.zeros", "np.zeros_like", "np.empty", "np.empty_like"}
ONE_CTORS = {"np.ones", "np.ones_like"}
UNARY_FUNCS = {
    "np.exp": F.exp, "math.exp": F.exp, "exp": F.exp,
    "np.sin": F.sin, "math.sin": F.sin, "sin": F.sin,
    "np.cos": F.cos, "math.cos": F.cos, "cos": F.cos,
    "np.sqrt": F.sqrt, "math.sqrt": F.sqrt, "sqrt": F.sqrt,
    "np.log": F.log, "math.log": F.log, "log": F.log,
    "np.cosh": F.cosh, "np.sinh": F.sinh, "math.cosh": F.cosh, "math.sinh": F.sinh,
}
CONSTS = {"np.pi": "pi", "math.pi": "pi", "pi": "pi"}


def const_from_node(node, src=None):
    """Exact rational value of a numeric literal, read from its decimal text."""
    v = node.value
    if isinstance(v, bool):
        return Fraction(int(v))
    if isinstance(v, int):
        return Fraction(v)
    if isinstance(v, float):
        txt = None
        if src is not None:
            try:
                txt = src.seg(node)
            except Exception:  # noqa
                txt = None
        if txt:
            try:
                return Fraction(txt.replace("_", ""))
            except (ValueError, ZeroDivisionError):
                pass
        return Fraction(repr(v))
    raise Unsupported(f"constant {v!r}")


class Evaluator:
    def __init__(self, env=None, cond=None, src=None, funcs=None, attr_erase=(), subscript=None,
                 store_accept=None, call=None, erase_subscripts=True, pinned=None, binop=None):
        self.env = dict(env or {})
        self.pinned = dict(pinned or {})
        self.env.update(self.pinned)
        self.cond = cond or (lambda test, ev: None)
        self.src = src
        self.funcs = dict(UNARY_FUNCS)
        if funcs:
            self.funcs.update(funcs)
        self.subscript = subscript
        self.call_hook = call
        self.binop_hook = binop
        self.store_accept = store_accept or (lambda name, idx, node: False)
        self.stores = []  # (name, idxtext, value, node)
        self.returns = []
        self.done = False   # a `return` on the path taken has been reached
        self.erase_subscripts = erase_subscripts

    def decide(self, test):
        """three-valued truth of a test: the rule's oracle answers for the atoms it knows; `not`, `and`, `or` are composed here, so an
        oracle written for `x == 1` also decides `not x == 1` and `x == 1 and y`"""
        r = self.cond(test, self)
        if r is not None:
            return r
        if isinstance(test, ast.UnaryOp) and isinstance(test.op, ast.Not):
            r = self.decide(test.operand)
            return None if r is None else (not r)
        if isinstance(test, ast.BoolOp):
            rs = [self.decide(v) for v in test.values]
            if isinstance(test.op, ast.And):
                if any(r is False for r in rs):
                    return False
                return True if all(r is True for r in rs) else None
            if any(r is True for r in rs):
                return True
            return False if all(r is False for r in rs) else None
        if isinstance(test, ast.Compare) and len(test.ops) == 1 and isinstance(test.ops[0], (ast.NotEq, ast.IsNot)):
            # x != y  is  not (x == y)
            pos = ast.Compare(left=test.left, ops=[ast.Eq() if isinstance(test.ops[0], ast.NotEq) else ast.Is()], comparators=test.comparators)
            r = self.cond(pos, self)
            return None if r is None else (not r)
        return None

    # ---------------------------------------------------------------- expr
    def ev(self, node):
        try:
            return self._ev(node)
        except Unsupported as e:
            return Unknown(str(e))

    def _ev(self, node):
        if isinstance(node, ast.Constant):
            if isinstance(node.value, (int, float)) and not isinstance(node.value, complex):
                return F.const(const_from_node(node, self.src))
            if isinstance(node.value, complex):
                return F.I * F.const(Fraction(repr(node.value.imag)))
            return Unknown(f"constant {node.value!r}")
        if isinstance(node, ast.Name):
            if node.id in self.env:
                return self.env[node.id]
            if node.id in CONSTS:
                return F.sym(CONSTS[node.id])
            return Unknown(f"unbound name {node.id}")
        if isinstance(node, ast.Attribute):
            d = dotted(node)
            if d is not None:
                if d in self.env:
                    return self.env[d]
                if d in CONSTS:
                    return F.sym(CONSTS[d])
            if node.attr in ("T", "real") :
                return self._ev(node.value)
            return Unknown(f"attribute {ast.unparse(node)}")
        if isinstance(node, ast.UnaryOp):
            v = self._ev(node.operand)
            if is_unknown(v):
                return v
            if isinstance(node.op, ast.USub):
                return -need(v)
            if isinstance(node.op, ast.UAdd):
                return v
            return Unknown(f"unary {ast.unparse(node)}")
        if isinstance(node, ast.BinOp):
            a = self._ev(node.left)
            b = self._ev(node.right)
            if is_unknown(a):
                return a
            if is_unknown(b):
                return b
            if isinstance(a, tuple) and isinstance(b, tuple) and isinstance(node.op, ast.MatMult):
                if len(a) != len(b):
                    return Unknown("dot of vectors of different length")
                tot = F.const(0)
                for x, y in zip(a, b):
                    if is_unknown(x) or is_unknown(y):
                        return x if is_unknown(x) else y
                    tot = tot + need(x) * need(y)
                return tot
            if isinstance(a, tuple) or isinstance(b, tuple):
                return _vec_binop(node.op, a, b)
            if self.binop_hook is not None:
                r = self.binop_hook(node, a, b, self)
                if r is not NotImplemented:
                    return r
            a, b = need(a), need(b)
            op = node.op
            if isinstance(op, ast.Add):
                return a + b
            if isinstance(op, ast.Sub):
                return a - b
            if isinstance(op, (ast.Mult,)):
                return a * b
            if isinstance(op, ast.Div):
                if b.is_zero():
                    return Unknown("division by zero")
                return a / b
            if isinstance(op, ast.Pow):
                if not b.is_const() and a.is_const() and a.const_value() > 0:
                    return _const_pow(a.const_value(), b)
                return a ** b
            if isinstance(op, ast.MatMult):
                return a * b
            return Unknown(f"operator {type(op).__name__}")
        if isinstance(node, ast.IfExp):
            c = self.decide(node.test)
            if c is True:
                return self._ev(node.body)
            if c is False:
                return self._ev(node.orelse)
            return Unknown(f"undecided conditional {ast.unparse(node.test)}")
        if isinstance(node, ast.Subscript):
            if self.subscript is not None:
                r = self.subscript(node, self)
                if r is not NotImplemented:
                    return r
            base = self._ev(node.value)
            if isinstance(base, tuple):
                r = _vec_index(base, node.slice, self)
                if r is not NotImplemented:
                    return r
            if isinstance(base, tuple) and isinstance(node.slice, ast.Constant) and isinstance(node.slice.value, int):
                try:
                    return base[node.slice.value]
                except IndexError:
                    return Unknown(f"index out of range {ast.unparse(node)}")
            if self.erase_subscripts:
                return base
            return Unknown(f"subscript {ast.unparse(node)}")
        if isinstance(node, ast.Call):
            return self._call(node)
        if isinstance(node, (ast.Tuple, ast.List)):
            return tuple(self.ev(e) for e in node.elts)
        return Unknown(f"node {type(node).__name__}")

    def _call(self, node):
        if self.call_hook is not None:
            r = self.call_hook(node, self)
            if r is not NotImplemented:
                return r
        d = dotted(node.func)
        if d in self.funcs and len(node.args) == 1:
            v = self._ev(node.args[0])
            if is_unknown(v):
                return v
            if isinstance(v, tuple):
                return tuple(x if is_unknown(x) else self.funcs[d](need(x)) for x in v)
            return self.funcs[d](need(v))
        if d == "np.diff" and len(node.args) == 1:
            v = self._ev(node.args[0])
            if isinstance(v, tuple):
                return tuple(_binop(ast.Sub(), need(v[i + 1]), need(v[i])) for i in range(len(v) - 1))
        if d in ("np.hstack", "np.concatenate") and len(node.args) >= 1 and isinstance(node.args[0], (ast.Tuple, ast.List)):
            out = []
            for e in node.args[0].elts:
                v = self._ev(e)
                if isinstance(v, tuple):
                    out.extend(v)
                else:
                    out.append(v)
            return tuple(out)
        if d in ("np.sum", "sum") and len(node.args) >= 1:
            v = self._ev(node.args[0])
            if isinstance(v, tuple):
                tot = F.const(0)
                for x in v:
                    if is_unknown(x):
                        return x
                    tot = tot + need(x)
                return tot
        if d in ("np.trapz", "np.trapezoid") and len(node.args) == 2:
            y, x = self._ev(node.args[0]), self._ev(node.args[1])
            if isinstance(y, tuple) and isinstance(x, tuple) and len(x) == len(y):
                tot = F.const(0)
                for i in range(len(x) - 1):
                    tot = tot + (need(x[i + 1]) - need(x[i])) * (need(y[i]) + need(y[i + 1])) / 2
                return tot
        if d in ZERO_CTORS:
            return F.const(0)
        if d in ONE_CTORS:
            return F.const(1)
        if d in ("abs", "np.abs", "np.absolute") and len(node.args) == 1:
            v = self._ev(node.args[0])
            if is_unknown(v):
                return v
            return F.fn("abs", need(v))
        if d in ("float", "np.asarray", "np.array", "np.atleast_1d", "np.atleast_2d", "np.real", "complex") and len(node.args) >= 1:
            return self._ev(node.args[0])
        if isinstance(node.func, ast.Attribute) and node.func.attr in IDENT_METHODS:
            return self._ev(node.func.value)
        return Unknown(f"call {ast.unparse(node.func)}")

    # ---------------------------------------------------------------- stmts
    def run(self, stmts):
        for st in stmts:
            if self.done:
                break
            self.stmt(st)

    def stmt(self, st):
        if self.done:
            return
        if isinstance(st, ast.Assign):
            v = self.ev(st.value)
            for t in st.targets:
                self._assign(t, v, st)
        elif isinstance(st, ast.AnnAssign) and st.value is not None:
            self._assign(st.target, self.ev(st.value), st)
        elif isinstance(st, ast.AugAssign):
            cur = self.ev(_load(st.target))
            v = self.ev(st.value)
            if is_unknown(cur) or is_unknown(v):
                nv = cur if is_unknown(cur) else v
            elif isinstance(cur, tuple) or isinstance(v, tuple):
                nv = _vec_binop(st.op, cur, v)
            elif self.binop_hook is not None and self.binop_hook(ast.BinOp(left=st.target, op=st.op, right=st.value), cur, v, self) is not NotImplemented:
                nv = self.binop_hook(ast.BinOp(left=st.target, op=st.op, right=st.value), cur, v, self)
            else:
                try:
                    nv = _binop(st.op, need(cur), need(v))
                except Unsupported as e:
                    nv = Unknown(str(e))
            self._assign(st.target, nv, st, aug=True)
        elif isinstance(st, ast.If):
            c = self.decide(st.test)
            if any(isinstance(x, ast.NamedExpr) for x in ast.walk(st.test)):
                self.ev(st.test)          # bind the walrus targets of the test
            if c is True:
                self.run(st.body)
            elif c is False:
                self.run(st.orelse)
            else:
                for n in _assigned_names(st):
                    if n not in self.pinned:
                        self.env[n] = Unknown(f"assigned under undecided test {ast.unparse(st.test)}")
        elif isinstance(st, (ast.For, ast.While, ast.With, ast.Try)):
            for n in _assigned_names(st):
                if n not in self.pinned:
                    self.env[n] = Unknown(f"assigned inside {type(st).__name__}")
        elif isinstance(st, ast.Return):
            self.returns.append((self.ev(st.value) if st.value is not None else None, st))
            self.done = True
        # Expr, Raise, Pass, Assert, Import...: no effect on formulas

    def _assign(self, target, v, st, aug=False):
        if isinstance(target, ast.Name):
            if target.id not in self.pinned:
                self.env[target.id] = v
        elif isinstance(target, ast.Attribute):
            d = dotted(target)
            if d and d not in self.pinned:
                self.env[d] = v
        elif isinstance(target, (ast.Tuple, ast.List)):
            if isinstance(v, tuple) and len(v) == len(target.elts):
                for t, x in zip(target.elts, v):
                    self._assign(t, x, st)
            else:
                for t in target.elts:
                    self._assign(t, Unknown("tuple unpacking of a non-tuple"), st)
        elif isinstance(target, ast.Subscript):
            base = dotted(target.value)
            idx = ast.unparse(target.slice)
            cur = self.env.get(base) if base else None
            if isinstance(cur, tuple) and not aug:
                pos = _vec_index(tuple(range(len(cur))), target.slice)
                if isinstance(pos, int):
                    lst = list(cur)
                    lst[pos] = v
                    self.env[base] = tuple(lst)
                    self.stores.append((base, idx, v, st))
                    return
                if isinstance(pos, tuple) and isinstance(v, tuple) and len(pos) == len(v):
                    lst = list(cur)
                    for p_, x_ in zip(pos, v):
                        lst[p_] = x_
                    self.env[base] = tuple(lst)
                    self.stores.append((base, idx, v, st))
                    return
            if isinstance(cur, tuple) and aug:
                pos = _vec_index(tuple(range(len(cur))), target.slice)
                if isinstance(pos, int):
                    lst = list(cur)
                    lst[pos] = v
                    self.env[base] = tuple(lst)
                    self.stores.append((base, idx, v, st))
                    return
            self.stores.append((base, idx, v, st))
            if base is not None and base not in self.pinned and self.store_accept(base, idx, st):
                self.env[base] = v


def _vec_index(vec, sl, ev=None):
    """index / slice a symbolic 1-D vector (a tuple); a leading full slice (row axis of a 2-D array whose rows are
    treated alike) is ignored.  Bounds must be integer constants - literally, or (with `ev`) names the evaluator holds constants for."""
    if isinstance(sl, ast.Tuple):
        elts = [e for e in sl.elts]
        if elts and isinstance(elts[0], ast.Slice) and elts[0].lower is None and elts[0].upper is None and elts[0].step is None:
            elts = elts[1:]
        if len(elts) != 1:
            return NotImplemented
        sl = elts[0]

    def cint(n):
        if n is None:
            return None
        try:
            v = ast.literal_eval(n)
        except Exception:  # noqa
            v = None
            if ev is not None:
                r = ev.ev(n)
                if not is_unknown(r) and not isinstance(r, tuple) and r.is_const() and r.const_value().denominator == 1:
                    v = int(r.const_value())
            if v is None:
                raise Unsupported("non-constant slice bound")
        if not isinstance(v, int):
            raise Unsupported("non-integer slice bound")
        return v

    try:
        if isinstance(sl, ast.Slice):
            return vec[slice(cint(sl.lower), cint(sl.upper), cint(sl.step))]
        i = cint(sl)
        return vec[i]
    except (Unsupported, IndexError, ValueError, SyntaxError):
        return NotImplemented


def _const_pow(base, expo):
    """base ** (c * s) for a positive constant base and an exponent c*s with one
    symbol s and integer c  ->  sym('base^s') ** c."""
    if not expo.d.is_const() or len(expo.n.t) != 1:
        raise Unsupported(f"power with exponent {expo}")
    (m, c), = expo.n.t.items()
    c = c / expo.d.const_value()
    if len(m) != 1 or m[0][1] != 1 or c.denominator != 1:
        raise Unsupported(f"power with exponent {expo}")
    d = F.atom_desc(m[0][0])
    if d[0] != "s":
        raise Unsupported(f"power with exponent {expo}")
    return F.sym(f"{base}^{d[1]}") ** int(c)


def _vec_binop(op, a, b):
    if isinstance(a, tuple) and isinstance(b, tuple):
        if len(a) != len(b):
            return Unknown("vector length mismatch")
        pairs = list(zip(a, b))
    elif isinstance(a, tuple):
        pairs = [(x, b) for x in a]
    else:
        pairs = [(a, y) for y in b]
    out = []
    if isinstance(op, ast.MatMult):
        op = ast.Mult()
    for x, y in pairs:
        if is_unknown(x):
            out.append(x)
        elif is_unknown(y):
            out.append(y)
        elif isinstance(x, tuple) or isinstance(y, tuple):
            out.append(_vec_binop(op, x, y))
        else:
            try:
                if isinstance(op, ast.Pow):
                    out.append(need(x) ** need(y))
                else:
                    out.append(_binop(op, need(x), need(y)))
            except Unsupported as e:
                out.append(Unknown(str(e)))
    return tuple(out)


def _load(t):
    import copy

    n = copy.copy(t)
    n.ctx = ast.Load()
    return n


def _binop(op, a, b):
    if isinstance(op, ast.Add):
        return a + b
    if isinstance(op, ast.Sub):
        return a - b
    if isinstance(op, ast.Mult):
        return a * b
    if isinstance(op, ast.Div):
        return a / b
    raise Unsupported(f"augmented operator {type(op).__name__}")


def _assigned_names(node):
    out = set()
    for n in ast.walk(node):
        if isinstance(n, (ast.Assign, ast.AugAssign, ast.AnnAssign)):
            ts = n.targets if isinstance(n, ast.Assign) else [n.target]
            for t in ts:
                for x in ast.walk(t):
                    if isinstance(x, ast.Name) and isinstance(x.ctx, ast.Store):
                        out.add(x.id)
        elif isinstance(n, (ast.For,)):
            for x in ast.walk(n.target):
                if isinstance(x, ast.Name):
                    out.add(x.id)
    return out


def text_cond(table):
    """Oracle from {normalised test text: bool}."""

    def cond(test, ev):
        return table.get(ast.unparse(test))

    return cond


# ---------------------------------------------------------------------------
class DictValue:
    """a literal dict with constant keys (lookup table): key -> value"""

    def __init__(self, d):
        self.d = d

    def __repr__(self):
        return "DictValue(%s)" % ", ".join(f"{k!r}: {v!r}" for k, v in self.d.items())


class AutoEvaluator(Evaluator):
    """Evaluator in which everything that is not computed inside the function is a symbol of its own:

      * an unbound name or attribute chain is the symbol of that name;
      * a local that is filled through subscript stores (`accel[bset] = a`) is a *buffer*: it stays the symbol of its name and its stores
        are recorded as (name, index value, stored value, node) in `self.cells`;
      * `X[i]` is the atom idx(value of X, value of i) - the index is *evaluated*, so `k[bb]` with `bb = np.ix_(bset, bset)` and
        `k[np.ix_(bset, bset)]` are the same atom;
      * a call the evaluator does not model is the atom call(name, values of the arguments).

    Two spellings of a statement that differ by temporaries, by renamed locals or by commuted sums/products therefore evaluate to the same
    formula; the expected side of a rule is written as a Python expression over the function's parameters and evaluated the same way."""

    def __init__(self, fn=None, **kw):
        kw.setdefault("erase_subscripts", False)
        super().__init__(**kw)
        self._folding = set()
        self.cells = []
        self.calls = []          # (dotted callee or '.method', [positional values], {keyword: value}, node) in evaluation order
        self.seq = 0             # evaluation clock: cell_seq[i] / call_seq[i] order stores and calls against each other
        self.cell_seq = []
        self.call_seq = []
        self.buffers = set()
        if fn is not None:
            for n in ast.walk(fn):
                tg = []
                if isinstance(n, ast.Assign):
                    tg = n.targets
                elif isinstance(n, ast.AugAssign):
                    tg = [n.target]
                for t in tg:
                    if isinstance(t, ast.Subscript) and isinstance(t.value, ast.Name):
                        self.buffers.add(t.value.id)

    erase_T = False          # matrices as commuting symbols: `.T` is the matrix itself

    module_consts = None     # {name: ast value node} of module-level names bound once to a literal (sem.module_consts): folded on use
    _folding = frozenset()
    forward_stores = False   # a load `X[i]` of a buffer returns the value last stored under the same (evaluated) index
    loop_unroll = 0          # `for k in range(a, b)` with constant bounds and at most this many iterations is executed iteration by iteration
    loop_once = False        # `for x in it:` - evaluate the body once for a generic iteration (x a symbol): per-iteration stores and calls are recorded

    def stmt(self, st):
        if isinstance(st, ast.Expr) and isinstance(st.value, ast.Call) and not self.done:
            self.ev(st.value)          # a call statement: recorded in self.calls (and followed when it is in the inline table)
            return
        if isinstance(st, ast.For) and self.loop_unroll and not self.done and isinstance(st.target, ast.Name) \
                and isinstance(st.iter, ast.Call) and dotted(st.iter.func) == "range" and 1 <= len(st.iter.args) <= 2:
            bounds = [self.ev(a) for a in st.iter.args]
            if all((not is_unknown(b)) and (not isinstance(b, tuple)) and b.is_const() and b.const_value().denominator == 1 for b in bounds):
                ks = [int(b.const_value()) for b in bounds]
                lo, hi = (0, ks[0]) if len(ks) == 1 else ks
                if hi - lo <= self.loop_unroll:
                    for k in range(lo, hi):
                        self.env[st.target.id] = F.const(k)
                        self.run(st.body)
                        if self.done:
                            break
                    return
        if isinstance(st, ast.While) and self.loop_unroll and not self.done and isinstance(st.test, ast.Compare) and len(st.test.ops) == 1 \
                and isinstance(st.test.ops[0], (ast.Lt, ast.LtE)) and isinstance(st.test.left, ast.Name) and not st.orelse:
            # a counted loop `while i < n:` with `i += 1` as its only update of i and constant bounds
            ctr = st.test.left.id
            incs = [x for x in ast.walk(st) if isinstance(x, ast.AugAssign) and isinstance(x.target, ast.Name) and x.target.id == ctr]
            other = [x for x in ast.walk(st) if isinstance(x, (ast.Assign, ast.NamedExpr)) and any(isinstance(t, ast.Name) and t.id == ctr for t in
                                                                                                    (x.targets if isinstance(x, ast.Assign) else [x.target]))]
            cur = self.env.get(ctr)
            hi = self.ev(st.test.comparators[0])
            if len(incs) == 1 and not other and incs[0] in st.body and isinstance(incs[0].op, ast.Add) and isinstance(incs[0].value, ast.Constant) \
                    and incs[0].value.value == 1 and cur is not None and not is_unknown(cur) and not isinstance(cur, tuple) and cur.is_const() \
                    and not is_unknown(hi) and not isinstance(hi, tuple) and hi.is_const():
                lo_, hi_ = int(cur.const_value()), int(hi.const_value()) + (1 if isinstance(st.test.ops[0], ast.LtE) else 0)
                if 0 <= hi_ - lo_ <= self.loop_unroll:
                    for _k in range(lo_, hi_):
                        self.run(st.body)
                        if self.done:
                            break
                    return
        if isinstance(st, ast.For) and self.loop_once and not self.done:
            self.ev(st.iter)

            def bind(t):
                if isinstance(t, ast.Name):
                    if t.id not in self.pinned:
                        self.env[t.id] = F.sym(t.id)
                elif isinstance(t, (ast.Tuple, ast.List)):
                    for e in t.elts:
                        bind(e)
            bind(st.target)
            self.run(st.body)
            return
        return super().stmt(st)

    def _index_value(self, sl):
        if isinstance(sl, ast.Tuple):
            return F.fn("tuple", *[self._index_value(e) for e in sl.elts])
        if isinstance(sl, ast.Slice):
            parts = []
            for p in (sl.lower, sl.upper, sl.step):
                if p is None:
                    parts.append(F.sym("None"))
                else:
                    v = self._ev(p)
                    if is_unknown(v):
                        raise Unsupported(v.why)
                    parts.append(need(v))
            return F.fn("slice", *parts)
        v = self._ev(sl)
        if is_unknown(v):
            raise Unsupported(v.why)
        if isinstance(v, tuple):
            return F.fn("tuple", *[need(x) for x in v])
        return need(v)

    def _ev(self, node):
        if isinstance(node, ast.Name):
            if node.id in self.buffers:
                return F.sym(node.id)
            if node.id in self.env:
                return self.env[node.id]
            if self.module_consts and node.id in self.module_consts and node.id not in self._folding:
                # a module-level name bound once to a literal (moved-out constant / lookup table): its value
                self._folding.add(node.id)
                try:
                    return self._ev(self.module_consts[node.id])
                finally:
                    self._folding.discard(node.id)
            if node.id in CONSTS:
                return F.sym(CONSTS[node.id])
            if node.id in ("None", "True", "False"):
                return F.sym(node.id)
            return F.sym(node.id)
        if isinstance(node, ast.Constant) and node.value is None:
            return F.sym("None")
        if isinstance(node, ast.Constant) and node.value is Ellipsis:
            return F.sym("Ellipsis")
        if isinstance(node, ast.Constant) and isinstance(node.value, str):
            return F.sym(repr(node.value))
        if isinstance(node, ast.JoinedStr):
            # an f-string: an opaque text built from its literal pieces and the values of its fields
            lit = "".join(v.value for v in node.values if isinstance(v, ast.Constant) and isinstance(v.value, str))
            vals = []
            for v in node.values:
                if isinstance(v, ast.FormattedValue):
                    x = self._ev(v.value)
                    if is_unknown(x) or isinstance(x, tuple):
                        return x if is_unknown(x) else Unknown("tuple in an f-string")
                    vals.append(need(x))
            return F.fn("fstr", repr(lit), *vals)
        if isinstance(node, ast.Compare) and len(node.ops) == 1:
            a, b = self._ev(node.left), self._ev(node.comparators[0])
            if is_unknown(a) or is_unknown(b) or isinstance(a, tuple) or isinstance(b, tuple):
                return a if is_unknown(a) else (b if is_unknown(b) else Unknown("comparison of tuples"))
            return F.fn("cmp:" + type(node.ops[0]).__name__, need(a), need(b))
        if isinstance(node, ast.BoolOp):
            vs = [self._ev(v) for v in node.values]
            if any(is_unknown(v) or isinstance(v, tuple) for v in vs):
                return next(v for v in vs if is_unknown(v) or isinstance(v, tuple)) if any(is_unknown(v) for v in vs) else Unknown("bool of tuples")
            return F.fn("bool:" + type(node.op).__name__, *[need(v) for v in vs])
        if isinstance(node, ast.UnaryOp) and isinstance(node.op, (ast.Not, ast.Invert)):
            v = self._ev(node.operand)
            if is_unknown(v) or isinstance(v, tuple):
                return v if is_unknown(v) else Unknown("not of a tuple")
            return F.fn("not" if isinstance(node.op, ast.Not) else "invert", need(v))
        if isinstance(node, ast.NamedExpr) and isinstance(node.target, ast.Name):
            v = self._ev(node.value)
            self._assign(node.target, v, node)
            return self._ev(node.target) if node.target.id in self.buffers else v
        if isinstance(node, ast.Dict) and node.keys and all(isinstance(k, ast.Constant) for k in node.keys):
            return DictValue({k.value: self.ev(v) for k, v in zip(node.keys, node.values)})
        if isinstance(node, ast.Subscript) and isinstance(node.slice, ast.Constant) and not isinstance(node.slice.value, (int, float, complex)):
            base = self._ev(node.value) if not (isinstance(node.value, ast.Name) and node.value.id in self.buffers) else None
            if isinstance(base, DictValue):
                if node.slice.value in base.d:
                    return base.d[node.slice.value]
                return Unknown(f"key {node.slice.value!r} not in the literal table")
        if isinstance(node, ast.Attribute) and self.erase_T and node.attr == "T":
            return self._ev(node.value)
        if isinstance(node, ast.Attribute):
            d = dotted(node)
            if d is not None:
                if d in self.env:
                    return self.env[d]
                if d in CONSTS:
                    return F.sym(CONSTS[d])
                root = d.split(".")[0]
                if root not in self.env or root in self.buffers:
                    return F.sym(d)
            base = self._ev(node.value)
            if is_unknown(base):
                return base
            if isinstance(base, tuple):
                return Unknown(f"attribute of a tuple {ast.unparse(node)}")
            return F.fn("attr:" + node.attr, need(base))
        if isinstance(node, ast.Subscript):
            if self.subscript is not None:
                r = self.subscript(node, self)
                if r is not NotImplemented:
                    return r
            base = self._ev(node.value)
            if is_unknown(base):
                return base
            if isinstance(base, tuple):
                return super()._ev(node)
            try:
                ix = self._index_value(node.slice)
            except Unsupported as e:
                return Unknown(str(e))
            if self.forward_stores and isinstance(node.value, ast.Name) and node.value.id in self.buffers:
                # store-to-load forwarding: the value last stored under exactly this index
                for nm, jx, val, _st in reversed(self.cells):
                    if nm == node.value.id and not is_unknown(jx) and need(jx).equals(need(ix)):
                        return val
            return F.fn("idx", need(base), ix)
        return super()._ev(node)

    # ---- optional interprocedural step: a call to a function whose definition the rule supplied (`inline` = {dotted name: FunctionDef}) is
    # evaluated on the argument values, so that extracting a block into a private helper, or inlining one, does not change the value.
    inline = None
    inline_depth = 0

    def _inline_call(self, node):
        name = dotted(node.func)
        fn = self.inline.get(name) if self.inline else None
        if fn is None or self.inline_depth >= 4:
            return NotImplemented
        a = fn.args
        params = [x.arg for x in a.posonlyargs + a.args]
        if params and params[0] in ("self", "cls") and name and "." in name:
            params = params[1:]
        if a.vararg or a.kwarg or any(isinstance(x, ast.Starred) for x in node.args) or any(k.arg is None for k in node.keywords):
            return NotImplemented
        if len(node.args) > len(params):
            return NotImplemented
        env = {}
        for p_, x in zip(params, node.args):
            env[p_] = self.ev(x)
        kwonly = [x.arg for x in a.kwonlyargs]
        for k in node.keywords:
            if k.arg not in params and k.arg not in kwonly:
                return NotImplemented
            env[k.arg] = self.ev(k.value)
        # defaults
        dflt = dict(zip(params[::-1], (a.defaults or [])[::-1]))
        for p_ in params:
            if p_ not in env:
                if p_ in dflt:
                    env[p_] = self.ev(dflt[p_])
                else:
                    return NotImplemented
        for p_, d in zip(kwonly, a.kw_defaults):
            if p_ not in env and d is not None:
                env[p_] = self.ev(d)
        # names of the caller that are not rebound by the callee stay visible only as symbols (a callee reads its own scope)
        try:
            sub = type(self)(fn, env=env, cond=self.cond, src=self.src, funcs=None, subscript=self.subscript, call=self.call_hook,
                             binop=self.binop_hook)      # a subclass keeps its own extensions inside the callee
        except TypeError:
            sub = AutoEvaluator(fn, env=env, cond=self.cond, src=self.src, funcs=None, subscript=self.subscript, call=self.call_hook,
                                binop=self.binop_hook)
        sub.module_consts = self.module_consts
        sub.inline = self.inline
        sub.inline_depth = self.inline_depth + 1
        sub.loop_unroll, sub.loop_once, sub.forward_stores, sub.erase_T = self.loop_unroll, self.loop_once, self.forward_stores, self.erase_T
        sub.seq = self.seq
        sub.run(fn.body)
        # the callee's calls and stores are part of the caller's trace
        self.calls.extend(sub.calls)
        self.call_seq.extend(sub.call_seq)
        self.cells.extend(sub.cells)
        self.cell_seq.extend(sub.cell_seq)
        self.seq = sub.seq
        if not sub.returns:
            return F.sym("None")          # a procedure: its stores and calls are in the trace, its value is None
        if len(sub.returns) != 1:
            return Unknown(f"several returns in inlined {name}")
        v = sub.returns[0][0]
        if v is None:
            return F.sym("None")
        # a returned buffer of the callee: its creating expression stands for it when nothing was stored into it
        if not is_unknown(v) and not isinstance(v, tuple):
            for b in sub.buffers:
                if need(v).equals(F.sym(b)) and not any(c[0] == b for c in sub.cells) and f"<init:{b}>" in sub.env:
                    v = sub.env[f"<init:{b}>"]
        return v

    def _call(self, node):
        if self.inline:
            r = self._inline_call(node)
            if r is not NotImplemented:
                return r
        if dotted(node.func) == "getattr" and len(node.args) in (2, 3) and isinstance(node.args[1], ast.Constant) and isinstance(node.args[1].value, str):
            return self._ev(ast.copy_location(ast.Attribute(value=node.args[0], attr=node.args[1].value, ctx=ast.Load()), node))
        if dotted(node.func) == "setattr" and len(node.args) == 3 and isinstance(node.args[1], ast.Constant) and isinstance(node.args[1].value, str):
            v = self.ev(node.args[2])
            self._assign(ast.copy_location(ast.Attribute(value=node.args[0], attr=node.args[1].value, ctx=ast.Store()), node), v, node)
            return F.sym("None")
        if self.erase_T and dotted(node.func) in ("np.transpose", "numpy.transpose") and len(node.args) == 1 and not node.keywords:
            return self._ev(node.args[0])
        if self.erase_T and isinstance(node.func, ast.Attribute) and node.func.attr == "transpose" and not node.args and not node.keywords:
            return self._ev(node.func.value)
        self._record_call(node)
        r = super()._call(node)
        if not is_unknown(r):
            return r
        name = dotted(node.func)
        args = []
        if name is not None and isinstance(node.func, ast.Attribute) and isinstance(node.func.value, ast.Name) \
                and node.func.value.id in self.env and node.func.value.id not in self.buffers \
                and not is_unknown(self.env[node.func.value.id]) and not isinstance(self.env[node.func.value.id], tuple):
            # a method of a local whose value is known: the receiver is that value, not the spelling of the local's name
            name = None
        if name is None:
            if isinstance(node.func, ast.Attribute):
                b = self._ev(node.func.value)
                if is_unknown(b) or isinstance(b, tuple):
                    return r
                args.append(need(b))
                name = "." + node.func.attr
            else:
                return r
        for a in node.args:
            v = self._ev(a)
            if is_unknown(v):
                return v
            if isinstance(v, tuple):
                if any(is_unknown(x) or isinstance(x, tuple) for x in v):
                    return Unknown("nested tuple argument")
                v = F.fn("tuple", *[need(x) for x in v])
            args.append(need(v))
        for k in node.keywords:
            if k.arg is None:
                return Unknown("**kwargs")
            v = self._ev(k.value)
            if is_unknown(v) or isinstance(v, tuple):
                return Unknown(f"keyword {k.arg}")
            args.append(F.fn("kw:" + k.arg, need(v)))
        return F.fn("call:" + name, *args)

    def _record_call(self, node):
        name = dotted(node.func)
        if name is None and isinstance(node.func, ast.Attribute):
            name = "." + node.func.attr
        if name is None:
            return
        try:
            pos = [self.ev(a) for a in node.args if not isinstance(a, ast.Starred)]
            kws = {k.arg: self.ev(k.value) for k in node.keywords if k.arg is not None}
        except Unsupported:
            return
        self.seq += 1
        self.call_seq.append(self.seq)
        self.calls.append((name, pos, kws, node))

    def _assign(self, target, v, st, aug=False):
        if isinstance(target, (ast.Tuple, ast.List)) and not isinstance(v, tuple) and not is_unknown(v) and v is not None \
                and not any(isinstance(e, ast.Starred) for e in target.elts):
            # unpacking an opaque value (the result of an unmodelled call): element k is idx(v, k)
            for k, t in enumerate(target.elts):
                self._assign(t, F.fn("idx", need(v), F.const(k)), st)
            return
        if isinstance(target, ast.Subscript) and isinstance(target.value, ast.Name) and target.value.id in self.buffers:
            try:
                ix = self._index_value(target.slice)
            except Unsupported as e:
                ix = Unknown(str(e))
            self.seq += 1
            self.cell_seq.append(self.seq)
            self.cells.append((target.value.id, ix, v, st))
            self.stores.append((target.value.id, ast.unparse(target.slice), v, st))
            return
        if isinstance(target, ast.Name) and target.id in self.buffers:
            # (re)binding of a buffer name: remember what it was created from, keep the symbol
            self.env["<init:%s>" % target.id] = v
            return
        return super()._assign(target, v, st, aug)

    def expr(self, text):
        """value of a Python expression written over the function's roots (used for the expected side of a rule)"""
        return self.ev(ast.parse(text, mode="eval").body)
