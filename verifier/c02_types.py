"""C02 helper -- partition-space typing of *values* (the E3 discipline applied to the trace of c02_sem.PathEval instead of to syntax).

The attribute tables are those of verifier/ode_spaces.py (`mode_U`, `mode_E`: what space the rows of self.m / self.b / ... live in and what
every partition vector selects out of what).  A value is a formula over atoms; its *row space* is read off its atoms:

    symbol              its table entry (array or index vector), a buffer: the space its stored values live in
    idx(X, I)           X must live in dom(I); the result lives in cod(I); index vectors compose (nonrf[_el] selects EL out of N)
    idx(X, mask / counter / slice)   a selection along the frequency axis: the rows of X
    solve(A, x), lu_solve(A, x)      rows of A and of x must be the same space
    sums, products, quotients        every operand with a known row space must have the same one (the products on these paths are
                                     element-wise or square-matrix-times-vector in one space)

Only *proved* mismatches are reported (both sides resolve to distinct known spaces).  Because the typing runs on the evaluated path, it
does not matter in which function, under which spelling of a test, or through which temporaries an operation is written."""
from __future__ import annotations

from . import e2_formula as F
from .e2_eval import is_unknown
from .e3_spaces import Arr, Idx
from .sem import unfn
from .c02_sem import sym_name


class ValueTyper:
    def __init__(self, table, trace, label):
        self.table = dict(table)
        self.trace = trace
        self.label = label
        self.memo = {}
        self.checks = []     # (kind, ok, text, detail, where-node)  in discovery order
        self.seen = set()
        self.node = None
        self._ident_busy = set()

    # ---- recording
    def _chk(self, kind, ok, text, detail=None):
        k = (kind, text)
        if k in self.seen:
            return
        self.seen.add(k)
        self.checks.append((kind, ok, text, detail, self.node))

    # ---- types
    def rows(self, t):
        return t.s[0] if isinstance(t, Arr) else None

    def ty(self, v):
        """type of a value: Arr (row space), Idx, or None"""
        if v is None or is_unknown(v):
            return None
        if isinstance(v, tuple):
            for x in v:
                self.ty(x)
            return None
        if not isinstance(v, F.Rat):
            return None
        key = (v.n.key(), v.d.key())
        if key in self.memo:
            return self.memo[key]
        self.memo[key] = None
        t = self._ty(v)
        self.memo[key] = t
        return t

    def _ty(self, v):
        s = sym_name(v)
        if s is not None:
            return self._sym(s)
        u = unfn(v)
        if u is not None:
            return self._app(v, u[0], u[1])
        # a compound: all operands with a known row space must agree
        spaces = []
        idxs = []
        for aid in sorted(v.n.atoms() | v.d.atoms()):
            a = F.Rat(F.Poly.atom(aid))
            t = self.ty(a)
            if isinstance(t, Arr) and t.s[0] is not None:
                spaces.append((t.s[0], a))
            elif isinstance(t, Idx):
                idxs.append(t)
        if len(spaces) >= 2:
            kinds = sorted({sp for sp, _ in spaces})
            ok = len(kinds) == 1
            self._chk("elementwise-space", ok, _short(v),
                      None if ok else "operands of one element-wise expression live in different spaces: " + "; ".join(f"`{_short(a, 60)}` in {sp}" for sp, a in spaces))
            if not ok:
                return None
        if spaces:
            return Arr(spaces[0][0], None)
        if len(idxs) == 1 and not spaces:
            return None
        return None

    def _sym(self, s):
        if s in self.table:
            return self.table[s]
        if s in self.trace.idents:
            return self._ident(s)
        return None

    def _ident(self, ident):
        """a buffer without a table entry: the common row space of what is stored into it along the frequency axis"""
        if ident in self._ident_busy:
            return None
        self._ident_busy.add(ident)
        try:
            sp = set()
            for c in self.trace.cells_of(ident):
                ti = self.ty(c[1]) if c[1] is not None and not is_unknown(c[1]) else None
                if isinstance(ti, Idx):
                    return None      # filled by partitions: no single row space
                tv = self.ty(c[2])
                if isinstance(tv, Arr) and tv.s[0] is not None:
                    sp.add(tv.s[0])
            if len(sp) == 1:
                return Arr(sp.pop(), None)
            return None
        finally:
            self._ident_busy.discard(ident)

    def _app(self, v, name, args):
        vals = [a for a in args if not isinstance(a, str)]
        if name == "idx" and len(vals) == 2:
            tb = self.ty(vals[0])
            ix = vals[1]
            ti = self.ty(ix)
            ui = unfn(ix)
            if ti is None and ui is not None and ui[0] == "tuple":
                # (rows, columns): the row selector decides the row space
                parts = [a for a in ui[1] if not isinstance(a, str)]
                ts = [self.ty(p_) for p_ in parts]
                arrays = [p_ for p_, t_ in zip(parts, ts) if isinstance(t_, Idx) or _is_mask(p_)]
                if len(arrays) >= 2:
                    # two array-valued selectors in one subscript are paired element-wise by numpy, they do not select the rows x columns grid
                    self._chk("paired-index", False, _short(v), "a partition vector is an index array when rb/el/rf modes are interleaved; combined with a second "
                              "array-valued selector numpy pairs the two element-wise (shape-mismatch error or the wrong elements): use np.ix_ or index in two steps")
                if parts and isinstance(ts[0], Idx):
                    ti = ts[0]
                elif ui is not None and all(t is None for t in ts):
                    ti = None
            if ui is not None and ui[0] == "call:np.ix_":
                parts = [a for a in ui[1] if not isinstance(a, str)]
                ts = [self.ty(p_) for p_ in parts]
                if parts and isinstance(ts[0], Idx):
                    ti = ts[0]
            if isinstance(ti, Idx):
                if isinstance(tb, Arr):
                    if tb.s[0] is not None and ti.dom is not None:
                        ok = tb.s[0] == ti.dom
                        self._chk("index-space", ok, _short(v), None if ok else
                                  f"`{_short(vals[0], 80)}` has one row per {tb.s[0]} equation but `{_short(ix, 60)}` holds positions relative to space {ti.dom}")
                    return Arr(ti.cod, tb.s[1])
                if isinstance(tb, Idx):
                    if tb.cod is not None and ti.dom is not None:
                        ok = tb.cod == ti.dom
                        self._chk("index-compose", ok, _short(v), None if ok else
                                  f"`{_short(vals[0], 80)}` enumerates space {tb.cod} but is indexed with positions relative to {ti.dom}")
                    return Idx(tb.dom, ti.cod)
                return Arr(ti.cod, None)
            # a selection that is not a partition: frequency axis (mask, counter, slice) - the rows are those of the base
            if isinstance(tb, (Arr, Idx)) and _column_selector(ix, self.trace):
                return tb
            return None
        if name in ("solve", "lu_solve") and len(vals) == 2:
            ta, tx = self.ty(vals[0]), self.ty(vals[1])
            ra, rx = self.rows(ta), self.rows(tx)
            if ra is not None and rx is not None:
                ok = ra == rx
                self._chk("solve-space", ok, _short(v), None if ok else f"matrix in space {ra}, right-hand side rows in space {rx}")
            return Arr(rx if rx is not None else ra, None)
        if name in ("abs", "attr:real", "attr:imag", "call:np.conj", "call:abs") and len(vals) == 1:
            return self.ty(vals[0])
        for a in vals:
            self.ty(a)
        return None

    # ---- cells
    def check_cell(self, ident, ix, val, node):
        self.node = node
        tt = self.ty(F.fn("idx", F.sym(ident), ix)) if ix is not None and not is_unknown(ix) else self._sym(ident)
        tv = self.ty(val)
        rt, rv = self.rows(tt), self.rows(tv)
        if rt is not None and rv is not None:
            ok = rt == rv
            self._chk("store-space", ok, f"{ident}[{_short(ix, 50)}] = {_short(val, 70)}", None if ok else
                      f"the target rows select space {rt}, the stored value lives in space {rv}")
        return tt, tv


def _is_mask(v):
    u = unfn(v)
    return u is not None and (u[0].startswith("cmp:") or u[0] in ("invert", "mask:BitAnd", "mask:BitOr"))


def _column_selector(ix, trace):
    s = sym_name(ix)
    if s is not None:
        return s in trace.loop_syms
    u = unfn(ix)
    if u is None:
        return ix.is_const() if isinstance(ix, F.Rat) else False
    if u[0].startswith("ax") and (u[0][2:].isdigit() or u[0] == "axL"):
        return True           # a selector on a later axis (axL: the last axis - of a vector, its only one): the rows are untouched
    if u[0] == "tuple" and u[1] and not isinstance(u[1][0], str) and sym_name(u[1][0]) == ":":
        return True
    return u[0].startswith("cmp:") or u[0] in ("slice", "invert", "not", "mask:BitAnd", "mask:BitOr")


def _short(v, n=110):
    s = repr(v)
    return s if len(s) <= n else s[:n] + "..."
