"""C17 helper -- a small abstract interpreter for the Python/numpy subset the Newmark and damping-as-force code is written in.

Nothing of /repo is imported or executed: the *source* (parsed as written; see _raw_tree) is interpreted over

  * concrete shapes and loop bounds (a 2-dof system, a handful of time steps: one instance of the property's quantifier domain), and
  * symbolic array *entries* (verifier/e2_formula.py `Rat`: exact rational functions of the symbols the rule chose).

Because shapes, indices, loop counters, configuration flags (`self.unc`, `self.nonlin_terms`, `self.order` ...) are ordinary values, a rule
that reads its facts from the *results* (final array contents, recorded stores, recorded calls of opaque functions) does not depend on
how the source spells the computation: renamed locals, temporaries, inverted tests, `for`/`while`/`enumerate(zip())`, `iter()/next()`,
extracted or inlined helpers (functions, methods, modules), import aliases, keyword/positional arguments, module constants, views
(`np.transpose`, `np.swapaxes`, `.T`, slices), `None`/`np.newaxis`, negative/explicit indices all evaluate to the same values.  Matrices
are explicit (entry by entry), so products keep their order: `Z @ C` and `C @ Z` are different values.

The rules start at the public entry points: a class is *instantiated* by running its own `__init__` (base classes included), so the whole
chain constructor -> helper methods -> solver -> returned record is the analysed program's, not the rule's.  Supported along the way:
classes (inheritance, super(), class attributes, @property / @staticmethod / @classmethod / cached_property, __call__, local classes,
dataclass / NamedTuple / namedtuple records), closures, nonlocal / global, local imports, lambdas, starred targets and arguments, walrus,
comprehensions (nested), generator expressions and lazy zip / enumerate / map (consumed item by item), generator functions including
send() (the body runs in a thread of its own that is resumed for one `yield` at a time, so side effects interleave exactly as in CPython),
try / except / else / finally on the interpreted program's own exceptions, functools.reduce / partial, operator.*, itertools basics; numpy
basic / advanced / boolean-mask indexing with view semantics, np.ix_, nonzero, broadcasting, out=, in-place operators, stacking, einsum,
lu_factor results taken apart as (lu, piv) and put together again.  inv(A) of a matrix the rule registered (Interp.named_inv) is kept
as a matrix of symbols, which keeps the formulas of a several-step history polynomial.

A test whose truth depends on symbolic data (`v0.any()`) is *undecided*: both arms are executed in may-mode, every store made there
becomes `cond(test, new, old)` - so a quantity that must be stored unconditionally and is stored under a data-dependent test no longer
equals its documented value.  Anything outside the subset raises `Unsupported` (ANALYSIS-ERROR), never a silent pass; formula arithmetic
runs under a work budget (`work_reset`), exceeding it is `TooLarge` (also an ANALYSIS-ERROR unless the rule decides on a shorter history).
"""
from __future__ import annotations

import ast
import itertools
import threading
from fractions import Fraction

from . import e2_formula as F
from .core import AnchorError, Unsupported
from .e2_eval import const_from_node

Rat = F.Rat


# --------------------------------------------------------------------------------------------------------------------- scalars
def is_num(x):
    return isinstance(x, (int, Rat)) and not isinstance(x, bool)


def R(x):
    if isinstance(x, Rat):
        return x
    if isinstance(x, bool):
        return F.const(int(x))
    if isinstance(x, (int, Fraction)):
        return F.const(x)
    raise Unsupported(f"not a number: {type(x).__name__}")


def _as_int(x):
    """a value used as an index / count"""
    if isinstance(x, bool):
        return int(x)
    if isinstance(x, int):
        return x
    if isinstance(x, Rat) and x.is_const():
        c = x.const_value()
        if c.denominator == 1:
            return int(c)
        raise PyRaise("TypeError", f"{c} cannot be interpreted as an integer")
    if x is None or isinstance(x, (str, dict, tuple, list)) or type(x).__name__ in ("Builtin", "ClassRef", "Func", "Bound", "Obj", "LU", "LUPart"):
        raise PyRaise("TypeError", f"{x!r} cannot be interpreted as an integer")
    if type(x).__name__ == "NDArr" and x.size == 1:
        return _as_int(x.flat()[0])
    raise Unsupported(f"integer expected, got {x!r}")


class TooLarge(Unsupported):
    """a formula outgrew the budget (the analysed code repeats a non-cancelling operation): ANALYSIS-ERROR, never a verdict"""


SIZE_LIMIT = 300000


WORK = [0, None]         # term-pair products since the last reset, optional cap (set by a rule around one evaluation)


def work_reset(cap=None):
    WORK[0], WORK[1] = 0, cap


def _budget(*pairs):
    for p, q in pairs:
        w = len(p.t) * len(q.t)
        if w > SIZE_LIMIT:
            raise TooLarge(f"formula too large ({len(p.t)} x {len(q.t)} terms)")
        WORK[0] += w
    if WORK[1] is not None and WORK[0] > WORK[1]:
        raise TooLarge(f"evaluation outgrew its work budget ({WORK[0]} term products)")


def poly_div_exact(f, g):
    """q with f = q g for polynomials in plain symbols, or None (not divisible / other atoms involved).  Lexicographic division: exact
    divisibility shows as the leading term of every remainder being divisible by the leading term of g"""
    if not g.t or len(f.t) < len(g.t):
        return None
    atoms = sorted({a for p_ in (f, g) for m in p_.t for a, _e in m})
    if any(F.atom_desc(a)[0] not in ("s", "fn") or a == F.I_ATOM for a in atoms):
        return None
    idx = {a: i for i, a in enumerate(atoms)}
    n = len(atoms)

    def vecs(p_):
        out = {}
        for m, c in p_.t.items():
            v = [0] * n
            for a, e in m:
                v[idx[a]] = e
            out[tuple(v)] = c
        return out
    G, Rm = vecs(g), vecs(f)
    lg = max(G)
    cg = G[lg]
    Q = {}
    for _ in range(4000):
        if not Rm:
            return F.Poly({tuple((atoms[i], e) for i, e in enumerate(v) if e): c for v, c in Q.items()})
        lr = max(Rm)
        t = tuple(x - y for x, y in zip(lr, lg))
        if min(t, default=0) < 0:
            return None
        c = Rm[lr] / cg
        Q[t] = Q.get(t, 0) + c
        for mg, cm in G.items():
            k = tuple(x + y for x, y in zip(t, mg))
            v = Rm.get(k, 0) - c * cm
            if v:
                Rm[k] = v
            else:
                Rm.pop(k, None)
    return None


def _guarded(op, a, b):
    """Rat arithmetic with a size check before every polynomial product.  Sums of fractions whose denominators divide one another
    (x/P + y/(3 P^2): the code divides repeatedly by the same polynomial) are formed over the larger denominator - e2_formula.Rat would
    multiply the denominators, and without cancellation of common factors that is what makes formulas explode"""
    if op in ("+", "-"):
        if a.d == b.d:
            return a + b if op == "+" else a - b
        if len(a.d.t) > 1 or len(b.d.t) > 1:
            big, small, swap = (b, a, False) if len(b.d.t) >= len(a.d.t) else (a, b, True)
            q = poly_div_exact(big.d, small.d)
            if q is None and len(a.d.t) == len(b.d.t):
                big, small, swap = small, big, not swap
                q = poly_div_exact(big.d, small.d)
            if q is not None:
                _budget((small.n, q))
                sn = small.n * q
                if op == "+":
                    return Rat(big.n + sn, big.d)
                return Rat(sn - big.n, big.d) if not swap else Rat(big.n - sn, big.d)
        _budget((a.n, b.d), (b.n, a.d), (a.d, b.d))
        return a + b if op == "+" else a - b
    if op == "*":
        _budget((a.n, b.n), (a.d, b.d))
        return a * b
    _budget((a.n, b.d), (a.d, b.n))
    return a / b


def s_bin(op, a, b):
    if op in ("&", "|"):
        if isinstance(a, bool) and isinstance(b, bool):
            return (a and b) if op == "&" else (a or b)
        if isinstance(a, int) and isinstance(b, int):
            return (a & b) if op == "&" else (a | b)
        raise Unsupported(f"bit operator {op} on symbolic values")
    ia = isinstance(a, int) and not isinstance(a, bool)
    ib = isinstance(b, int) and not isinstance(b, bool)
    if isinstance(a, bool):
        a, ia = int(a), True
    if isinstance(b, bool):
        b, ib = int(b), True
    if op == "+":
        return a + b if ia and ib else _guarded("+", R(a), R(b))
    if op == "-":
        return a - b if ia and ib else _guarded("-", R(a), R(b))
    if op == "*":
        return a * b if ia and ib else _guarded("*", R(a), R(b))
    if op == "/":
        rb = R(b)
        if rb.is_zero():
            raise Unsupported("division by zero")
        return _guarded("/", R(a), rb)
    if op == "//":
        if ia and ib and b != 0:
            return a // b
        raise Unsupported("floor division of symbolic values")
    if op == "%":
        if ia and ib and b != 0:
            return a % b
        raise Unsupported("modulo of symbolic values")
    if op == "**":
        if ia and ib and b >= 0:
            return a ** b
        rb = R(b)
        if not rb.is_const():
            raise Unsupported("symbolic exponent")
        return R(a) ** rb.const_value()
    raise Unsupported(f"operator {op}")


def s_equal(a, b):
    """exact equality of two scalar entries"""
    if isinstance(a, Und) or isinstance(b, Und):
        return False
    try:
        ra, rb = R(a), R(b)
        if ra.d.t == rb.d.t:
            return ra.n.t == rb.n.t          # one denominator: equal iff the numerators are the same polynomial
        _budget((ra.n, rb.d), (rb.n, ra.d))
        return ra.equals(rb)
    except TooLarge:
        raise
    except Unsupported:
        return False


class Und:
    """a truth value / value that depends on symbolic data"""

    def __init__(self, desc):
        self.desc = desc

    def __repr__(self):
        return f"Und({self.desc})"


def fast_subs(r, mp):
    """r with symbols replaced by zero or by monomials ({name: Rat with a one-term numerator and denominator}): term by term, without
    building intermediate sums (e2_formula's general subs is quadratic in the number of terms)"""
    r = R(r)
    ids = {}
    for name, v in mp.items():
        v = R(v)
        if not v.is_zero() and (len(v.n.t) != 1 or len(v.d.t) != 1):
            return r.subs(mp)
        ids[F._intern(("s", name))] = v

    def sub_poly(p):
        """-> (terms {signed monomial (tuple of (atom, exp), exps of either sign): coeff}) or None when an opaque atom is involved"""
        out = {}
        for m, c in p.t.items():
            acc, coef, dead = {}, c, False
            for a, e in m:
                v = ids.get(a)
                if v is None:
                    if F.atom_desc(a)[0] != "s":
                        return None
                    acc[a] = acc.get(a, 0) + e
                    continue
                if v.is_zero():
                    dead = True
                    break
                (mn, cn), = v.n.t.items()
                (md, cd), = v.d.t.items()
                coef = coef * (cn / cd) ** e
                for a2, e2 in mn:
                    if F.atom_desc(a2)[0] != "s":
                        return None
                    acc[a2] = acc.get(a2, 0) + e2 * e
                for a2, e2 in md:
                    if F.atom_desc(a2)[0] != "s":
                        return None
                    acc[a2] = acc.get(a2, 0) - e2 * e
            if dead:
                continue
            key = tuple(sorted((a, e) for a, e in acc.items() if e))
            v = out.get(key, 0) + coef
            if v:
                out[key] = v
            else:
                out.pop(key, None)
        return out

    def clear(terms):
        """signed terms -> (Poly numerator, Poly one-term denominator)"""
        low = {}
        for m in terms:
            for a, e in m:
                if e < low.get(a, 0):
                    low[a] = e
        num = {}
        for m, c in terms.items():
            d = dict(m)
            for a, e in low.items():
                d[a] = d.get(a, 0) - e
            num[tuple(sorted((a, e) for a, e in d.items() if e))] = c
        den = tuple(sorted((a, -e) for a, e in low.items()))
        return F.Poly(num), F.Poly({den: Fraction(1)})
    tn, td = sub_poly(r.n), sub_poly(r.d)
    if tn is None or td is None:
        return r.subs(mp)
    if not td:
        raise Unsupported("substitution makes a denominator vanish")
    nn, nd = clear(tn)
    dn, dd = clear(td)
    return Rat(nn * dd, nd * dn)


def cond_val(guard, new, old):
    """value of a cell written under an undecided test; writing the same value on both arms of the test is an unconditional write"""
    if isinstance(new, Und) or isinstance(old, Und):
        return Und(f"under {guard}")
    if s_equal(new, old):
        return new
    from .sem import unfn
    u = unfn(old) if isinstance(old, Rat) else None
    if u is not None and u[0] == "cond" and len(u[1]) == 3 and isinstance(u[1][0], str):
        g0 = u[1][0]
        if (g0 == "not " + guard or guard == "not " + g0) and s_equal(u[1][1], new):
            return new
    return F.fn("cond", guard, R(new), R(old))


# --------------------------------------------------------------------------------------------------------------------- arrays
class Store:
    """flat storage shared by an array and its views; every write is logged"""

    def __init__(self, data, label=None):
        self.data = list(data)
        self.label = label
        self.log = []        # (seq, storage index, value, node)

    def snapshot(self):
        return list(self.data)


def _prod(shape):
    n = 1
    for s in shape:
        n *= s
    return n


class NDArr:
    """n-d array of scalar entries (int / Rat) with numpy's view semantics for basic indexing, transposition and axis swaps"""

    def __init__(self, store, shape, ix, kind=None):
        self.st = store
        self.shape = tuple(shape)
        self.ix = ix
        self.kind = kind         # "bool" for arrays created with dtype bool (matters for empty masks and np.issubdtype)

    def is_bool(self):
        fl = self.flat()
        return self.kind == "bool" or (bool(fl) and all(isinstance(x, bool) for x in fl))

    # ---- construction
    @staticmethod
    def new(shape, entries, label=None):
        shape = tuple(shape)
        entries = list(entries)
        if len(entries) != _prod(shape):
            raise Unsupported("array construction: size mismatch")
        return NDArr(Store(entries, label), shape, list(range(len(entries))))

    @staticmethod
    def full(shape, value, label=None):
        return NDArr.new(shape, [value] * _prod(shape), label)

    @staticmethod
    def syms(name, shape, label=None):
        shape = tuple(shape)
        ents = [F.sym(name + "".join(f"_{i}" for i in idx)) for idx in itertools.product(*[range(s) for s in shape])]
        return NDArr.new(shape, ents, label)

    # ---- access
    @property
    def ndim(self):
        return len(self.shape)

    @property
    def size(self):
        return _prod(self.shape)

    def flat(self):
        d = self.st.data
        return [d[i] for i in self.ix]

    def copy(self):
        r = NDArr.new(self.shape, self.flat())
        r.kind = self.kind
        return r

    def item(self, *idx):
        pos = 0
        for i, s in zip(idx, self.shape):
            pos = pos * s + (i % s)
        return self.st.data[self.ix[pos]]

    def tolist(self):
        def rec(off, dims):
            if not dims:
                return self.st.data[self.ix[off]]
            step = _prod(dims[1:])
            return [rec(off + k * step, dims[1:]) for k in range(dims[0])]
        return rec(0, list(self.shape))

    def transpose(self, axes=None):
        nd = self.ndim
        axes = list(range(nd))[::-1] if axes is None else [a % nd for a in axes]
        if sorted(axes) != list(range(nd)):
            raise Unsupported("transpose: bad axes")
        newshape = [self.shape[a] for a in axes]
        strides = [_prod(self.shape[a + 1:]) for a in range(nd)]
        ix = []
        for idx in itertools.product(*[range(s) for s in newshape]):
            ix.append(self.ix[sum(idx[k] * strides[axes[k]] for k in range(nd))])
        return NDArr(self.st, newshape, ix)

    @property
    def T(self):
        return self.transpose()

    def reshape(self, shape):
        shape = list(shape)
        if shape.count(-1) == 1:
            k = shape.index(-1)
            rest = _prod([s for s in shape if s != -1])
            if rest == 0 or self.size % rest:
                raise PyRaise("ValueError", f"cannot reshape array of size {self.size} into shape {tuple(shape)}")
            shape[k] = self.size // rest
        if any(s < 0 for s in shape) or _prod(shape) != self.size:
            raise PyRaise("ValueError", f"cannot reshape array of size {self.size} into shape {tuple(shape)}")
        return NDArr(self.st, shape, list(self.ix))

    def index(self, key):
        """numpy indexing: ints, slices, None, Ellipsis (views); integer arrays used point-wise on all axes (copy)"""
        if not isinstance(key, tuple):
            key = (key,)
        key = tuple(_mask_positions(_index_value(k)) for k in key)
        adv = [k for k in key if isinstance(k, (NDArr, list))]
        if len(adv) > 1:
            return self._fancy(key), None
        n_real = sum(1 for k in key if k is not None and k is not Ellipsis)
        if n_real > self.ndim:
            raise Unsupported("too many indices")
        if sum(1 for k in key if k is Ellipsis) > 1:
            raise Unsupported("two ellipses")
        full = []
        for k in key:
            if k is Ellipsis:
                full.extend([slice(None)] * (self.ndim - n_real))
            else:
                full.append(k)
        while sum(1 for k in full if k is not None) < self.ndim:
            full.append(slice(None))
        sel, newshape = [], []
        ax = 0
        for k in full:
            if k is None:
                newshape.append(1)
                continue
            n = self.shape[ax]
            if isinstance(k, slice):
                pos = list(range(n))[slice(_opt_int(k.start), _opt_int(k.stop), _opt_int(k.step))]
                sel.append(pos)
                newshape.append(len(pos))
            elif isinstance(k, (NDArr, list)):
                # one integer index array (a partition vector): its axis stays in place; the caller copies on a load
                items = k.flat() if isinstance(k, NDArr) else list(k)
                if isinstance(k, NDArr) and k.ndim != 1:
                    raise Unsupported("advanced indexing with a non 1-d index array")
                if any(isinstance(x, bool) for x in items):
                    raise Unsupported("boolean mask index")
                pos = []
                for x in items:
                    i = _as_int(x)
                    if not -n <= i < n:
                        raise PyRaise("IndexError", f"index {i} out of range for axis of size {n}")
                    pos.append(i % n)
                sel.append(pos)
                newshape.append(len(pos))
            else:
                i = _as_int(k)
                if not -n <= i < n:
                    raise PyRaise("IndexError", f"index {i} out of range for axis of size {n}")
                sel.append([i % n])
            ax += 1
        strides = [_prod(self.shape[a + 1:]) for a in range(self.ndim)]
        ix = [self.ix[sum(p * s for p, s in zip(idx, strides))] for idx in itertools.product(*sel)]
        if not newshape and not adv:
            return None, ix[0]          # a single element
        return NDArr(self.st, newshape, ix), None

    def _fancy(self, key):
        """one integer index array per axis, broadcast against each other (np.ix_ meshes, `A[i, i]`)"""
        arrs = []
        for k in key:
            if isinstance(k, list):
                k = to_array(k)
            if not isinstance(k, NDArr):
                raise Unsupported("mixed basic/advanced indexing")
            arrs.append(k)
        if len(arrs) != self.ndim:
            raise Unsupported("advanced indexing: one index array per axis expected")
        shape = ()
        for k in arrs:
            shape = _broadcast(shape, k.shape)
        cols = [[_as_int(x) for x in _bc_entries(k, shape)] for k in arrs]
        for c, n in zip(cols, self.shape):
            for p in c:
                if not -n <= p < n:
                    raise PyRaise("IndexError", f"index {p} out of range for axis of size {n}")
        strides = [_prod(self.shape[a + 1:]) for a in range(self.ndim)]
        ix = [self.ix[sum((p % n) * s for p, n, s in zip(pt, self.shape, strides))] for pt in zip(*cols)] if _prod(shape) else []
        return NDArr(self.st, shape, ix)      # used as a store target or copied by the caller

    # ---- python-side conveniences for the expected side of a rule
    def __getitem__(self, key):
        a, el = self.index(key)
        return a if a is not None else self.st.data[el]

    def _bin(self, op, o, swap=False):
        return ew_bin(op, o, self) if swap else ew_bin(op, self, o)

    def __add__(self, o):
        return self._bin("+", o)

    def __radd__(self, o):
        return self._bin("+", o, True)

    def __sub__(self, o):
        return self._bin("-", o)

    def __rsub__(self, o):
        return self._bin("-", o, True)

    def __mul__(self, o):
        return self._bin("*", o)

    def __rmul__(self, o):
        return self._bin("*", o, True)

    def __truediv__(self, o):
        return self._bin("/", o)

    def __rtruediv__(self, o):
        return self._bin("/", o, True)

    def __neg__(self):
        return ew_bin("-", 0, self)

    def __matmul__(self, o):
        return matmul(self, o)

    def __repr__(self):
        return f"NDArr{self.shape}{self.tolist()!r}"


def _opt_int(x):
    return None if x is None else _as_int(x)


def _index_value(k):
    if isinstance(k, Rat):
        return _as_int(k)
    if isinstance(k, tuple):
        raise Unsupported("nested index tuple")
    return k


def _mask_positions(k):
    """a boolean mask used as an index selects the positions that are True (an empty mask selects nothing)"""
    if isinstance(k, NDArr) and k.ndim == 1 and (k.is_bool() or k.size == 0):
        fl = k.flat()
        if k.size and not all(isinstance(x, bool) for x in fl):
            raise Unsupported("boolean mask with undecided entries")
        if k.size == 0:
            return NDArr.new((0,), [])
        pos = [i for i, x in enumerate(fl) if x]
        return NDArr.new((len(pos),), pos)
    if isinstance(k, list) and k and all(isinstance(x, bool) for x in k):
        pos = [i for i, x in enumerate(k) if x]
        return NDArr.new((len(pos),), pos)
    return k


def _broadcast(sa, sb):
    out = []
    for a, b in itertools.zip_longest(sa[::-1], sb[::-1], fillvalue=1):
        if a == b or b == 1:
            out.append(a)
        elif a == 1:
            out.append(b)
        else:
            raise PyRaise("ValueError", f"operands could not be broadcast together {sa} {sb}")
    return tuple(out[::-1])


def _bc_entries(a, shape):
    """entries of `a` (array or scalar) broadcast to `shape`, row-major"""
    if not isinstance(a, NDArr):
        return [a] * _prod(shape)
    if a.shape == tuple(shape):
        return a.flat()
    fl = a.flat()
    pad = (1,) * (len(shape) - a.ndim) + a.shape
    strides = [_prod(pad[k + 1:]) if pad[k] != 1 else 0 for k in range(len(pad))]
    return [fl[sum(i * s for i, s in zip(idx, strides))] for idx in itertools.product(*[range(s) for s in shape])]


def ew_bin(op, a, b):
    """element-wise binary operation with broadcasting"""
    for x in (a, b):
        if isinstance(x, Und):
            raise Unsupported(f"use of a value that depends on an undecided test ({x.desc})")
    if not isinstance(a, NDArr) and not isinstance(b, NDArr):
        for x in (a, b):
            if x is None or isinstance(x, (dict, Obj)) or (isinstance(x, Opaque) and x.inert):
                raise PyRaise("TypeError", f"unsupported operand for {op}: {x!r}")
        return s_bin(op, a, b)
    for x in (a, b):
        if not isinstance(x, NDArr) and not is_num(x) and not isinstance(x, bool):
            if x is None or isinstance(x, (dict, Obj)) or (isinstance(x, Opaque) and x.inert):
                raise PyRaise("TypeError", f"unsupported operand for {op}: {x!r}")
            raise Unsupported(f"array {op} {type(x).__name__}")
    sa = a.shape if isinstance(a, NDArr) else ()
    sb = b.shape if isinstance(b, NDArr) else ()
    shape = _broadcast(sa, sb)
    ea, eb = _bc_entries(a, shape), _bc_entries(b, shape)
    return NDArr.new(shape, [_e_bin(op, x, y) for x, y in zip(ea, eb)])


_DIVZERO = [0]


def _e_bin(op, x, y):
    if isinstance(x, Und) or isinstance(y, Und):
        return x if isinstance(x, Und) else y
    if op == "/" and not isinstance(y, bool) and is_num(y) and R(y).is_zero():
        # numpy arrays do not raise: the entry becomes inf / nan (a value of its own that never equals a documented one)
        _DIVZERO[0] += 1
        return F.sym(f"divzero{_DIVZERO[0]}")
    return s_bin(op, x, y)


def matmul(a, b):
    if not isinstance(a, NDArr) or not isinstance(b, NDArr):
        raise PyRaise("ValueError", "matmul: scalar operand")
    if a.ndim == 1 and b.ndim == 1:
        if a.shape != b.shape:
            raise PyRaise("ValueError", "matmul: shape mismatch")
        return _dot(a.flat(), b.flat())
    if a.ndim == 2 and b.ndim == 1:
        if a.shape[1] != b.shape[0]:
            raise PyRaise("ValueError", "matmul: shape mismatch")
        rows, vb = a.tolist(), b.flat()
        return NDArr.new((a.shape[0],), [_dot(r, vb) for r in rows])
    if a.ndim == 1 and b.ndim == 2:
        if a.shape[0] != b.shape[0]:
            raise PyRaise("ValueError", "matmul: shape mismatch")
        cols, va = b.T.tolist(), a.flat()
        return NDArr.new((b.shape[1],), [_dot(va, c) for c in cols])
    if a.ndim == 2 and b.ndim == 2:
        if a.shape[1] != b.shape[0]:
            raise PyRaise("ValueError", "matmul: shape mismatch")
        rows, cols = a.tolist(), b.T.tolist()
        return NDArr.new((a.shape[0], b.shape[1]), [_dot(r, c) for r in rows for c in cols])
    raise Unsupported("matmul of arrays with more than two axes")


def _dot(x, y):
    tot = 0
    for p, q in zip(x, y):
        if isinstance(p, Und) or isinstance(q, Und):
            return p if isinstance(p, Und) else q
        tot = s_bin("+", tot, s_bin("*", p, q))
    return tot


def det_adj(m):
    """(determinant, adjugate) of a small square matrix given as list of rows"""
    n = len(m)
    if n == 1:
        return m[0][0], [[1]]
    if n == 2:
        (a, b), (c, d) = m
        return s_bin("-", s_bin("*", a, d), s_bin("*", b, c)), [[d, s_bin("-", 0, b)], [s_bin("-", 0, c), a]]
    if n == 3:
        def minor(i, j):
            r = [[m[p][q] for q in range(3) if q != j] for p in range(3) if p != i]
            return s_bin("-", s_bin("*", r[0][0], r[1][1]), s_bin("*", r[0][1], r[1][0]))
        cof = [[minor(i, j) if (i + j) % 2 == 0 else s_bin("-", 0, minor(i, j)) for j in range(3)] for i in range(3)]
        det = 0
        for j in range(3):
            det = s_bin("+", det, s_bin("*", m[0][j], cof[0][j]))
        return det, [[cof[j][i] for j in range(3)] for i in range(3)]
    raise Unsupported("inverse of a matrix larger than 3 x 3")


def clear_denominators(entries):
    """(L, [L * e]) with L the product of the distinct non-constant denominators: the scaled entries are polynomials whenever the
    denominators are monomials (h^2, 2 h, 3 ...), which keeps sums of products over ONE common denominator"""
    ents = [R(e) for e in entries]
    L = F.const(1)
    seen = set()
    for e in ents:
        if not e.d.is_const() and e.d.key() not in seen:
            seen.add(e.d.key())
            L = L * Rat(e.d)
    return L, [e * L for e in ents]


def inverse(a):
    if not isinstance(a, NDArr):
        raise Unsupported("inverse of a non-array")
    if a.ndim != 2 or a.shape[0] != a.shape[1]:
        raise PyRaise("ValueError", "expected a square matrix")
    n = a.shape[0]
    L, ents = clear_denominators(a.flat())
    if not all(e.d.is_const() for e in ents):
        L, ents = F.const(1), [R(e) for e in a.flat()]
    det, adj = det_adj([ents[i * n:(i + 1) * n] for i in range(n)])
    det = R(det)
    if det.is_zero():
        raise PyRaise("LinAlgError", "singular matrix")
    out = []
    for i in range(n):
        for j in range(n):
            num = R(adj[i][j]) * L           # inv(A) = L adj(L A) / det(L A)
            if num.d.is_const() and det.d.is_const():
                out.append(Rat(num.n.scale(det.d.const_value() / num.d.const_value()), det.n))     # one denominator for all entries
            else:
                out.append(num / det)
    return NDArr.new((n, n), out)


def arr_equal(a, b):
    """exact equality (shape and every entry) of two arrays / scalars"""
    if isinstance(a, NDArr) != isinstance(b, NDArr):
        return False
    if not isinstance(a, NDArr):
        return s_equal(a, b)
    return a.shape == b.shape and all(s_equal(x, y) for x, y in zip(a.flat(), b.flat()))


class LU:
    """result of scipy.linalg.lu_factor: stands for the matrix (or, when the rule configured it so, is given by its inverse)"""

    def __init__(self, mat=None, inv=None):
        self.mat = mat
        self._inv = inv

    def inv(self, it=None):
        if self._inv is None:
            self._inv = it.inverse_of(self.mat) if it is not None else inverse(self.mat)
        return self._inv


class LUPart:
    """one of the two members of lu_factor's result (`lu, piv = lu_factor(A)`): meaningful only together with its sibling"""

    def __init__(self, lu, which):
        self.lu, self.which = lu, which

    def __repr__(self):
        return f"<{self.which} of an LU factorisation>"


def lu_parts(lu):
    if getattr(lu, "_parts", None) is None:
        lu._parts = (LUPart(lu, "lu"), LUPart(lu, "piv"))
    return lu._parts


def as_lu(x):
    """the factorisation an argument of lu_solve stands for: the object itself, or the pair (lu, piv) taken apart and put together again.
    A pair whose members come from two different factorisations is garbage: None"""
    if isinstance(x, LU):
        return x
    if isinstance(x, (tuple, list)) and len(x) == 2 and all(isinstance(e, LUPart) for e in x):
        if x[0].lu is x[1].lu and x[0].which == "lu" and x[1].which == "piv":
            return x[0].lu
        return None
    raise PyRaise("TypeError", "lu_solve: first argument is not the result of lu_factor")


# --------------------------------------------------------------------------------------------------------------------- objects
class Obj:
    """instance (`self`, SimpleNamespace records): attribute dictionary + optional class for method look-up"""

    def __init__(self, cls=None, label="obj", **attrs):
        self.cls = cls
        self.label = label
        self.attrs = dict(attrs)
        self.overrides = {}      # method name or 'Class.method' -> python callable(interp, args, kwargs)
        self.absent = set()      # attributes the rule knows not to exist in this configuration (reading one is a genuine AttributeError)
        self.attr_log = []       # (seq, name, value)
        self.complete = False    # built by the code's own constructor: the attributes are exactly those it has assigned

    def __repr__(self):
        return f"<{self.label}>"


class Opaque:
    """a value the code only passes around or calls (user supplied nonlinear function, an external routine without a model)"""

    def __init__(self, name, inert=False):
        self.name = name
        self.inert = inert       # a value that supports no arithmetic (a user function, an options object)

    def __repr__(self):
        return f"<opaque {self.name}>"


class Func:
    def __init__(self, node, module, closure, defaults, kw_defaults, cls):
        self.node, self.module, self.closure, self.defaults, self.kw_defaults, self.cls = node, module, closure, defaults, kw_defaults, cls
        self.name = node.name


class Bound:
    def __init__(self, obj, func):
        self.obj, self.func = obj, func


class Builtin:
    def __init__(self, name, fn, lenient=False):
        self.name, self.fn = name, fn
        self.lenient = lenient   # accepts values bound under an undecided test (warnings.warn, print): nothing flows back

    def __repr__(self):
        return f"<builtin {self.name}>"


class ClassRef:
    def __init__(self, module, node, closure=None):
        self.module, self.node = module, node
        self.name = node.name
        self.closure = closure       # frame of the function a local class is defined in (its methods see that function's locals)

    def bases(self, interp):
        out = []
        for b in self.node.bases:
            v = interp.eval(b, self.closure) if self.closure is not None else interp.eval_in_module(self.module, b)
            if isinstance(v, ClassRef):
                out.append(v)
        return out

    def mro(self, interp):
        out, todo = [], [self]
        while todo:
            c = todo.pop(0)
            if c not in out:
                out.append(c)
                todo.extend(c.bases(interp))
        return out

    def find(self, interp, name, after=None):
        mro = self.mro(interp)
        if after is not None:
            k = [i for i, c in enumerate(mro) if c.node is after.node]
            mro = mro[k[0] + 1:] if k else mro
        for c in mro:
            for st in c.node.body:
                if isinstance(st, ast.FunctionDef) and st.name == name:
                    return c, st
        return None, None


class ModRef:
    """an imported module outside the repo (numpy, scipy.linalg, operator ...) or a sub-namespace of one"""

    def __init__(self, name):
        self.name = name

    def __repr__(self):
        return f"<module {self.name}>"


class SuperProxy:
    def __init__(self, obj, cls):
        self.obj, self.cls = obj, cls


class PyIter:
    """a Python iterator of the interpreted program (iter(), zip(), enumerate(), generator expressions, generator functions): consumed
    lazily, item by item, as CPython would"""

    def __init__(self, it):
        self.it = it


class GenDriver:
    """a generator function of the interpreted program.  Its body runs in a thread of its own that is resumed for one `yield` at a time
    (never concurrently with the consumer), so side effects interleave exactly as in CPython; send() is supported"""

    def __init__(self, interp, func, frame):
        self.interp, self.func, self.frame = interp, func, frame
        self.req, self.resp = threading.Semaphore(0), threading.Semaphore(0)
        self.started = self.done = False
        self.exc = None
        self.value = self.sent = self.ret = None

    def _run(self):
        self.req.acquire()
        try:
            self.interp.exec_block(self.func.node.body, self.frame)
        except _Return as e:
            self.ret = e.value
        except BaseException as e:       # handed to the consumer
            self.exc = e
        self.done = True
        self.resp.release()

    def emit(self, value):
        self.value = value
        self.resp.release()
        self.req.acquire()
        v, self.sent = self.sent, None
        return v

    def send(self, value):
        if self.done:
            raise StopIteration
        if not self.started:
            if value is not None:
                raise PyRaise("TypeError", "can't send non-None value to a just-started generator")
            self.started = True
            threading.Thread(target=self._run, daemon=True).start()
        self.sent = value
        self.req.release()
        self.resp.acquire()
        if self.exc is not None:
            e, self.exc = self.exc, None
            raise e
        if self.done:
            raise StopIteration
        return self.value

    def __iter__(self):
        return self

    def __next__(self):
        return self.send(None)


class PyRaise(Exception):
    """a Python exception raised by the interpreted code"""

    def __init__(self, name, msg="", genuine=True):
        super().__init__(f"{name}: {msg}")
        self.name = name
        self.genuine = genuine      # False: the exception may be an artefact of what the rule configured / the interpreter models


class _Return(Exception):
    def __init__(self, value):
        self.value = value


class _Break(Exception):
    pass


class _Continue(Exception):
    pass


_MISSING = object()
FLOAT = Builtin("float", lambda it, a, k: R(a[0]) if a else F.const(0))
COMPLEX = Builtin("complex", lambda it, a, k: (_ for _ in ()).throw(Unsupported("complex()")))


# --------------------------------------------------------------------------------------------------------------------- modules
def _raw_tree(mod):
    """the module as written.  The shared source model (e1_srcmodel) hands out a tree whose locals were renamed towards reference names and
    whose temporaries / test polarities were canonicalised for the pattern rules; an interpreter needs none of that, and one of those
    rewrites is not scope-aware (a nested function whose parameter shadows a renamed local of the enclosing function keeps its parameter name
    while its body is renamed).  So the text is parsed again, untouched; functions get their qualified name for the coverage report."""
    t = getattr(mod, "_c17_raw", None)
    if t is None:
        t = mod._c17_raw = ast.parse(mod.source, filename=mod.path)

        def index(node, prefix):
            for ch in ast.iter_child_nodes(node):
                if isinstance(ch, (ast.FunctionDef, ast.AsyncFunctionDef, ast.ClassDef)):
                    ch._vqual = prefix + ch.name
                    index(ch, ch._vqual + ".")
                elif not isinstance(ch, (ast.expr_context, ast.operator, ast.unaryop, ast.cmpop, ast.boolop)):
                    index(ch, prefix)
        index(t, "")
        t._c17_source = mod.source
    return t


class ModuleEnv:
    def __init__(self, interp, rel):
        self.interp = interp
        self.rel = rel
        self.mod = None          # parsed on the first look-up: a module that is only named (never read) is not consulted
        self.globals = {}
        self.pending = {}

    def _load(self):
        if self.mod is None:
            self.mod = self.interp.ctx.src.mod(self.rel)          # registers the file (its digest goes into the evidence)
            self.tree = _raw_tree(self.mod)
            self._scan(self.tree.body)

    def _scan(self, body):
        """module-level bindings in source order; a name bound several times (`f = decorate(f)` after `def f`) keeps every definition: they
        are evaluated in order on the first look-up, each seeing its predecessor"""
        for st in body:
            if isinstance(st, ast.FunctionDef):
                self.pending.setdefault(st.name, []).append(st)
            elif isinstance(st, ast.ClassDef):
                self.globals[st.name] = ClassRef(self, st)
            elif isinstance(st, ast.Import):
                for al in st.names:
                    if al.asname:
                        self.globals[al.asname] = self._ext(al.name)
                    else:
                        top = al.name.split(".")[0]
                        self.globals[top] = self._ext(top)
            elif isinstance(st, ast.ImportFrom):
                for al in st.names:
                    self.pending.setdefault(al.asname or al.name, []).append(("from", st.level, st.module or "", al.name))
            elif isinstance(st, ast.Assign) and all(isinstance(t, ast.Name) for t in st.targets):
                for t in st.targets:
                    self.pending.setdefault(t.id, []).append(st.value)
            elif isinstance(st, ast.AnnAssign) and isinstance(st.target, ast.Name) and st.value is not None:
                self.pending.setdefault(st.target.id, []).append(st.value)
            elif isinstance(st, ast.If):
                # a module-level switch (`if HAVE_NUMBA:`): the arm is chosen by the value of the test when it is a plain constant flag
                t = None
                try:
                    t = self.interp.truth(self.interp.eval_in_module(self, st.test))
                except (Unsupported, PyRaise):
                    t = None
                if t is True:
                    self._scan(st.body)
                elif t is False:
                    self._scan(st.orelse)
                else:
                    self._scan(st.body)
                    self._scan(st.orelse)
            elif isinstance(st, ast.Try):
                self._scan(st.body)
                self._scan(getattr(st, "orelse", []))

    def _ext(self, dotted_name):
        rel = self._local_file(dotted_name)
        if rel:
            return self.interp.module(rel)
        return ModRef(dotted_name)

    def _local_file(self, dotted_name):
        import os
        base = dotted_name.replace(".", "/")
        for cand in (base + ".py", base + "/__init__.py"):
            if os.path.exists(os.path.join(self.interp.ctx.repo, cand)):
                return cand
        return None

    def lookup(self, name):
        self._load()
        if name in self.globals:
            return self.globals[name]
        if name not in self.pending:
            return _MISSING
        v = _MISSING
        for p in self.pending.pop(name):
            v = self._define(name, p)
            self.globals[name] = v
        return v

    def _define(self, name, p):
        if isinstance(p, ast.FunctionDef):
            v = self.interp.make_func(p, self, None, None)
        elif isinstance(p, tuple):
            _, level, mod, nm = p
            if level:
                pkg = self.rel.split("/")[:-1]
                pkg = pkg[:len(pkg) - (level - 1)]
                full = ".".join(pkg + ([mod] if mod else []))
            else:
                full = mod
            rel = self._local_file(full)
            st = self.interp.stubs
            if full + "." + nm in st or nm in st:
                v = Builtin(full + "." + nm, st.get(full + "." + nm) or st[nm])
            elif rel:
                sub = self._local_file(full + "." + nm)
                if sub:
                    v = self.interp.module(sub)             # `from package import module`
                else:
                    v = self.interp.module(rel).lookup(nm)
                    if v is _MISSING:
                        v = Opaque(full + "." + nm)
            else:
                v = self.interp.external(full + "." + nm)
        else:
            v = self.interp.eval_in_module(self, p)
        return v


class Frame:
    def __init__(self, module, locals_, parent=None, cls=None, selfobj=None, func=None, gen=None):
        self.module, self.locals, self.parent, self.cls, self.selfobj, self.func = module, locals_, parent, cls, selfobj, func
        self.gen = gen           # GenDriver when the frame belongs to a generator function


# --------------------------------------------------------------------------------------------------------------------- interpreter
class Interp:
    MAX_STEPS = 400000

    def __init__(self, ctx, stubs=None, on_opaque=None):
        self.ctx = ctx
        self.modules = {}
        self.stubs = dict(stubs or {})       # canonical dotted name or last component -> python callable(interp, args, kwargs)
        self.on_opaque = on_opaque           # python callable(interp, opaque, args, kwargs, node) for calls of Opaque values
        self.seq = 0
        self.steps = 0
        self.guards = []
        self.calls = []                      # (seq, description, args, kwargs, result) of overridden / stubbed / opaque / interpreted calls
        self.depth = 0
        self.overrides = {}                  # 'Class.method' / 'method' -> python callable(interp, args, kwargs), for every instance
        self.nonzero = set()                 # symbols the rule declares non-zero (a time step): a monomial in them is true
        self.assume_cmp = None               # python callable(op, a, b) -> bool / NDArr / None deciding comparisons on symbolic data
        self.named_inv = []                  # [(matrix, inverse)] inverses the rule wants to keep as symbols (A^-1 of the Newmark matrix)
        self.trace = []                      # names of the interpreted functions in call order

    # ---- infrastructure
    def module(self, rel):
        m = self.modules.get(rel)
        if m is None:
            m = self.modules[rel] = ModuleEnv(self, rel)
        return m

    def tick(self):
        self.seq += 1
        return self.seq

    def external(self, name):
        if name in EXTERNAL_VALUES:
            return EXTERNAL_VALUES[name]
        if name in self.stubs:
            return Builtin(name, self.stubs[name])
        if name in EXTERNALS:
            return Builtin(name, EXTERNALS[name], lenient=name in LENIENT)
        last = name.rsplit(".", 1)[-1]
        if last in self.stubs:
            return Builtin(name, self.stubs[last])
        if any(k.startswith(name + ".") for k in EXTERNALS) or any(k.startswith(name + ".") for k in self.stubs):
            return ModRef(name)
        return Opaque(name)

    def inverse_of(self, a):
        """inverse of a square matrix: the symbols the rule registered for it (self.named_inv), else entry by entry"""
        a = to_array(a)
        for m, inv in self.named_inv:
            if arr_equal(m, a):
                return inv
        return inverse(a)

    def eval_in_module(self, module, node):
        return self.eval(node, Frame(module, module.globals))

    def make_func(self, node, module, frame, cls):
        if frame is None and cls is not None and cls.closure is not None:
            frame = cls.closure
        fr = frame or Frame(module, module.globals)
        a = node.args
        defaults = [self.eval(d, fr) for d in a.defaults]
        kw_defaults = [None if d is None else self.eval(d, fr) for d in a.kw_defaults]
        return Func(node, module, frame, defaults, kw_defaults, cls)

    def cls(self, rel, name):
        v = self.module(rel).lookup(name)
        if not isinstance(v, ClassRef):
            raise AnchorError(f"class {name} in {rel}")
        return v

    def method(self, cls, name):
        c, node = cls.find(self, name)
        if node is None:
            raise AnchorError(f"method {cls.name}.{name}")
        return self.make_func(node, c.module, None, c)

    def call_method(self, obj, name, *args, **kwargs):
        """entry point of a rule: interpret obj.<name>(*args, **kwargs)"""
        f = self.getattr(obj, name, None)
        return self.call(f, list(args), dict(kwargs), None)

    # ---- binding of arguments
    def bind(self, func, args, kwargs):
        a = func.node.args
        params = [x.arg for x in a.posonlyargs + a.args]
        env = {}
        if len(args) > len(params) and not a.vararg:
            raise PyRaise("TypeError", f"{func.name}: too many positional arguments")
        for p_, v in zip(params, args):
            env[p_] = v
        if a.vararg:
            env[a.vararg.arg] = tuple(args[len(params):])
        kwonly = [x.arg for x in a.kwonlyargs]
        extra = {}
        for k, v in kwargs.items():
            if k in env:
                raise PyRaise("TypeError", f"{func.name}: multiple values for {k}")
            if k in params or k in kwonly:
                env[k] = v
            elif a.kwarg:
                extra[k] = v
            else:
                raise PyRaise("TypeError", f"{func.name}: unexpected keyword {k}")
        if a.kwarg:
            env[a.kwarg.arg] = extra
        for p_, d in zip(params[::-1], func.defaults[::-1]):
            if p_ not in env:
                env[p_] = d
        for p_, d in zip(kwonly, func.kw_defaults):
            if p_ not in env and d is not None:
                env[p_] = d
        for p_ in params + kwonly:
            if p_ not in env:
                raise PyRaise("TypeError", f"{func.name}: missing argument {p_}")
        return env

    # ---- calls
    def call(self, f, args, kwargs, node):
        if isinstance(f, Builtin) and f.lenient:
            return f.fn(self, list(args), dict(kwargs))
        for x in list(args) + list(kwargs.values()):
            if isinstance(x, Und):
                raise Unsupported(f"a value that depends on an undecided test is passed to a call ({x.desc})")
        if isinstance(f, Bound):
            ov = self._override(f.obj, f.func)
            if ov is not None:
                r = ov(self, list(args), dict(kwargs))
                self.calls.append((self.tick(), f"{f.func.cls.name if f.func.cls else ''}.{f.func.name}", list(args), dict(kwargs), r))
                return r
            return self.call_func(f.func, [f.obj] + list(args), kwargs, f.obj)
        if isinstance(f, Func):
            return self.call_func(f, list(args), kwargs, None)
        if isinstance(f, Builtin):
            r = f.fn(self, list(args), dict(kwargs))
            if f.name in self.stubs or f.name.rsplit(".", 1)[-1] in self.stubs:
                self.calls.append((self.tick(), f.name, list(args), dict(kwargs), r))
            return r
        if isinstance(f, Opaque):
            r = NotImplemented
            if self.on_opaque is not None:
                r = self.on_opaque(self, f, list(args), dict(kwargs), node)
            if r is NotImplemented:
                # a routine without a model (warnings.warn, np.errstate ...): its result is opaque; it must not be handed an array or an
                # object it could change behind the interpreter's back
                if any(isinstance(x, (NDArr, Obj, dict, list, LU)) for x in list(args) + list(kwargs.values())):
                    raise Unsupported(f"call of {f.name} (no model) with a mutable argument")
                r = Opaque(f"result of {f.name}")
            self.calls.append((self.tick(), f.name, list(args), dict(kwargs), r))
            return r
        if isinstance(f, ClassRef):
            return self.instantiate(f, *args, **kwargs)
        if isinstance(f, Obj) and f.cls is not None:
            c, fn = f.cls.find(self, "__call__")
            if fn is not None:
                return self.call(Bound(f, self.make_func(fn, c.module, None, c)), args, kwargs, node)
        if isinstance(f, Und):
            raise Unsupported(f"call of a value that depends on an undecided test ({f.desc})")
        raise PyRaise("TypeError", f"object {f!r} is not callable")

    def instantiate(self, cls, *args, **kwargs):
        """cls(*args, **kwargs): a fresh instance initialised by the class's own __init__"""
        if self.guards:
            raise Unsupported("instantiation under an undecided test")
        record = None
        for b in cls.node.bases:
            bv = self.eval(b, cls.closure) if cls.closure is not None else self.eval_in_module(cls.module, b)
            if isinstance(bv, Opaque) and bv.name in ("typing.NamedTuple", "NamedTuple"):
                record = "namedtuple"
            elif not isinstance(bv, ClassRef) and not (isinstance(bv, Opaque) and bv.name == "object"):
                raise Unsupported(f"instantiation of {cls.name}: base class {ast.unparse(b)} is outside the repository")
        for dec in cls.node.decorator_list:
            d = ast.unparse(dec.func if isinstance(dec, ast.Call) else dec).rsplit(".", 1)[-1]
            if d == "dataclass" and not (isinstance(dec, ast.Call) and dec.keywords):
                record = record or "dataclass"
            else:
                raise Unsupported(f"class decorator @{ast.unparse(dec)}")
        c, fn = cls.find(self, "__init__")
        if record and fn is None:
            # a record class: one field per annotated name of the class body, in order, with its default
            fields = []
            for k_ in cls.mro(self)[::-1]:
                for st in k_.node.body:
                    if isinstance(st, ast.AnnAssign) and isinstance(st.target, ast.Name):
                        if isinstance(st.value, ast.Call):
                            raise Unsupported("record field with a computed default")
                        fields.append((st.target.id, _MISSING if st.value is None else self.eval_in_module(k_.module, st.value)))
            names = [f for f, _d in fields]
            if len(args) > len(names) or any(k_ not in names for k_ in kwargs):
                raise PyRaise("TypeError", f"{cls.name}(): unexpected argument")
            vals = dict(zip(names, args))
            for k_, v_ in kwargs.items():
                if k_ in vals:
                    raise PyRaise("TypeError", f"{cls.name}(): multiple values for {k_}")
                vals[k_] = v_
            for f, d in fields:
                if f not in vals:
                    if d is _MISSING:
                        raise PyRaise("TypeError", f"{cls.name}(): missing argument {f}")
                    vals[f] = d
            if record == "namedtuple":
                import collections
                return collections.namedtuple(cls.name, names)(*[vals[f] for f in names])
            obj = Obj(cls, f"{cls.name} instance", **{f: vals[f] for f in names})
            obj.complete = True
            return obj
        obj = Obj(cls, f"{cls.name} instance")
        obj.complete = True
        if fn is not None:
            self.call(Bound(obj, self.make_func(fn, c.module, None, c)), list(args), dict(kwargs), None)
        elif args or kwargs:
            raise PyRaise("TypeError", f"{cls.name}() takes no arguments")
        return obj

    def _override(self, obj, func):
        if not isinstance(obj, Obj):
            return None
        q = f"{func.cls.name}.{func.name}" if func.cls else func.name
        return obj.overrides.get(q) or obj.overrides.get(func.name) or self.overrides.get(q) or self.overrides.get(func.name)

    def call_func(self, func, args, kwargs, selfobj):
        env = self.bind(func, args, kwargs)
        q = getattr(func.node, "_vqual", None)
        if q:
            self.ctx.src.funcs_consulted.add(f"{func.module.rel}:{q}")
        if selfobj is None and func.cls is not None and args:
            selfobj = args[0]
        self.trace.append(f"{func.cls.name}.{func.name}" if func.cls is not None else func.name)
        is_gen = getattr(func.node, "_c17_gen", None)
        if is_gen is None:
            is_gen = func.node._c17_gen = any(isinstance(n, (ast.Yield, ast.YieldFrom)) for n in _walk_own(func.node))
        if is_gen:
            if self.guards:
                raise Unsupported("generator created under an undecided test")
            fr = Frame(func.module, env, func.closure, func.cls, selfobj, func)
            fr.gen = GenDriver(self, func, fr)
            return PyIter(fr.gen)
        fr = Frame(func.module, env, func.closure, func.cls, selfobj, func)
        self.depth += 1
        if self.depth > 40:
            raise Unsupported("recursion too deep")
        try:
            self.exec_block(func.node.body, fr)
            r = None
        except _Return as e:
            r = e.value
        finally:
            self.depth -= 1
        self.calls.append((self.tick(), "def:" + func.name, list(args), dict(kwargs), r))
        return r

    # ---- attributes
    def _method(self, owner, c, fn, cls_of_owner):
        """a function found in a class body, as seen through an instance (owner = Obj) or through the class (owner = ClassRef): the
        descriptors the standard decorators make"""
        kind = None
        for dec in fn.decorator_list:
            d = ast.unparse(dec)
            last = d.rsplit(".", 1)[-1]
            if last in ("property", "staticmethod", "classmethod", "cached_property") and kind is None:
                kind = last
            elif last in ("njit", "jit", "wraps") or d.startswith(("numba.", "functools.wraps")):
                continue                                  # does not change what the function computes
            elif last in ("setter", "deleter"):
                raise Unsupported(f"property {last}")
            else:
                raise Unsupported(f"decorator @{d}")
        f = self.make_func(fn, c.module, None, c)
        if kind == "staticmethod":
            return f
        if kind == "classmethod":
            return Bound(cls_of_owner, f)
        if isinstance(owner, ClassRef):
            if kind in ("property", "cached_property"):
                raise Unsupported("property read through the class")
            return f
        if kind == "property":
            return self.call_func(f, [owner], {}, owner)
        if kind == "cached_property":
            r = self.call_func(f, [owner], {}, owner)
            if self.guards:
                raise Unsupported("cached_property first read under an undecided test")
            owner.attrs[fn.name] = r
            return r
        return Bound(owner, f)

    def getattr(self, v, name, node):
        if isinstance(v, Obj):
            if name in v.attrs:
                return v.attrs[name]
            if v.cls is not None:
                c, fn = v.cls.find(self, name)
                if fn is not None:
                    if fn.decorator_list:
                        return self._method(v, c, fn, v.cls)
                    return Bound(v, self.make_func(fn, c.module, None, c))
                for c in v.cls.mro(self):
                    for st in c.node.body:
                        if isinstance(st, ast.Assign) and any(isinstance(t, ast.Name) and t.id == name for t in st.targets):
                            return self.eval_in_module(c.module, st.value)
            if name in v.overrides:
                return Builtin(name, v.overrides[name])
            if name == "__class__" and v.cls is not None:
                return v.cls
            if name == "__dict__":
                return v.attrs
            if v.complete or name in v.absent or (v.cls is not None and not self._ever_assigned(v.cls, name)):
                raise PyRaise("AttributeError", f"{v.label} has no attribute {name}")
            raise PyRaise("AttributeError", f"{v.label} has no attribute {name} (not configured by the rule)", genuine=False)
        if isinstance(v, SuperProxy):
            if v.obj.cls is None:
                raise Unsupported("super() without a class")
            c, fn = v.obj.cls.find(self, name, after=v.cls)
            if fn is None:
                raise PyRaise("AttributeError", f"super(): no method {name}")
            if fn.decorator_list:
                return self._method(v.obj, c, fn, v.obj.cls)
            return Bound(v.obj, self.make_func(fn, c.module, None, c))
        if isinstance(v, ModuleEnv):
            full = v.rel[:-3].replace("/", ".") + "." + name
            if full in self.stubs or name in self.stubs:
                return Builtin(full, self.stubs.get(full) or self.stubs[name])
            r = v.lookup(name)
            if r is _MISSING:
                raise PyRaise("AttributeError", f"module {v.rel} has no attribute {name}", genuine=False)
            return r
        if isinstance(v, ModRef):
            return self.external(v.name + "." + name)
        if isinstance(v, NDArr):
            if name == "T":
                return v.T
            if name == "shape":
                return v.shape
            if name == "ndim":
                return v.ndim
            if name == "size":
                return v.size
            if name == "real":
                return v
            if name == "dtype":
                return "bool" if v.is_bool() else ("int" if v.size and all(isinstance(x, int) for x in v.flat()) else "float")
            if name in ARRAY_METHODS:
                return Builtin("ndarray." + name, lambda it, a, k, _m=ARRAY_METHODS[name], _v=v: _m(it, _v, a, k))
            raise Unsupported(f"ndarray.{name}")
        if isinstance(v, dict):
            if name in DICT_METHODS:
                def dmeth(it, a, k, _m=DICT_METHODS[name], _v=v, _n=name):
                    if it.guards and _n in ("update", "setdefault", "pop"):
                        raise Unsupported("dictionary changed under an undecided test")
                    return _m(_v, a, k)
                return Builtin("dict." + name, dmeth)
            if not hasattr(dict, name):
                raise PyRaise("AttributeError", f"'dict' object has no attribute '{name}'")
            raise Unsupported(f"dict.{name}")
        if isinstance(v, list):
            if name in ("append", "extend"):
                def lmeth(it, a, k, _v=v, _n=name):
                    if it.guards:
                        raise Unsupported("list changed under an undecided test")
                    return _v.append(a[0]) if _n == "append" else _v.extend(it.iterate(a[0]))
                return Builtin("list." + name, lmeth)
            if name == "index":
                return Builtin("list.index", lambda it, a, k, _v=v: [_hashable(x) for x in _v].index(_hashable(a[0])))
            if not hasattr(list, name):
                raise PyRaise("AttributeError", f"'list' object has no attribute '{name}'")
            raise Unsupported(f"list.{name}")
        if isinstance(v, tuple):
            if name in getattr(v, "_fields", ()):
                return getattr(v, name)
            if name == "_replace" and hasattr(v, "_fields"):
                return Builtin("namedtuple._replace", lambda it, a, k, _v=v: _v._replace(**k))
            if name == "_asdict" and hasattr(v, "_fields"):
                return Builtin("namedtuple._asdict", lambda it, a, k, _v=v: dict(_v._asdict()))
            if name == "index":
                return Builtin("tuple.index", lambda it, a, k, _v=v: [_hashable(x) for x in _v].index(_hashable(a[0])))
            if not hasattr(tuple, name):
                raise PyRaise("AttributeError", f"'tuple' object has no attribute '{name}'")
            raise Unsupported(f"tuple.{name}")
        if isinstance(v, str):
            if name in ("format", "join", "strip", "lstrip", "rstrip", "lower", "upper", "replace", "startswith", "endswith", "split", "title"):
                def smeth(it, a, k, _v=v, _n=name):
                    """a string method: computed when the text and every argument are known strings / integers, else a placeholder"""
                    plain = lambda x: (isinstance(x, str) and "<str>" not in x) or (isinstance(x, int) and not isinstance(x, bool))
                    if _n == "join" and len(a) == 1:
                        try:
                            a = [it.iterate(a[0])]
                        except Unsupported:
                            return "<str>"
                        if plain(_v) and all(isinstance(x, str) and "<str>" not in x for x in a[0]):
                            return _v.join(a[0])
                        return "<str>"
                    if plain(_v) and all(plain(x) for x in a) and all(plain(x) for x in k.values()):
                        try:
                            return getattr(_v, _n)(*a, **k)
                        except Exception:     # noqa: a malformed format string is the analysed program's business, not a verdict
                            return "<str>"
                    if _n in ("startswith", "endswith", "split"):
                        raise Unsupported(f"str.{_n} of a computed string")
                    return "<str>"
                return Builtin("str." + name, smeth, lenient=True)
            raise Unsupported(f"str.{name}")
        if isinstance(v, Rat) or (isinstance(v, int) and not isinstance(v, bool)):
            if name == "real":
                return v
            if name == "ndim":
                return 0
            if name == "shape":
                return ()
            if name in ("copy", "conj", "item"):
                return Builtin("scalar." + name, lambda it, a, k, _v=v: _v)
            raise Unsupported(f"attribute {name} of a scalar")
        if isinstance(v, Und):
            raise Unsupported(f"attribute of a value that depends on an undecided test ({v.desc})")
        if isinstance(v, ClassRef):
            if name in ("__name__", "__qualname__"):
                return v.name
            c, fn = v.find(self, name)
            if fn is not None:
                if fn.decorator_list:
                    return self._method(v, c, fn, v)
                return self.make_func(fn, c.module, None, c)
            for c in v.mro(self):
                for st in c.node.body:
                    if isinstance(st, ast.Assign) and any(isinstance(t, ast.Name) and t.id == name for t in st.targets):
                        return self.eval_in_module(c.module, st.value)
            raise PyRaise("AttributeError", f"class {v.name} has no attribute {name}")
        if isinstance(v, PyIter):
            if name == "send" and isinstance(v.it, GenDriver):
                return Builtin("generator.send", lambda it, a, k, _g=v.it: _gen_send(_g, a[0]))
            if name == "close":
                return Builtin("generator.close", lambda it, a, k: None)
            raise Unsupported(f"iterator attribute {name}")
        if isinstance(v, (Func, Bound)) and name in ("__name__", "__qualname__"):
            return (v.func if isinstance(v, Bound) else v).name
        if isinstance(v, Opaque):
            return Opaque(v.name + "." + name)
        if v is None:
            raise PyRaise("AttributeError", f"None has no attribute {name}")
        raise Unsupported(f"attribute {name} of {type(v).__name__}")

    def _ever_assigned(self, cls, name):
        """is `<x>.name` assigned anywhere in the modules of the class hierarchy (or a method / class attribute of it)?"""
        for c in cls.mro(self):
            c.module._load()
            for n in ast.walk(c.module.tree):
                if isinstance(n, ast.Attribute) and n.attr == name and isinstance(n.ctx, ast.Store):
                    return True
                if isinstance(n, ast.Call) and isinstance(n.func, ast.Name) and n.func.id == "setattr":
                    return True
            for st in c.node.body:
                if isinstance(st, ast.Assign) and any(isinstance(t, ast.Name) and t.id == name for t in st.targets):
                    return True
        return False

    def setattr(self, v, name, val):
        if isinstance(v, Obj):
            if self.guards:
                old = v.attrs.get(name, _MISSING)
                val = self._merge(val, old)
            v.attrs[name] = val
            v.attr_log.append((self.tick(), name, val))
            return
        raise Unsupported(f"attribute store on {type(v).__name__}")

    def _merge(self, new, old):
        g = " and ".join(self.guards)
        if new is old:
            return new
        if old is _MISSING:
            return Und(f"bound only under {g}")
        if is_num(new) and is_num(old):
            return cond_val(g, new, old)
        if isinstance(new, NDArr) and isinstance(old, NDArr) and new.shape == old.shape:
            return NDArr.new(new.shape, [x if s_equal(x, y) else cond_val(g, x, y) for x, y in zip(new.flat(), old.flat())])
        return Und(f"bound under {g}")

    # ---- stores
    def store_elem(self, store, i, val, node):
        if isinstance(val, Und):
            pass
        elif not is_num(val) and not isinstance(val, bool):
            raise Unsupported(f"array element of type {type(val).__name__}")
        if self.guards:
            val = cond_val(" and ".join(self.guards), val, store.data[i])
        store.data[i] = val
        store.log.append((self.tick(), i, val, node))

    def assign_index(self, base, key, val, node):
        if isinstance(base, NDArr):
            view, el = base.index(key)
            if view is None:
                if isinstance(val, NDArr):
                    if val.size != 1:
                        raise PyRaise("ValueError", "setting an array element with a sequence")
                    val = val.flat()[0]
                self.store_elem(base.st, el, val, node)
                return
            if isinstance(val, (tuple, list)):
                val = to_array(val)
            if isinstance(val, NDArr):
                if _broadcast(view.shape, val.shape) != view.shape:
                    raise PyRaise("ValueError", f"could not broadcast {val.shape} into {view.shape}")
            ents = _bc_entries(val, view.shape)
            for i, e in zip(view.ix, ents):
                self.store_elem(base.st, i, e, node)
            return
        if isinstance(base, dict):
            if self.guards:
                raise Unsupported("dictionary store under an undecided test")
            base[_hashable(key)] = val
            self.tick()
            return
        if isinstance(base, list):
            if self.guards:
                raise Unsupported("list store under an undecided test")
            base[_as_int(key)] = val
            return
        raise Unsupported(f"subscript store on {type(base).__name__}")

    def bind_name(self, frame, name, val):
        scope = getattr(frame, "scopes", None)
        if scope and name in scope:
            if scope[name] == "global":
                if self.guards:
                    raise Unsupported("global assigned under an undecided test")
                frame.module.globals[name] = val
                return
            fr = frame.parent
            while fr is not None and name not in fr.locals:
                fr = fr.parent
            if fr is None:
                raise PyRaise("SyntaxError", f"no binding for nonlocal {name}")
            frame = fr
        if self.guards:
            val = self._merge(val, frame.locals.get(name, _MISSING))
        frame.locals[name] = val

    def assign(self, target, val, frame, node):
        if isinstance(target, ast.Name):
            self.bind_name(frame, target.id, val)
        elif isinstance(target, ast.Attribute):
            self.setattr(self.eval(target.value, frame), target.attr, val)
        elif isinstance(target, ast.Subscript):
            base = self.eval(target.value, frame)
            key = self.eval_index(target.slice, frame)
            self.assign_index(base, key, val, node)
        elif isinstance(target, (ast.Tuple, ast.List)):
            items = self.iterate(val)
            stars = [i for i, t in enumerate(target.elts) if isinstance(t, ast.Starred)]
            if stars:
                if len(stars) > 1:
                    raise Unsupported("two starred assignment targets")
                k, after = stars[0], len(target.elts) - stars[0] - 1
                if len(items) < len(target.elts) - 1:
                    raise PyRaise("ValueError", "unpacking: not enough values")
                for t, x in zip(target.elts[:k], items[:k]):
                    self.assign(t, x, frame, node)
                self.assign(target.elts[k].value, list(items[k:len(items) - after]), frame, node)
                for t, x in zip(target.elts[k + 1:], items[len(items) - after:]):
                    self.assign(t, x, frame, node)
                return
            if len(items) != len(target.elts):
                raise PyRaise("ValueError", "unpacking: wrong number of values")
            for t, x in zip(target.elts, items):
                self.assign(t, x, frame, node)
        else:
            raise Unsupported(f"assignment target {type(target).__name__}")

    # ---- iteration
    def iterate(self, v):
        if isinstance(v, (tuple, list)):
            return list(v)
        if isinstance(v, range):
            return list(v)
        if isinstance(v, dict):
            return list(v.keys())
        if isinstance(v, NDArr):
            if v.ndim == 0:
                raise PyRaise("TypeError", "iteration over a 0-d array")
            return [v[i] for i in range(v.shape[0])]
        if isinstance(v, PyIter):
            return list(v.it)
        if isinstance(v, LU):
            return list(lu_parts(v))
        if isinstance(v, Und):
            raise Unsupported(f"iteration over a value that depends on an undecided test ({v.desc})")
        if v is None or isinstance(v, (bool, int, Rat)) or (isinstance(v, Opaque) and v.inert):
            raise PyRaise("TypeError", f"{v!r} is not iterable")
        raise Unsupported(f"iteration over {type(v).__name__}")

    def iter(self, v):
        """a Python-side iterator over an interpreted iterable; iterators are consumed lazily"""
        if isinstance(v, PyIter):
            return v.it
        return iter(self.iterate(v))

    # ---- truth
    def truth(self, v):
        if isinstance(v, Und):
            return v
        if isinstance(v, bool):
            return v
        if v is None:
            return False
        if isinstance(v, int):
            return v != 0
        if isinstance(v, Rat):
            if v.is_const():
                return v.const_value() != 0
            if self.nonzero and len(v.n.t) == 1 and len(v.d.t) == 1 and all(str(a) in self.nonzero for a in _atoms_of(v)):
                return True          # a monomial in symbols the rule declared non-zero (the time step)
            return Und(f"truth of {v!r}")
        if isinstance(v, (tuple, list, dict, str, range)):
            return len(v) > 0
        if isinstance(v, LUPart):
            raise PyRaise("ValueError", "truth value of an array is ambiguous")
        if isinstance(v, NDArr):
            if v.size == 1:
                return self.truth(v.flat()[0])
            raise PyRaise("ValueError", "truth value of an array is ambiguous")
        return True

    # ---- statements
    def exec_block(self, stmts, frame):
        for st in stmts:
            self.exec(st, frame)

    def exec(self, st, frame):
        self.steps += 1
        if self.steps > self.MAX_STEPS:
            raise Unsupported("evaluation budget exhausted (unbounded loop?)")
        if isinstance(st, ast.Assign):
            v = self.eval(st.value, frame)
            for t in st.targets:
                self.assign(t, v, frame, st)
        elif isinstance(st, ast.AnnAssign):
            if st.value is not None:
                self.assign(st.target, self.eval(st.value, frame), frame, st)
        elif isinstance(st, ast.AugAssign):
            self.exec_aug(st, frame)
        elif isinstance(st, ast.Expr):
            if not (isinstance(st.value, ast.Constant)):
                self.eval(st.value, frame)
        elif isinstance(st, ast.If):
            t = self.truth(self.eval(st.test, frame))
            if t is True:
                self.exec_block(st.body, frame)
            elif t is False:
                self.exec_block(st.orelse, frame)
            else:
                self.exec_may(t, st.body, st.orelse, frame)
        elif isinstance(st, ast.For):
            self.exec_for(st, frame)
        elif isinstance(st, ast.While):
            self.exec_while(st, frame)
        elif isinstance(st, ast.Return):
            if self.guards:
                raise Unsupported("return under an undecided test")
            raise _Return(None if st.value is None else self.eval(st.value, frame))
        elif isinstance(st, ast.Pass):
            pass
        elif isinstance(st, ast.Break):
            if self.guards:
                raise Unsupported("break under an undecided test")
            raise _Break()
        elif isinstance(st, ast.Continue):
            if self.guards:
                raise Unsupported("continue under an undecided test")
            raise _Continue()
        elif isinstance(st, ast.FunctionDef):
            if st.decorator_list:
                raise Unsupported(f"decorated local function {st.name}")
            self.bind_name(frame, st.name, self.make_func(st, frame.module, frame, frame.cls))
        elif isinstance(st, ast.ClassDef):
            if st.keywords:
                raise Unsupported(f"local class {st.name} with keywords")      # decorators are looked at when the class is instantiated
            self.bind_name(frame, st.name, ClassRef(frame.module, st, closure=frame))
        elif isinstance(st, ast.Raise):
            if self.guards:
                raise Unsupported("raise under an undecided test")
            name = "Exception"
            if st.exc is not None:
                e = st.exc.func if isinstance(st.exc, ast.Call) else st.exc
                name = e.id if isinstance(e, ast.Name) else ast.unparse(e)
            raise PyRaise(name, "raised by the code under analysis at line %s" % getattr(st, "lineno", "?"))
        elif isinstance(st, ast.Try):
            self.exec_try(st, frame)
        elif isinstance(st, ast.Assert):
            pass
        elif isinstance(st, ast.With):
            for item in st.items:
                v = self.eval(item.context_expr, frame)
                if item.optional_vars is not None:
                    self.assign(item.optional_vars, v, frame, st)
            self.exec_block(st.body, frame)
        elif isinstance(st, ast.Import):
            for al in st.names:
                if al.asname:
                    self.bind_name(frame, al.asname, frame.module._ext(al.name))
                else:
                    top = al.name.split(".")[0]
                    self.bind_name(frame, top, frame.module._ext(top))
        elif isinstance(st, ast.ImportFrom):
            for al in st.names:
                self.bind_name(frame, al.asname or al.name, frame.module._define(al.name, ("from", st.level, st.module or "", al.name)))
        elif isinstance(st, (ast.Global, ast.Nonlocal)):
            if getattr(frame, "scopes", None) is None:
                frame.scopes = {}
            for nm in st.names:
                frame.scopes[nm] = "global" if isinstance(st, ast.Global) else "nonlocal"
        elif isinstance(st, ast.Delete):
            for t in st.targets:
                for t1 in (t.elts if isinstance(t, (ast.Tuple, ast.List)) else [t]):
                    if self.guards:
                        raise Unsupported("del under an undecided test")
                    if isinstance(t1, ast.Name):
                        frame.locals.pop(t1.id, None)
                    elif isinstance(t1, ast.Attribute):
                        o = self.eval(t1.value, frame)
                        if not isinstance(o, Obj):
                            raise Unsupported("del of an attribute of a non-object")
                        if t1.attr not in o.attrs:
                            raise PyRaise("AttributeError", f"{o.label} has no attribute {t1.attr}")
                        del o.attrs[t1.attr]
                    elif isinstance(t1, ast.Subscript) and isinstance(self.eval(t1.value, frame), dict):
                        self.eval(t1.value, frame).pop(_hashable(self.eval_index(t1.slice, frame)), None)
                    else:
                        raise Unsupported("del of a non-name")
        else:
            raise Unsupported(f"statement {type(st).__name__}")

    def exec_may(self, t, body, orelse, frame):
        for arm, neg in ((body, False), (orelse, True)):
            if not arm:
                continue
            self.guards.append(("not " if neg else "") + t.desc)
            try:
                self.exec_block(arm, frame)
            except (_Return, _Break, _Continue):
                raise Unsupported("control transfer under an undecided test")
            finally:
                self.guards.pop()

    def exec_aug(self, st, frame):
        op = BINOPS.get(type(st.op))
        if op is None:
            raise Unsupported(f"augmented operator {type(st.op).__name__}")
        t = st.target
        if isinstance(t, ast.Name):
            cur = self.lookup(t.id, frame)
            v = self.eval(st.value, frame)
            if isinstance(cur, NDArr):
                self._inplace(cur, op, v, st)          # in-place: views and aliases see the change
            else:
                self.bind_name(frame, t.id, self.binop(op, cur, v))
        elif isinstance(t, ast.Attribute):
            obj = self.eval(t.value, frame)
            cur = self.getattr(obj, t.attr, t)
            v = self.eval(st.value, frame)
            if isinstance(cur, NDArr):
                self._inplace(cur, op, v, st)
            else:
                self.setattr(obj, t.attr, self.binop(op, cur, v))
        elif isinstance(t, ast.Subscript):
            base = self.eval(t.value, frame)
            key = self.eval_index(t.slice, frame)
            cur = self.index(base, key)
            v = self.eval(st.value, frame)
            self.assign_index(base, key, self.binop(op, cur, v), st)
        else:
            raise Unsupported("augmented assignment target")

    def _inplace(self, arr, op, v, node):
        res = self.binop(op, arr, v)
        if not isinstance(res, NDArr) or res.shape != arr.shape:
            raise PyRaise("ValueError", "in-place operation changes the shape")
        for i, e in zip(arr.ix, res.flat()):
            self.store_elem(arr.st, i, e, node)

    def _inplace_set(self, arr, res):
        ents = _bc_entries(res, arr.shape) if not isinstance(res, NDArr) or _broadcast(arr.shape, res.shape) == arr.shape else None
        if ents is None:
            raise PyRaise("ValueError", "output operand does not have the right shape")
        for i, e in zip(arr.ix, ents):
            self.store_elem(arr.st, i, e, None)

    def exec_for(self, st, frame):
        items = self.iter(self.eval(st.iter, frame))
        broke = False
        for x in items:
            self.assign(st.target, x, frame, st)
            try:
                self.exec_block(st.body, frame)
            except _Break:
                broke = True
                break
            except _Continue:
                continue
        if not broke:
            self.exec_block(st.orelse, frame)

    def exec_while(self, st, frame):
        broke = False
        while True:
            self.steps += 1
            if self.steps > self.MAX_STEPS:
                raise Unsupported("evaluation budget exhausted (unbounded loop?)")
            t = self.truth(self.eval(st.test, frame))
            if isinstance(t, Und):
                raise Unsupported(f"loop test depends on data: {t.desc}")
            if not t:
                break
            try:
                self.exec_block(st.body, frame)
            except _Break:
                broke = True
                break
            except _Continue:
                continue
        if not broke:
            self.exec_block(st.orelse, frame)

    def exec_try(self, st, frame):
        try:
            try:
                self.exec_block(st.body, frame)
            except PyRaise as e:
                for h in st.handlers:
                    names = []
                    if h.type is None:
                        names = None
                    elif isinstance(h.type, ast.Tuple):
                        names = [ast.unparse(x).split(".")[-1] for x in h.type.elts]
                    else:
                        names = [ast.unparse(h.type).split(".")[-1]]
                    if names is None or e.name.split(".")[-1] in names or "Exception" in names or "BaseException" in names:
                        if h.name:
                            frame.locals[h.name] = Opaque("exception:" + e.name)
                        self.exec_block(h.body, frame)
                        break
                else:
                    raise
            else:
                self.exec_block(st.orelse, frame)
        finally:
            if st.finalbody:
                self.exec_block(st.finalbody, frame)

    # ---- expressions
    def lookup(self, name, frame):
        fr = frame
        if getattr(frame, "scopes", None) and frame.scopes.get(name) == "global":
            fr = None
        while fr is not None:
            if name in fr.locals:
                return fr.locals[name]
            fr = fr.parent
        v = frame.module.lookup(name)
        if v is not _MISSING:
            return v
        if name in PY_BUILTINS:
            return PY_BUILTINS[name]
        import builtins
        if hasattr(builtins, name):
            raise Unsupported(f"builtin {name} (no model)")
        raise PyRaise("NameError", f"name {name} is not defined")

    def eval_index(self, sl, frame):
        if isinstance(sl, ast.Tuple):
            return tuple(self.eval_index(e, frame) for e in sl.elts)
        if isinstance(sl, ast.Slice):
            def part(p):
                if p is None:
                    return None
                v = self.eval(p, frame)
                return None if v is None else _as_int(v)
            return slice(part(sl.lower), part(sl.upper), part(sl.step))
        return self.eval(sl, frame)

    def index(self, base, key):
        if isinstance(base, NDArr):
            if isinstance(key, tuple) and any(isinstance(k, tuple) for k in key):
                raise Unsupported("nested index tuple")
            a, el = base.index(key)
            if a is None:
                return base.st.data[el]
            if isinstance(key, tuple) and any(isinstance(k, (NDArr, list)) for k in key) or isinstance(key, (NDArr, list)):
                return a.copy()
            return a
        if isinstance(base, (tuple, list, range)):
            if isinstance(key, slice):
                return base[slice(_opt_int(key.start), _opt_int(key.stop), _opt_int(key.step))]
            try:
                return base[_as_int(key)]
            except IndexError:
                raise PyRaise("IndexError", "sequence index out of range")
        if isinstance(base, dict):
            k = _hashable(key)
            if k not in base:
                raise PyRaise("KeyError", repr(k))
            return base[k]
        if isinstance(base, LU):
            return self.index(lu_parts(base), key)
        if isinstance(base, IndexMaker):
            return key
        if isinstance(base, Und):
            raise Unsupported(f"subscript of a value that depends on an undecided test ({base.desc})")
        if base is None or isinstance(base, (bool, int, Rat)) or (isinstance(base, Opaque) and base.inert):
            raise PyRaise("TypeError", f"{base!r} is not subscriptable")
        raise Unsupported(f"subscript of {type(base).__name__}")

    def binop(self, op, a, b):
        if op == "@":
            return matmul(a, b)
        if isinstance(a, (tuple, list)) and isinstance(b, (tuple, list)) and op == "+":
            return a + b
        if isinstance(a, str) or isinstance(b, str):
            if op == "+" and isinstance(a, str) and isinstance(b, str) and "<str>" not in a and "<str>" not in b:
                return a + b                  # plain concatenation of known strings (attribute names built from parts)
            if op == "*" and isinstance(a, str) and isinstance(b, int) and "<str>" not in a:
                return a * b
            return "<str>"
        return ew_bin(op, a, b)

    def eval(self, node, frame):
        self.steps += 1
        if self.steps > self.MAX_STEPS:
            raise Unsupported("evaluation budget exhausted")
        if isinstance(node, ast.Constant):
            v = node.value
            if isinstance(v, bool) or v is None or isinstance(v, (str, int)) or v is Ellipsis:
                return v
            if isinstance(v, float):
                txt = ast.get_source_segment(frame.module.tree._c17_source, node) if getattr(frame.module, "tree", None) is not None else None
                try:
                    return F.const(Fraction(txt.replace("_", ""))) if txt else F.const(const_from_node(node, None))
                except (ValueError, ZeroDivisionError):
                    return F.const(const_from_node(node, None))
            raise Unsupported(f"constant {v!r}")
        if isinstance(node, ast.Name):
            return self.lookup(node.id, frame)
        if isinstance(node, ast.Attribute):
            return self.getattr(self.eval(node.value, frame), node.attr, node)
        if isinstance(node, ast.Subscript):
            return self.index(self.eval(node.value, frame), self.eval_index(node.slice, frame))
        if isinstance(node, ast.BinOp):
            op = BINOPS.get(type(node.op))
            if op is None:
                raise Unsupported(f"operator {type(node.op).__name__}")
            a = self.eval(node.left, frame)
            b = self.eval(node.right, frame)
            return self.binop(op, a, b)
        if isinstance(node, ast.UnaryOp):
            v = self.eval(node.operand, frame)
            if isinstance(node.op, ast.USub):
                return ew_bin("-", 0, v)
            if isinstance(node.op, ast.UAdd):
                return v
            if isinstance(node.op, ast.Not):
                t = self.truth(v)
                return Und("not " + t.desc) if isinstance(t, Und) else (not t)
            raise Unsupported("unary operator")
        if isinstance(node, ast.BoolOp):
            is_and = isinstance(node.op, ast.And)
            und = None
            last = None
            for e in node.values:
                last = self.eval(e, frame)
                t = self.truth(last)
                if isinstance(t, Und):
                    und = t if und is None else Und(f"{und.desc} {'and' if is_and else 'or'} {t.desc}")
                    continue
                if is_and and not t:
                    return last if und is None else False
                if not is_and and t:
                    return last if und is None else True
            return und if und is not None else last
        if isinstance(node, ast.Compare):
            left = self.eval(node.left, frame)
            res = True
            for op, rn in zip(node.ops, node.comparators):
                right = self.eval(rn, frame)
                r = self.compare(op, left, right)
                if isinstance(r, Und):
                    return r
                if isinstance(r, NDArr):
                    if len(node.ops) != 1:
                        raise PyRaise("ValueError", "truth value of an array is ambiguous")
                    return r
                if not r:
                    return False
                left = right
            return res
        if isinstance(node, ast.IfExp):
            t = self.truth(self.eval(node.test, frame))
            if t is True:
                return self.eval(node.body, frame)
            if t is False:
                return self.eval(node.orelse, frame)
            a, b = self.eval(node.body, frame), self.eval(node.orelse, frame)
            self.guards.append(t.desc)
            try:
                return self._merge(a, b)
            finally:
                self.guards.pop()
        if isinstance(node, ast.Call):
            return self.eval_call(node, frame)
        if isinstance(node, ast.Tuple):
            return tuple(self.eval(e, frame) for e in node.elts)
        if isinstance(node, ast.List):
            return [self.eval(e, frame) for e in node.elts]
        if isinstance(node, ast.Dict):
            out = {}
            for k, v in zip(node.keys, node.values):
                if k is None:
                    out.update(self.eval(v, frame))
                else:
                    out[_hashable(self.eval(k, frame))] = self.eval(v, frame)
            return out
        if isinstance(node, ast.JoinedStr):
            parts = []
            for v in node.values:
                if isinstance(v, ast.Constant) and isinstance(v.value, str):
                    parts.append(v.value)
                elif isinstance(v, ast.FormattedValue) and v.format_spec is None and v.conversion == -1:
                    try:
                        x = self.eval(v.value, frame)
                    except (Unsupported, PyRaise):
                        return "<str>"
                    if (isinstance(x, str) and "<str>" not in x) or (isinstance(x, int) and not isinstance(x, bool)):
                        parts.append(str(x))
                    else:
                        return "<str>"
                else:
                    return "<str>"
            return "".join(parts)
        if isinstance(node, ast.Slice):
            return self.eval_index(node, frame)
        if isinstance(node, ast.Lambda):
            fd = ast.FunctionDef(name="<lambda>", args=node.args, body=[ast.Return(value=node.body)], decorator_list=[], lineno=node.lineno)
            return self.make_func(fd, frame.module, frame, frame.cls)
        if isinstance(node, (ast.ListComp, ast.GeneratorExp, ast.DictComp, ast.SetComp)):
            return self.eval_comp(node, frame)
        if isinstance(node, ast.Starred):
            raise Unsupported("starred expression")
        if isinstance(node, ast.Yield):
            fr = frame
            while fr is not None and fr.gen is None:
                fr = fr.parent if fr.func is None else None
            if fr is None:
                raise Unsupported("yield outside a generator function")
            if self.guards:
                raise Unsupported("yield under an undecided test")
            return fr.gen.emit(None if node.value is None else self.eval(node.value, frame))
        if isinstance(node, ast.NamedExpr):
            v = self.eval(node.value, frame)
            self.assign(node.target, v, frame, node)
            return v
        if isinstance(node, ast.Set):
            return [self.eval(e, frame) for e in node.elts]
        raise Unsupported(f"expression {type(node).__name__}")

    def eval_comp(self, node, frame):
        if any(g.is_async for g in node.generators):
            raise Unsupported("async comprehension")
        fr = Frame(frame.module, {}, frame, frame.cls, frame.selfobj, None)
        source = self.iter(self.eval(node.generators[0].iter, frame))        # the outermost iterable is evaluated at once, as in CPython

        def produce(level=0, src=source):
            g = node.generators[level]
            for x in (src if level == 0 else self.iter(self.eval(g.iter, fr))):
                self.assign(g.target, x, fr, node)
                ok = True
                for c in g.ifs:
                    t = self.truth(self.eval(c, fr))
                    if isinstance(t, Und):
                        raise Unsupported("comprehension filter depends on data")
                    ok = ok and t
                if not ok:
                    continue
                if level + 1 < len(node.generators):
                    yield from produce(level + 1)
                elif isinstance(node, ast.DictComp):
                    yield (_hashable(self.eval(node.key, fr)), self.eval(node.value, fr))
                else:
                    yield self.eval(node.elt, fr)
        if isinstance(node, ast.GeneratorExp):
            return PyIter(produce())                        # lazy: one element per next()
        if isinstance(node, ast.DictComp):
            return dict(produce())
        return list(produce())

    def compare(self, op, a, b):
        if isinstance(op, (ast.Is, ast.IsNot)):
            if a is None or b is None or isinstance(a, bool) or isinstance(b, bool):
                r = a is b
            elif isinstance(a, (Builtin, Obj, Opaque, NDArr, dict, list, ClassRef, Func, slice)) or \
                    isinstance(b, (Builtin, Obj, Opaque, NDArr, dict, list, ClassRef, Func, slice)):
                r = a is b
            else:
                raise Unsupported("`is` between values")
            return r if isinstance(op, ast.Is) else not r
        if isinstance(op, (ast.In, ast.NotIn)):
            if isinstance(b, (tuple, list, dict, str)):
                r = _hashable(a) in ([_hashable(x) for x in b] if not isinstance(b, (dict, str)) else b)
                return r if isinstance(op, ast.In) else not r
            raise Unsupported("`in` on a non-container")
        if isinstance(a, Und) or isinstance(b, Und):
            return a if isinstance(a, Und) else b
        if isinstance(a, NDArr) or isinstance(b, NDArr):
            if type(op) in PYCMP and all(isinstance(x, NDArr) or is_num(x) or isinstance(x, bool) for x in (a, b)):
                shape = _broadcast(a.shape if isinstance(a, NDArr) else (), b.shape if isinstance(b, NDArr) else ())
                ea, eb = _bc_entries(a, shape), _bc_entries(b, shape)
                if all(not isinstance(x, Und) and R(x).is_const() for x in ea + eb):
                    r = NDArr.new(shape, [bool(PYCMP[type(op)](R(x).const_value(), R(y).const_value())) for x, y in zip(ea, eb)])
                    r.kind = "bool"
                    return r
                if self.assume_cmp is not None:
                    r = self.assume_cmp(op, a, b)
                    if r is not None:
                        return r
            return Und(f"comparison of arrays")
        plain = (int, str, bool, tuple, type(None))
        if isinstance(a, plain) and isinstance(b, plain):
            try:
                return PYCMP[type(op)](a, b)
            except TypeError:
                raise PyRaise("TypeError", "comparison")
        if is_num(a) and is_num(b):
            ra, rb = R(a), R(b)
            if ra.is_const() and rb.is_const():
                return PYCMP[type(op)](ra.const_value(), rb.const_value())
            if isinstance(op, ast.Eq) and ra.equals(rb):
                return True
            if isinstance(op, ast.NotEq) and ra.equals(rb):
                return False
            if self.assume_cmp is not None:
                r = self.assume_cmp(op, a, b)
                if r is not None:
                    return r
            return Und(f"{ra!r} {type(op).__name__} {rb!r}")
        if isinstance(op, ast.Eq):
            return a is b
        if isinstance(op, ast.NotEq):
            return a is not b
        raise Unsupported(f"comparison of {type(a).__name__} and {type(b).__name__}")

    def eval_call(self, node, frame):
        # zero-argument super()
        if isinstance(node.func, ast.Name) and node.func.id == "super" and not node.args:
            if frame.cls is None or frame.selfobj is None:
                fr = frame
                while fr is not None and (fr.cls is None or fr.selfobj is None):
                    fr = fr.parent
                if fr is None:
                    raise Unsupported("super() outside a method")
                return SuperProxy(fr.selfobj, fr.cls)
            return SuperProxy(frame.selfobj, frame.cls)
        f = self.eval(node.func, frame)
        args = []
        for a in node.args:
            if isinstance(a, ast.Starred):
                args.extend(self.iterate(self.eval(a.value, frame)))
            else:
                args.append(self.eval(a, frame))
        kwargs = {}
        for k in node.keywords:
            v = self.eval(k.value, frame)
            if k.arg is None:
                if not isinstance(v, dict):
                    if v is None or isinstance(v, (NDArr, Rat, int, str, list, tuple)):
                        raise PyRaise("TypeError", "argument after ** must be a mapping")
                    raise Unsupported("** of a non-dictionary")
                for kk, vv in v.items():
                    kwargs[kk] = vv
            else:
                kwargs[k.arg] = v
        return self.call(f, args, kwargs, node)


def _atoms_of(v):
    """names of the symbols of a Rat (function atoms are reported as '<fn>')"""
    out = []
    for poly in (v.n, v.d):
        for m in poly.t:
            for a, _e in m:
                d = F.atom_desc(a)
                out.append(d[1] if d[0] == "s" else "<fn>")
    return out


def _gen_send(g, value):
    try:
        return g.send(value)
    except StopIteration:
        raise PyRaise("StopIteration")


def _walk_own(fn):
    """nodes of a function body without nested function definitions"""
    stack = list(fn.body)[::-1]
    while stack:
        n = stack.pop()
        yield n
        if isinstance(n, (ast.FunctionDef, ast.AsyncFunctionDef, ast.ClassDef, ast.Lambda)):
            continue
        stack.extend(list(ast.iter_child_nodes(n))[::-1])


def _hashable(k):
    if isinstance(k, Rat):
        if k.is_const() and k.const_value().denominator == 1:
            return int(k.const_value())
        return repr(k)
    if isinstance(k, list):
        return tuple(_hashable(x) for x in k)
    if isinstance(k, tuple):
        return tuple(_hashable(x) for x in k)
    return k


def to_array(v):
    """nested python sequences / scalars -> NDArr"""
    if isinstance(v, NDArr):
        return v
    if isinstance(v, (tuple, list)):
        items = [to_array(x) if isinstance(x, (tuple, list, NDArr)) else x for x in v]
        if items and all(isinstance(x, NDArr) for x in items):
            sh = items[0].shape
            if any(x.shape != sh for x in items):
                raise Unsupported("ragged array")
            return NDArr.new((len(items),) + sh, [e for x in items for e in x.flat()])
        if any(isinstance(x, NDArr) for x in items):
            raise Unsupported("ragged array")
        return NDArr.new((len(items),), items)
    if is_num(v) or isinstance(v, bool):
        return NDArr.new((), [v])
    if v is None or isinstance(v, (dict, Obj, Builtin, ClassRef, Func, Bound)) or (isinstance(v, Opaque) and v.inert):
        raise PyRaise("TypeError", f"a numeric array is expected, got {v!r}")
    raise Unsupported(f"array from {type(v).__name__}")


BINOPS = {ast.Add: "+", ast.Sub: "-", ast.Mult: "*", ast.Div: "/", ast.FloorDiv: "//", ast.Mod: "%", ast.Pow: "**", ast.MatMult: "@",
          ast.BitAnd: "&", ast.BitOr: "|"}
PYCMP = {ast.Eq: lambda a, b: a == b, ast.NotEq: lambda a, b: a != b, ast.Lt: lambda a, b: a < b, ast.LtE: lambda a, b: a <= b,
         ast.Gt: lambda a, b: a > b, ast.GtE: lambda a, b: a >= b}


# --------------------------------------------------------------------------------------------------------------------- library models
def _shape_arg(s):
    if isinstance(s, (tuple, list)):
        return tuple(_as_int(x) for x in s)
    return (_as_int(s),)


def _dtype_kind(a, k, pos=1):
    dt = a[pos] if len(a) > pos else k.get("dtype")
    if dt == "bool" or (isinstance(dt, Builtin) and dt.name == "bool"):
        return "bool"
    if isinstance(dt, Builtin) and dt.name == "complex":
        raise Unsupported("complex arrays")
    return None


def _np_zeros(it, a, k):
    kind = _dtype_kind(a, k)
    r = NDArr.full(_shape_arg(a[0] if a else k["shape"]), False if kind == "bool" else F.const(0))
    r.kind = kind
    return r


def _np_ones(it, a, k):
    kind = _dtype_kind(a, k)
    r = NDArr.full(_shape_arg(a[0] if a else k["shape"]), True if kind == "bool" else F.const(1))
    r.kind = kind
    return r


_EMPTY = [0]


def _np_empty(it, a, k):
    """uninitialised memory: every entry is a symbol of its own, so a read before a write never equals a documented value"""
    _EMPTY[0] += 1
    return NDArr.syms(f"uninit{_EMPTY[0]}", _shape_arg(a[0] if a else k["shape"]))


def _like(fn):
    def f(it, a, k):
        x = a[0]
        return fn(it, [x.shape if isinstance(x, NDArr) else ()], {})
    return f


def _np_eye(it, a, k):
    n = _as_int(a[0])
    return NDArr.new((n, n), [F.const(1) if i == j else F.const(0) for i in range(n) for j in range(n)])


def _np_diag(it, a, k):
    v = to_array(a[0])
    if v.ndim == 1:
        n = v.shape[0]
        fl = v.flat()
        return NDArr.new((n, n), [fl[i] if i == j else F.const(0) for i in range(n) for j in range(n)])
    if v.ndim == 2:
        n = min(v.shape)
        return NDArr.new((n,), [v.item(i, i) for i in range(n)])
    raise Unsupported("np.diag of a >2-d array")


def _np_transpose(it, a, k):
    v = to_array(a[0])
    axes = a[1] if len(a) > 1 else k.get("axes")
    return v.transpose(None if axes is None else [_as_int(x) for x in axes])


def _np_swapaxes(it, a, k):
    v = to_array(a[0])
    i, j = _as_int(a[1] if len(a) > 1 else k["axis1"]), _as_int(a[2] if len(a) > 2 else k["axis2"])
    ax = list(range(v.ndim))
    ax[i], ax[j] = ax[j], ax[i]
    return v.transpose(ax)


def _np_atleast(nd):
    def f(it, a, k):
        v = a[0]
        if v is None:
            raise Unsupported("atleast_nd(None)")
        v = to_array(v)
        while v.ndim < nd:
            v = v.reshape((1,) + v.shape) if nd == 2 else v.reshape((1,))
        return v
    return f


def _np_array(it, a, k):
    v = to_array(a[0])
    kind = _dtype_kind(a, k)
    if k.get("copy") is False and kind is None:
        return v
    r = v.copy()
    if kind == "bool":
        r = NDArr.new(r.shape, [it.truth(x) for x in r.flat()])
        if any(isinstance(x, Und) for x in r.flat()):
            raise Unsupported("boolean array from symbolic data")
        r.kind = "bool"
    return r


def _np_atleast_1d(it, a, k):
    one = _np_atleast(1)
    if len(a) == 1:
        return one(it, a, k)
    return [one(it, [x], k) for x in a]


def _np_nonzero(it, a, k):
    v = to_array(a[0])
    fl = v.flat()
    if any(isinstance(x, Und) or not (isinstance(x, bool) or R(x).is_const()) for x in fl):
        raise Unsupported("nonzero() of an array with symbolic entries")
    hits = [idx for idx, x in zip(itertools.product(*[range(n) for n in v.shape]), fl) if (x if isinstance(x, bool) else R(x).const_value() != 0)]
    return tuple(NDArr.new((len(hits),), [h[ax] for h in hits]) for ax in range(v.ndim))


def _np_ix(it, a, k):
    out = []
    for ax, x in enumerate(a):
        if isinstance(x, slice):
            raise PyRaise("TypeError", "np.ix_ of a slice")
        v = _mask_positions(to_array(x))
        if v.ndim != 1:
            raise PyRaise("ValueError", "np.ix_: cross index must be 1 dimensional")
        sh = [1] * len(a)
        sh[ax] = v.size
        out.append(v.copy().reshape(sh))
    return tuple(out)


def _np_diff(it, a, k):
    v = to_array(a[0])
    if v.ndim != 1:
        raise Unsupported("np.diff of a non 1-d array")
    fl = v.flat()
    return NDArr.new((max(len(fl) - 1, 0),), [s_bin("-", y, x) for x, y in zip(fl, fl[1:])])


def _np_all(it, a, k):
    return _arr_all(it, to_array(a[0]), [], {})


def _np_any(it, a, k):
    return _arr_any(it, to_array(a[0]), [], {})


def _np_size(it, a, k):
    v = a[0]
    if isinstance(v, (NDArr, list, tuple)):
        return to_array(v).size
    if isinstance(v, slice):
        raise PyRaise("TypeError", "np.size of a slice")       # numpy returns 1; nothing in the analysed code relies on it
    return 1


_FRESH = [0]


def _fresh(name):
    _FRESH[0] += 1
    return F.sym(f"{name}{_FRESH[0]}")


def _np_cond(it, a, k):
    return _fresh("cond")


def _np_finfo(it, a, k):
    return Obj(None, "finfo", eps=F.sym("eps_machine"), tiny=F.sym("tiny_machine"), max=F.sym("max_machine"))


def _np_copy(it, a, k):
    return to_array(a[0]).copy()


def _np_concat(axis_default, atleast=None, stack=False):
    def f(it, a, k):
        seq = it.iterate(a[0])
        axis = _as_int(a[1] if len(a) > 1 else k.get("axis", axis_default))
        arrs = [to_array(x) for x in seq]
        if not arrs:
            raise PyRaise("ValueError", "need at least one array to concatenate")
        if atleast == "v":
            arrs = [x.reshape((1,) + x.shape) if x.ndim < 2 else x for x in arrs]
        elif atleast == "c":
            arrs = [x.reshape(x.shape + (1,)) if x.ndim < 2 else x for x in arrs]
        if stack:
            nd = arrs[0].ndim + 1
            ax = axis % nd
            arrs = [x.reshape(x.shape[:ax] + (1,) + x.shape[ax:]) for x in arrs]
            axis = ax
        nd = arrs[0].ndim
        if nd == 0:
            raise PyRaise("ValueError", "zero-dimensional arrays cannot be concatenated")
        ax = axis % nd
        for x in arrs:
            if x.ndim != nd or any(x.shape[i] != arrs[0].shape[i] for i in range(nd) if i != ax):
                raise PyRaise("ValueError", "all the input array dimensions except for the concatenation axis must match exactly")
        # move the axis first, concatenate the row-major entry lists, move it back
        moved = [x.transpose([ax] + [i for i in range(nd) if i != ax]) for x in arrs]
        ents = [e for x in moved for e in x.flat()]
        shape = (sum(x.shape[0] for x in moved),) + moved[0].shape[1:]
        out = NDArr.new(shape, ents)
        back = list(range(1, ax + 1)) + [0] + list(range(ax + 1, nd))
        return out.transpose(back).copy() if ax else out
    return f


def _np_einsum(it, a, k):
    """explicit summation over the entries: any subscripts of the form 'ab,bc->ac' (no ellipsis)"""
    if not a or not isinstance(a[0], str) or "<str>" in a[0] or "." in a[0] or set(k) - {"optimize"}:
        raise Unsupported("einsum form")
    spec = a[0].replace(" ", "")
    ops = [to_array(x) for x in a[1:]]
    lhs, _, rhs = spec.partition("->")
    ins = lhs.split(",")
    if len(ins) != len(ops) or any(len(s_) != o.ndim for s_, o in zip(ins, ops)):
        raise PyRaise("ValueError", "einsum: operands do not match the subscripts")
    if "->" not in spec:
        letters = "".join(ins)
        rhs = "".join(sorted(c for c in set(letters) if letters.count(c) == 1))
    size = {}
    for s_, o in zip(ins, ops):
        for c, n in zip(s_, o.shape):
            if size.setdefault(c, n) != n:
                raise PyRaise("ValueError", "einsum: inconsistent sizes")
    summed = [c for c in size if c not in rhs]
    out = []
    for oi in itertools.product(*[range(size[c]) for c in rhs]):
        env = dict(zip(rhs, oi))
        tot = 0
        for si in itertools.product(*[range(size[c]) for c in summed]):
            env.update(zip(summed, si))
            term = 1
            for s_, o in zip(ins, ops):
                term = s_bin("*", term, o.item(*[env[c] for c in s_]) if o.ndim else o.flat()[0])
            tot = s_bin("+", tot, term)
        out.append(tot)
    if not rhs:
        return out[0]
    return NDArr.new(tuple(size[c] for c in rhs), out)


def _np_fill_diagonal(it, a, k):
    m, v = a[0], a[1]
    if not isinstance(m, NDArr) or m.ndim != 2:
        raise Unsupported("fill_diagonal of a non-matrix")
    n = min(m.shape)
    vals = _bc_entries(to_array(v), (n,)) if isinstance(v, (NDArr, list, tuple)) else [v] * n
    for i in range(n):
        it.assign_index(m, (i, i), vals[i], None)


def _np_diagonal(it, a, k):
    m = to_array(a[0])
    if m.ndim != 2 or len(a) > 1 or k:
        raise Unsupported("diagonal with offsets / of a non-matrix")
    n = min(m.shape)
    return NDArr(m.st, (n,), [m.ix[i * m.shape[1] + i] for i in range(n)])     # a view, as in numpy


def _np_where(it, a, k):
    c = to_array(a[0])
    fl = c.flat()
    if any(not isinstance(x, bool) and not (is_num(x) and R(x).is_const()) for x in fl):
        raise Unsupported("np.where on a condition with symbolic entries")
    truth = [x if isinstance(x, bool) else R(x).const_value() != 0 for x in fl]
    if len(a) == 1:
        return _np_nonzero(it, [NDArr.new(c.shape, truth)], {})
    shape = _broadcast(_broadcast(c.shape, to_array(a[1]).shape), to_array(a[2]).shape)
    tc, xa, xb = _bc_entries(NDArr.new(c.shape, truth), shape), _bc_entries(to_array(a[1]), shape), _bc_entries(to_array(a[2]), shape)
    return NDArr.new(shape, [p if t else q for t, p, q in zip(tc, xa, xb)])


def _np_take(it, a, k):
    v = to_array(a[0])
    axis = a[2] if len(a) > 2 else k.get("axis")
    if axis is None:
        return it.index(v.reshape((-1,)), a[1])
    ax = _as_int(axis) % v.ndim
    return it.index(v, tuple([slice(None)] * ax + [a[1]]))


class IndexMaker:
    """np.s_ / np.index_exp: subscripting it yields the key itself"""


def _np_outer(it, a, k):
    x, y = to_array(a[0]).reshape((-1,)), to_array(a[1]).reshape((-1,))
    return NDArr.new((x.size, y.size), [s_bin("*", p, q) for p in x.flat() for q in y.flat()])


def _np_full(it, a, k):
    v = a[1] if len(a) > 1 else k["fill_value"]
    if not is_num(v) and not isinstance(v, bool):
        raise Unsupported("np.full with a non-scalar")
    return NDArr.full(_shape_arg(a[0]), v)


def _np_squeeze(it, a, k):
    v = to_array(a[0])
    axis = a[1] if len(a) > 1 else k.get("axis")
    if axis is None:
        return v.reshape([n for n in v.shape if n != 1])
    ax = _as_int(axis) % v.ndim
    if v.shape[ax] != 1:
        raise PyRaise("ValueError", "cannot select an axis to squeeze out which has size not equal to one")
    return v.reshape(v.shape[:ax] + v.shape[ax + 1:])


def _np_expand_dims(it, a, k):
    v = to_array(a[0])
    ax = _as_int(a[1] if len(a) > 1 else k["axis"]) % (v.ndim + 1)
    return v.reshape(v.shape[:ax] + (1,) + v.shape[ax:])


def _np_flip(it, a, k):
    v = to_array(a[0])
    axis = a[1] if len(a) > 1 else k.get("axis")
    key = tuple(slice(None, None, -1) if (axis is None or i == _as_int(axis) % v.ndim) else slice(None) for i in range(v.ndim))
    return v[key]


def _np_multi_dot(it, a, k):
    seq = [to_array(x) for x in it.iterate(a[0])]
    r = seq[0]
    for x in seq[1:]:
        r = matmul(r, x)
    return r


def _namedtuple(it, a, k):
    import collections
    name = a[0] if a else k["typename"]
    fields = a[1] if len(a) > 1 else k["field_names"]
    if isinstance(fields, str):
        fields = fields.replace(",", " ").split()
    if not isinstance(name, str) or not all(isinstance(x, str) and "<str>" not in x for x in fields):
        raise Unsupported("namedtuple with computed field names")
    cls_ = collections.namedtuple(name, list(fields))
    return Builtin("namedtuple:" + name, lambda it_, a_, k_: _nt_make(cls_, a_, k_))


def _nt_make(cls_, a, k):
    try:
        return cls_(*a, **k)
    except TypeError as e:
        raise PyRaise("TypeError", str(e))


def _identity_decorator(it, a, k):
    """numba.njit / numba.jit: compilation does not change what the function computes"""
    if a and isinstance(a[0], (Func, Bound)):
        return a[0]
    return Builtin("decorator", lambda it_, a_, k_: a_[0])


def _reduce(it, a, k):
    f, seq = a[0], it.iter(a[1])
    if len(a) > 2:
        acc = a[2]
    else:
        try:
            acc = next(seq)
        except StopIteration:
            raise PyRaise("TypeError", "reduce() of empty iterable with no initial value")
    for x in seq:
        acc = it.call(f, [acc, x], {}, None)
    return acc


def _iop(opname):
    """operator.iadd & co: in place on arrays (aliases see the change), a new value otherwise"""
    def f(it, a, k):
        if isinstance(a[0], NDArr):
            it._inplace(a[0], opname, a[1], None)
            return a[0]
        return it.binop(opname, a[0], a[1])
    return f


def _np_asarray(it, a, k):
    return to_array(a[0])


def _np_arange(it, a, k):
    vals = list(range(*[_as_int(x) for x in a[:3]]))          # a fourth positional argument is the dtype
    return NDArr.new((len(vals),), vals)


def _np_dot(it, a, k):
    x, y = a
    if isinstance(x, NDArr) and isinstance(y, NDArr):
        return matmul(x, y)
    return ew_bin("*", x, y)


def _la_solve(it, a, k):
    A = a[0] if a else k["a"]
    B = a[1] if len(a) > 1 else k["b"]
    A = to_array(A)
    inv = it.inverse_of(A) if it is not None else inverse(A)
    if k.get("transposed"):
        inv = inv.T
    return matmul(inv, to_array(B))


def _la_lu_factor(it, a, k):
    A = a[0] if a else k["a"]
    return LU(mat=to_array(A).copy())


def _la_lu_solve(it, a, k):
    lu = a[0] if a else k["lu_and_piv"]
    b = a[1] if len(a) > 1 else k["b"]
    trans = a[2] if len(a) > 2 else k.get("trans", 0)
    lu = as_lu(lu)
    if lu is None:
        # factors of one matrix with the pivots of another: the result is not a solution of anything
        global _GARBAGE
        _GARBAGE += 1
        return NDArr.syms(f"mismatched_lu{_GARBAGE}", to_array(b).shape)
    t = _as_int(trans)
    inv = lu.inv(it)
    if t in (1, 2):
        inv = inv.T
    elif t != 0:
        raise Unsupported("lu_solve trans")
    return matmul(inv, to_array(b))


_GARBAGE = 0


def _la_inv(it, a, k):
    return it.inverse_of(a[0]) if it is not None else inverse(to_array(a[0]))


def _simple_namespace(it, a, k):
    o = Obj(None, "SimpleNamespace", **k)
    o.complete = True            # its attributes are exactly those given and assigned later
    return o


def _op(opname):
    def f(it, a, k):
        r = it.binop(opname, a[0], a[1])
        out = a[2] if len(a) > 2 else k.get("out")
        if out is not None:
            if not isinstance(out, NDArr):
                raise Unsupported("out= that is not an array")
            it._inplace_set(out, r)
            return out
        if set(k) - {"out"}:
            raise Unsupported(f"keyword {sorted(k)} of an element-wise function")
        return r
    return f


EXTERNALS = {
    "numpy.zeros": _np_zeros, "numpy.ones": _np_ones, "numpy.empty": _np_empty,
    "numpy.zeros_like": _like(_np_zeros), "numpy.ones_like": _like(_np_ones), "numpy.empty_like": _like(_np_empty),
    "numpy.eye": _np_eye, "numpy.identity": _np_eye, "numpy.diag": _np_diag,
    "numpy.transpose": _np_transpose, "numpy.swapaxes": _np_swapaxes,
    "numpy.atleast_1d": _np_atleast_1d, "numpy.atleast_2d": _np_atleast(2),
    "numpy.nonzero": _np_nonzero, "numpy.flatnonzero": lambda it, a, k: _np_nonzero(it, [to_array(a[0]).reshape((-1,))], k)[0],
    "numpy.ix_": _np_ix, "numpy.diff": _np_diff, "numpy.all": _np_all, "numpy.any": _np_any, "numpy.size": _np_size,
    "numpy.iscomplexobj": lambda it, a, k: False, "numpy.isrealobj": lambda it, a, k: True,
    "numpy.issubdtype": lambda it, a, k: a[0] == a[1], "numpy.linalg.cond": _np_cond, "numpy.finfo": _np_finfo, "numpy.copy": _np_copy,
    "numpy.abs": lambda it, a, k: _b_abs(it, a, k), "numpy.absolute": lambda it, a, k: _b_abs(it, a, k),
    "numpy.ndim": lambda it, a, k: to_array(a[0]).ndim, "numpy.shape": lambda it, a, k: to_array(a[0]).shape,
    "numpy.concatenate": _np_concat(0), "numpy.vstack": _np_concat(0, "v"), "numpy.hstack": lambda it, a, k: _np_concat(0 if to_array(it.iterate(a[0])[0]).ndim == 1 else 1)(it, [it.iterate(a[0])], k),
    "numpy.column_stack": _np_concat(1, "c"), "numpy.stack": _np_concat(0, None, True), "numpy.row_stack": _np_concat(0, "v"),
    "numpy.fill_diagonal": _np_fill_diagonal, "numpy.diagonal": _np_diagonal, "numpy.trace": lambda it, a, k: _arr_sum(it, _np_diagonal(it, [a[0]], {}), [], {}),
    "numpy.where": _np_where, "numpy.take": _np_take,
    "numpy.einsum": _np_einsum, "numpy.outer": _np_outer, "numpy.full": _np_full, "numpy.squeeze": _np_squeeze, "numpy.expand_dims": _np_expand_dims,
    "numpy.flip": _np_flip, "numpy.linalg.multi_dot": _np_multi_dot, "numpy.inner": lambda it, a, k: _np_einsum(it, ["i,i", a[0], a[1]], {}) if to_array(a[0]).ndim == 1 and to_array(a[1]).ndim == 1 else (_ for _ in ()).throw(Unsupported("np.inner of matrices")),
    "numpy.sum": lambda it, a, k: _arr_sum(it, to_array(a[0]), a[1:], k), "numpy.asarray_chkfinite": _np_asarray, "numpy.asanyarray": _np_asarray,
    "numpy.isscalar": lambda it, a, k: is_num(a[0]) or isinstance(a[0], (bool, str)), "numpy.ravel": lambda it, a, k: to_array(a[0]).reshape((-1,)),
    "numpy.reshape": lambda it, a, k: _arr_reshape(it, to_array(a[0]), a[1:], k), "numpy.negative": lambda it, a, k: ew_bin("-", 0, a[0]),
    "collections.namedtuple": _namedtuple,
    "numba.njit": _identity_decorator, "numba.jit": _identity_decorator,
    "functools.reduce": _reduce,
    "operator.iadd": _iop("+"), "operator.isub": _iop("-"), "operator.imul": _iop("*"), "operator.itruediv": _iop("/"),
    "operator.imatmul": lambda it, a, k: it.binop("@", a[0], a[1]),
    "operator.getitem": lambda it, a, k: it.index(a[0], a[1]),
    "operator.neg": lambda it, a, k: ew_bin("-", 0, a[0]), "operator.not_": lambda it, a, k: not it.truth(a[0]),
    "operator.attrgetter": lambda it, a, k: Builtin("attrgetter", lambda it_, a_, k_, _n=a: _attrgetter(it_, _n, a_[0])),
    "operator.itemgetter": lambda it, a, k: Builtin("itemgetter", lambda it_, a_, k_, _n=a: _itemgetter(it_, _n, a_[0])),
    "itertools.chain": lambda it, a, k: PyIter(x for seq in a for x in it.iter(seq)),
    "itertools.islice": lambda it, a, k: PyIter(itertools.islice(it.iter(a[0]), *[None if x is None else _as_int(x) for x in a[1:]])),
    "itertools.repeat": lambda it, a, k: PyIter(itertools.repeat(a[0], *[_as_int(x) for x in a[1:]])),
    "itertools.count": lambda it, a, k: PyIter(itertools.count(*[_as_int(x) for x in a])),
    "itertools.starmap": lambda it, a, k: PyIter(it.call(a[0], list(it.iterate(t)), {}, None) for t in it.iter(a[1])),
    "itertools.accumulate": lambda it, a, k: _accumulate(it, a, k),
    "functools.partial": lambda it, a, k: Builtin("partial", lambda it_, a_, k_, _f=a[0], _a=list(a[1:]), _k=dict(k): it_.call(_f, _a + list(a_), {**_k, **k_}, None)),
    "warnings.warn": None, "copy.copy": lambda it, a, k: _shallow_copy(a[0]), "copy.deepcopy": lambda it, a, k: _deep_copy(a[0]),
    "numpy.array": _np_array, "numpy.asarray": _np_asarray, "numpy.ascontiguousarray": _np_asarray, "numpy.asfortranarray": _np_asarray,
    "numpy.arange": _np_arange, "numpy.dot": _np_dot, "numpy.matmul": _op("@"), "numpy.copyto": lambda it, a, k: it._inplace_set(a[0], a[1]),
    "numpy.multiply": _op("*"), "numpy.add": _op("+"), "numpy.subtract": _op("-"), "numpy.divide": _op("/"), "numpy.true_divide": _op("/"),
    "numpy.linalg.solve": _la_solve, "numpy.linalg.inv": _la_inv,
    "scipy.linalg.solve": _la_solve, "scipy.linalg.inv": _la_inv,
    "scipy.linalg.lu_factor": _la_lu_factor, "scipy.linalg.lu_solve": _la_lu_solve,
    "operator.matmul": _op("@"), "operator.mul": _op("*"), "operator.add": _op("+"), "operator.sub": _op("-"), "operator.truediv": _op("/"),
    "types.SimpleNamespace": _simple_namespace,
}
EXTERNALS["warnings.warn"] = lambda it, a, k: None
LENIENT = {"warnings.warn"}
EXTERNAL_VALUES = {"numpy.s_": IndexMaker(), "numpy.index_exp": IndexMaker(), "numpy.newaxis": None, "numpy.float64": FLOAT, "numpy.complex128": COMPLEX, "numpy.bool_": "bool", "numpy.pi": F.sym("pi"),
                   "numpy.ndarray": Opaque("numpy.ndarray")}


def _attrgetter(it, names, obj):
    vals = []
    for n in names:
        v = obj
        for part in n.split("."):
            v = it.getattr(v, part, None)
        vals.append(v)
    return vals[0] if len(vals) == 1 else tuple(vals)


def _itemgetter(it, keys, obj):
    vals = [it.index(obj, key) for key in keys]
    return vals[0] if len(vals) == 1 else tuple(vals)


def _accumulate(it, a, k):
    f = a[1] if len(a) > 1 else k.get("func")

    def gen():
        acc = _MISSING
        for x in it.iter(a[0]):
            acc = x if acc is _MISSING else (it.binop("+", acc, x) if f is None else it.call(f, [acc, x], {}, None))
            yield acc
    return PyIter(gen())


def _shallow_copy(v):
    if isinstance(v, NDArr):
        return v.copy()
    if isinstance(v, dict):
        return dict(v)
    if isinstance(v, list):
        return list(v)
    if isinstance(v, Obj):
        o = Obj(v.cls, v.label, **v.attrs)
        o.complete, o.overrides, o.absent = v.complete, dict(v.overrides), set(v.absent)
        return o
    if isinstance(v, (tuple, int, Rat, str, bool)) or v is None:
        return v
    raise Unsupported(f"copy of {type(v).__name__}")


def _deep_copy(v):
    if isinstance(v, dict):
        return {kk: _deep_copy(x) for kk, x in v.items()}
    if isinstance(v, list):
        return [_deep_copy(x) for x in v]
    if isinstance(v, tuple):
        return tuple(_deep_copy(x) for x in v)
    if isinstance(v, Obj):
        raise Unsupported("deepcopy of an object")
    return _shallow_copy(v)



def _arr_any(it, v, a, k):
    es = [R(e) for e in v.flat()]
    if any(e.is_const() and e.const_value() != 0 for e in es):
        return True
    if all(e.is_const() for e in es):
        return False
    return Und("any() of an array with symbolic entries")


def _arr_all(it, v, a, k):
    es = [R(e) for e in v.flat()]
    if any(e.is_const() and e.const_value() == 0 for e in es):
        return False
    if all(e.is_const() for e in es):
        return True
    return Und("all() of an array with symbolic entries")


def _arr_reshape(it, v, a, k):
    if a and isinstance(a[0], (tuple, list)):
        sh = a[0]                                                # reshape(shape[, order])
    else:
        sh = [x for x in a if not isinstance(x, str)]            # reshape(n, m, ...) - a trailing string is the order
    return v.reshape([_as_int(x) for x in sh])


def _arr_extreme(which):
    def f(it, v, a, k):
        axis = a[0] if a else k.get("axis")
        if axis is not None:
            ax = _as_int(axis) % v.ndim
            moved = v.transpose([ax] + [i for i in range(v.ndim) if i != ax])
            rest = moved.shape[1:]
            ents, stride = moved.flat(), _prod(rest)
            return NDArr.new(rest, [f(it, NDArr.new((moved.shape[0],), ents[j::stride]), [], {}) for j in range(stride)])
        fl = v.flat()
        if not fl:
            raise PyRaise("ValueError", "zero-size array to reduction operation")
        if any(isinstance(x, Und) for x in fl):
            raise Unsupported("extreme of undecided values")
        if len(fl) == 1:
            return fl[0]
        if all(isinstance(x, bool) or R(x).is_const() for x in fl):
            vals = [int(x) if isinstance(x, bool) else R(x).const_value() for x in fl]
            return F.const(max(vals) if which == "max" else min(vals))
        return F.fn(which, *[R(x) for x in fl])
    return f


def _arr_sum(it, v, a, k):
    axis = a[0] if a else k.get("axis")
    if axis is None:
        tot = 0
        for x in v.flat():
            tot = s_bin("+", tot, x)
        return tot
    ax = _as_int(axis) % v.ndim
    moved = v.transpose([ax] + [i for i in range(v.ndim) if i != ax])
    tot = None
    for i in range(moved.shape[0]):
        tot = moved[i] if tot is None else ew_bin("+", tot, moved[i])
    return tot


ARRAY_METHODS = {
    "diagonal": lambda it, v, a, k: _np_diagonal(it, [v] + list(a), k),
    "squeeze": lambda it, v, a, k: _np_squeeze(it, [v] + list(a), k), "item": lambda it, v, a, k: v.item(*[_as_int(x) for x in a]) if a else v.flat()[0],
    "max": _arr_extreme("max"), "min": _arr_extreme("min"), "sum": _arr_sum,
    "nonzero": lambda it, v, a, k: _np_nonzero(it, [v], {}),
    "tolist": lambda it, v, a, k: v.tolist(),
    "fill": lambda it, v, a, k: it._inplace_set(v, a[0]),
    "copy": lambda it, v, a, k: v.copy(),
    "any": _arr_any, "all": _arr_all,
    "ravel": lambda it, v, a, k: v.reshape((-1,)),
    "flatten": lambda it, v, a, k: v.copy().reshape((-1,)),
    "reshape": _arr_reshape,
    "transpose": lambda it, v, a, k: v.transpose(None if not a else [_as_int(x) for x in (a[0] if isinstance(a[0], (tuple, list)) else a)]),
    "swapaxes": lambda it, v, a, k: _np_swapaxes(it, [v] + list(a), k),
    "astype": lambda it, v, a, k: v.copy(),
    "dot": lambda it, v, a, k: matmul(v, a[0]),
    "conj": lambda it, v, a, k: v,
}

def _dict_update(d, a, k):
    for src in list(a) + [k]:
        for kk, vv in (src.items() if isinstance(src, dict) else src):
            d[_hashable(kk)] = vv


DICT_METHODS = {
    "update": _dict_update,
    "setdefault": lambda d, a, k: d.setdefault(_hashable(a[0]), a[1] if len(a) > 1 else None),
    "pop": lambda d, a, k: d.pop(_hashable(a[0]), *a[1:]) if (_hashable(a[0]) in d or len(a) > 1) else (_ for _ in ()).throw(PyRaise("KeyError", repr(a[0]))),
    "items": lambda d, a, k: [(kk, vv) for kk, vv in d.items()],
    "keys": lambda d, a, k: list(d.keys()),
    "values": lambda d, a, k: list(d.values()),
    "get": lambda d, a, k: d.get(_hashable(a[0]), a[1] if len(a) > 1 else None),
    "copy": lambda d, a, k: dict(d),
}


def _b_len(it, a, k):
    v = a[0]
    if isinstance(v, NDArr):
        if v.ndim == 0:
            raise PyRaise("TypeError", "len() of a 0-d array")
        return v.shape[0]
    if isinstance(v, (tuple, list, dict, str, range)):
        return len(v)
    if isinstance(v, LU):
        return 2
    raise Unsupported(f"len of {type(v).__name__}")


def _b_range(it, a, k):
    return range(*[_as_int(x) for x in a])


def _b_enumerate(it, a, k):
    start = _as_int(a[1] if len(a) > 1 else k.get("start", 0))
    return PyIter(enumerate(it.iter(a[0]), start))


def _b_zip(it, a, k):
    if k.get("strict"):
        raise Unsupported("zip(strict=True)")
    return PyIter(zip(*[it.iter(x) for x in a]))


def _b_map(it, a, k):
    return PyIter(it.call(a[0], list(t), {}, None) for t in zip(*[it.iter(x) for x in a[1:]]))


def _b_filter(it, a, k):
    def gen():
        for x in it.iter(a[1]):
            t = it.truth(x if a[0] is None else it.call(a[0], [x], {}, None))
            if isinstance(t, Und):
                raise Unsupported("filter() on symbolic data")
            if t:
                yield x
    return PyIter(gen())


def _b_iter(it, a, k):
    if isinstance(a[0], PyIter):
        return a[0]
    return PyIter(iter(it.iterate(a[0])))


def _b_getattr(it, a, k):
    if not isinstance(a[1], str) or "<str>" in a[1]:
        raise Unsupported("getattr with a computed name")
    try:
        return it.getattr(a[0], a[1], None)
    except PyRaise as e:
        if e.name == "AttributeError" and len(a) > 2:
            return a[2]
        raise


def _b_setattr(it, a, k):
    if not isinstance(a[1], str) or "<str>" in a[1]:
        raise Unsupported("setattr with a computed name")
    it.setattr(a[0], a[1], a[2])


def _b_hasattr(it, a, k):
    try:
        it.getattr(a[0], a[1], None)
        return True
    except PyRaise as e:
        if e.name == "AttributeError" and e.genuine:
            return False
        raise


def _b_type(it, a, k):
    v = a[0]
    if isinstance(v, Obj) and v.cls is not None:
        return v.cls
    if isinstance(v, NDArr):
        return EXTERNAL_VALUES["numpy.ndarray"]
    for nm, t in (("list", list), ("tuple", tuple), ("dict", dict), ("str", str), ("bool", bool), ("int", int)):
        if isinstance(v, t):
            return PY_BUILTINS[nm]
    if isinstance(v, Rat):
        return FLOAT
    raise Unsupported(f"type() of {type(v).__name__}")


_IDS = [1000]


def _b_id(it, a, k):
    _IDS[0] += 1
    return _IDS[0]          # identities are only stored, never compared by the analysed solvers


def _b_minmax(which):
    def f(it, a, k):
        items = it.iterate(a[0]) if len(a) == 1 else list(a)
        if not items:
            raise PyRaise("ValueError", f"{which}() of an empty sequence")
        if all(isinstance(x, (int, bool)) or (isinstance(x, Rat) and x.is_const()) for x in items):
            key = lambda x: R(x).const_value()
            return (max if which == "max" else min)(items, key=key)
        raise Unsupported(f"{which}() of symbolic values")
    return f


def _b_anyall(which):
    def f(it, a, k):
        und = None
        for x in it.iter(a[0]):
            t = it.truth(x)
            if isinstance(t, Und):
                und = t
            elif t and which == "any":
                return True
            elif not t and which == "all":
                return False
        if und is not None:
            return und
        return which == "all"
    return f


def _b_sorted(it, a, k):
    items = it.iterate(a[0])
    if k.get("key") is not None:
        raise Unsupported("sorted(key=...)")
    if all(isinstance(x, (int, str)) for x in items):
        return sorted(items, reverse=bool(k.get("reverse", False)))
    raise Unsupported("sorted() of symbolic values")


def _b_next(it, a, k):
    if not isinstance(a[0], PyIter):
        raise PyRaise("TypeError", "next() of a non-iterator")
    try:
        return next(a[0].it)
    except StopIteration:
        if len(a) > 1:
            return a[1]
        raise PyRaise("StopIteration")


def _b_slice(it, a, k):
    return slice(*[None if x is None else _as_int(x) for x in a])


def _b_abs(it, a, k):
    v = a[0]
    if isinstance(v, int):
        return abs(v)
    if isinstance(v, Rat):
        if v.is_const():
            return F.const(abs(v.const_value()))
        return F.fn("abs", v)
    if isinstance(v, NDArr):
        return NDArr.new(v.shape, [_b_abs(it, [e], {}) for e in v.flat()])
    raise Unsupported("abs")


def _b_isinstance(it, a, k):
    v, cl = a
    cls = list(cl) if isinstance(cl, (tuple, list)) else [cl]
    res = False
    for c in cls:
        nm = c.name if isinstance(c, (Builtin, Opaque)) else None
        if nm in ("numpy.ndarray", "ndarray"):
            res = res or isinstance(v, NDArr)
        elif nm == "list":
            res = res or isinstance(v, list)
        elif nm == "tuple":
            res = res or isinstance(v, tuple)
        elif nm == "dict":
            res = res or isinstance(v, dict)
        elif nm == "str":
            res = res or isinstance(v, str)
        elif nm == "int" and not isinstance(v, Rat):
            res = res or (isinstance(v, int) and not isinstance(v, bool))
        elif nm == "bool":
            res = res or isinstance(v, bool)
        elif nm == "float":
            res = res or isinstance(v, Rat)
        elif isinstance(c, ClassRef):
            res = res or (isinstance(v, Obj) and v.cls is not None and any(x.node is c.node for x in v.cls.mro(it)))
        elif c is None or isinstance(c, (NDArr, Rat, int, str, dict, list, Obj)):
            raise PyRaise("TypeError", "isinstance() arg 2 must be a type, a tuple of types, or a union")
        else:
            raise Unsupported(f"isinstance(..., {nm})")
    return res


def _b_int(it, a, k):
    return _as_int(a[0])


def _b_sum(it, a, k):
    tot = a[1] if len(a) > 1 else 0
    for x in it.iterate(a[0]):
        tot = it.binop("+", tot, x)
    return tot


PY_BUILTINS = {
    "len": Builtin("len", _b_len), "range": Builtin("range", _b_range), "enumerate": Builtin("enumerate", _b_enumerate),
    "zip": Builtin("zip", _b_zip), "iter": Builtin("iter", _b_iter), "next": Builtin("next", _b_next),
    "slice": Builtin("slice", _b_slice), "abs": Builtin("abs", _b_abs), "float": FLOAT, "complex": COMPLEX,
    "int": Builtin("int", _b_int), "isinstance": Builtin("isinstance", _b_isinstance), "sum": Builtin("sum", _b_sum),
    "list": Builtin("list", lambda it, a, k: list(it.iterate(a[0])) if a else []),
    "tuple": Builtin("tuple", lambda it, a, k: tuple(it.iterate(a[0])) if a else ()),
    "dict": Builtin("dict", lambda it, a, k: dict(a[0]) if a else dict(k)),
    "str": Builtin("str", lambda it, a, k: "<str>"),
    "bool": Builtin("bool", lambda it, a, k: it.truth(a[0]) if a else False),
    "reversed": Builtin("reversed", lambda it, a, k: list(it.iterate(a[0]))[::-1]),
    "print": Builtin("print", lambda it, a, k: None, lenient=True),
    "getattr": Builtin("getattr", _b_getattr), "setattr": Builtin("setattr", _b_setattr), "hasattr": Builtin("hasattr", _b_hasattr),
    "type": Builtin("type", _b_type), "id": Builtin("id", _b_id), "map": Builtin("map", _b_map), "filter": Builtin("filter", _b_filter),
    "min": Builtin("min", _b_minmax("min")), "max": Builtin("max", _b_minmax("max")),
    "any": Builtin("any", _b_anyall("any")), "all": Builtin("all", _b_anyall("all")), "sorted": Builtin("sorted", _b_sorted),
    "vars": Builtin("vars", lambda it, a, k: a[0].attrs if a and isinstance(a[0], Obj) else (_ for _ in ()).throw(Unsupported("vars()"))),
    "callable": Builtin("callable", lambda it, a, k: isinstance(a[0], (Func, Bound, Builtin, Opaque, ClassRef))),
    "object": Opaque("object"), "Ellipsis": Ellipsis, "NotImplemented": Opaque("NotImplemented"),
    "RuntimeWarning": Opaque("RuntimeWarning"), "UserWarning": Opaque("UserWarning"), "DeprecationWarning": Opaque("DeprecationWarning"),
    "IndexError": Opaque("IndexError"), "KeyError": Opaque("KeyError"), "AttributeError": Opaque("AttributeError"),
    "ZeroDivisionError": Opaque("ZeroDivisionError"), "ArithmeticError": Opaque("ArithmeticError"), "ImportError": Opaque("ImportError"),
    "True": True, "False": False, "None": None,
    "StopIteration": Opaque("StopIteration"), "ValueError": Opaque("ValueError"), "TypeError": Opaque("TypeError"),
    "RuntimeError": Opaque("RuntimeError"), "NotImplementedError": Opaque("NotImplementedError"), "Exception": Opaque("Exception"),
}
