"""C01 break / neutral recipes of pass 4.  The defect behind the false violation on N24 was one of *array identity*: `Gp = np.array(F)` (a copy) was read as
another name of F, so the velocity stores went into the displacement coefficient.  The recipes pin the three answers to "does the result share the memory
of its operand?" (copy / the operand or a view / depends on dtype and layout), the masked stores spelled as library calls (np.place, np.putmask, np.put,
np.copyto(where=), ufunc(out=, where=)) with the broken sibling of each - they differ in how they pair VALUES with selected entries - and np.split / vsplit /
hsplit as block partitions.  Imported by recipes_c01.py."""

U = "pyyeti/ode/_utilities.py"
B = "pyyeti/ode/_base_ode_class.py"
S = "pyyeti/ode/solveunc.py"
E1 = "pyyeti/ode/solveexp1.py"
E2 = "pyyeti/ode/solveexp2.py"

F_UNDER = "            F[pvundr] = ex * (cs + (beta / w) * sn)"
VALS = "ex * (cs + (beta / w) * sn)"

E_BLOCKS_OLD = '''            self.E_vv = E[:ksize, :ksize].copy()
            self.E_vd = E[:ksize, ksize:].copy()
            self.E_dv = E[ksize:, :ksize].copy()
            self.E_dd = E[ksize:, ksize:].copy()
'''
E_BLOCKS_SPLIT = '''            for row, E_row in zip("vd", np.vsplit(E, [ksize])):
                for col, E_part in zip("vd", np.hsplit(E_row, [ksize])):
                    setattr(self, f"E_{row}{col}", E_part.copy())
'''
E_BLOCKS_SPLIT_AXIS = '''            upper, lower = np.split(E, [ksize], axis=0)
            (self.E_vv, self.E_vd), (self.E_dv, self.E_dd) = (
                tuple(np.array(part) for part in np.split(half, [ksize], axis=1)) for half in (upper, lower)
            )
'''

LOOP2_OLD = '''                for i in range(nt - 1):
                    d0 = D[:, i]
                    v0 = V[:, i]
                    D[:, i + 1] = E_dd @ d0 + E_dv @ v0 + PQF[ksize:, i]
                    V[:, i + 1] = E_vd @ d0 + E_vv @ v0 + PQF[:ksize, i]
'''
LOOP2_SPLIT = '''                PQF_v, PQF_d = np.vsplit(PQF, [ksize])
                for i in range(nt - 1):
                    d0 = D[:, i]
                    v0 = V[:, i]
                    D[:, i + 1] = E_dd @ d0 + E_dv @ v0 + PQF_d[:, i]
                    V[:, i + 1] = E_vd @ d0 + E_vv @ v0 + PQF_v[:, i]
'''
LOOP2_OUT = '''                for i in range(nt - 1):
                    d0 = D[:, i]
                    v0 = V[:, i]
                    np.add(E_dd @ d0 + E_dv @ v0, PQF[ksize:, i], out=D[:, i + 1])
                    np.copyto(V[:, i + 1], E_vd @ d0 + E_vv @ v0 + PQF[:ksize, i])
'''

RB_OVERRIDE_OLD = '''            Fe[rb] = 1.0
            Ae[rb] = h / 2.0
            Be[rb] = h / 2.0
'''

RECIPES4 = [
    # ---- array identity: copy / alias / depends
    ("C01", "neutral", [], U, "    Gp = F.copy()", "    Gp = np.array(F)", "np.array(x) is a copy (the construct behind the false violation on N24)"),
    ("C01", "neutral", [], U, "    Gp = F.copy()\n    Bp = Ap.copy()", "    Gp = np.copy(F)\n    Bp = np.array(Ap, dtype=float, copy=True)", "np.copy / np.array(copy=True)"),
    ("C01", "neutral", [], U, "    F = pvrb.astype(float)", "    F = np.asarray(pvrb, dtype=float)",
     "np.asarray with a dtype: the operand or a converted copy - the result is followed, the operand is given up when the result is written"),
    ("C01", "neutral", [], U, "    F = pvrb.astype(float)\n    G = h * F", "    F = np.array(pvrb, dtype=float)\n    G = np.multiply(h, F)", "np.array with a dtype; ufunc spelling"),
    ("C01", "break", ["C01-R1"], U, "    Gp = F.copy()", "    Gp = np.asarray(F)",
     "np.asarray of an array is the array itself: the stores into Gp overwrite F (the reverse of the N24 defect: here the alias is real)"),
    ("C01", "break", ["C01-R1"], U, "    Bp = Ap.copy()", "    Bp = Ap.view()", "a view shares the memory: Bp and Ap are one array"),
    ("C01", "break", ["C01-R1"], U, "    Gp = F.copy()", "    Gp = np.atleast_1d(F)", "np.atleast_1d of a 1-D array is the array itself"),
    ("C01", "break", ["C01-R1"], U, "    Bp = Ap.copy()", "    Bp = Ap[...]", "X[...] is a view of X: Bp and Ap are one array"),
    # ---- masked stores spelled as library calls
    ("C01", "neutral", [], U, F_UNDER, f"            np.place(F, pvundr, {VALS})", "np.place with one value per selected entry"),
    ("C01", "neutral", [], U, F_UNDER, f"            np.place(arr=F, mask=pvundr, vals={VALS})", "np.place with keyword arguments"),
    ("C01", "neutral", [], U, F_UNDER, f"            F.__setitem__(pvundr, {VALS})", "__setitem__ called directly"),
    ("C01", "break", ["C01-R7"], U, F_UNDER, f"            np.putmask(F, pvundr, {VALS})",
     "np.putmask repeats shorter values by POSITION: the under-damped values land on the wrong modes unless the under-damped modes are the leading ones"),
    ("C01", "break", ["C01-R7"], U, F_UNDER, f"            np.put(F, pvundr, {VALS})", "np.put takes positions: the boolean mask is read as the positions 0 and 1"),
    ("C01", "break", ["C01-R7"], U, F_UNDER, f"            np.copyto(F, {VALS}, where=pvundr)", "np.copyto broadcasts the source to the destination: one value per selected entry does not fit"),
    ("C01", "break", ["C01-R7"], U, "        pvundr[pvel] = rat >= 1.0e-8", "        np.place(pvundr, pvel, (w2 / wo2) >= 1.0e-8)",
     "np.place uses the FIRST N values: a full-length value vector is read from the leading modes, not from the selected ones"),
    ("C01", "break", ["C01-R1"], U, F_UNDER, f"            np.place(F, pvover, {VALS})", "np.place through the over-damped mask"),
    ("C01", "break", ["C01-R1"], U, F_UNDER, f"            np.place(G, pvundr, {VALS})", "np.place into the wrong coefficient"),
    ("C01", "neutral", [], S, RB_OVERRIDE_OLD, "            for coef, value in ((Fe, 1.0), (Ae, h / 2.0), (Be, h / 2.0)):\n                np.putmask(coef, rb, value)\n",
     "complex path: scalar overrides through np.putmask in a loop over (array, value) pairs"),
    ("C01", "neutral", [], S, RB_OVERRIDE_OLD, "            np.copyto(Fe, 1.0, where=rb)\n            np.copyto(Ae, h / 2.0, where=rb)\n            np.copyto(dst=Be, src=h / 2.0, where=rb)\n",
     "complex path: np.copyto(where=) with a scalar, positional and keyword"),
    ("C01", "neutral", [], S, "            Fe[rb] = 1.0\n", "            np.multiply(Fe, 0.0, out=Fe, where=rb)\n            np.add(Fe, 1.0, out=Fe, where=rb)\n",
     "complex path: ufunc(out=, where=) as a masked update"),
    ("C01", "break", ["C01-R1b"], S, "            Fe[rb] = 1.0\n", "            np.multiply(Fe, 0.0, out=Fe, where=rb)\n            np.add(Fe, 1.0, out=Fe, where=el)\n",
     "complex path: the masked ufunc update applied to the elastic eigenvalues"),
    ("C01", "break", ["C01-R1b"], S, RB_OVERRIDE_OLD, "            for coef, value in ((Fe, 1.0), (Ae, h / 2.0), (Be, h)):\n                np.putmask(coef, rb, value)\n",
     "complex path: Be override h instead of h/2 (through np.putmask)"),
    ("C01", "break", ["C01-R7"], S, "        Ae[el] = ilamh + Fe[el] * (ilam - ilamh)", "        np.putmask(Ae, el, ilamh + Fe[el] * (ilam - ilamh))",
     "complex path: np.putmask with one value per selected eigenvalue (paired by position, not by rank)"),
    ("C01", "neutral", [], S, "        Ae[el] = ilamh + Fe[el] * (ilam - ilamh)", "        np.place(Ae, el, ilamh + Fe[el] * (ilam - ilamh))", "complex path: np.place"),
    # ---- block partitions by np.split / vsplit / hsplit
    ("C01", "neutral", [], E2, E_BLOCKS_OLD, E_BLOCKS_SPLIT, "SolveExp2.__init__: the four blocks of E by np.vsplit / np.hsplit and setattr with built names"),
    ("C01", "neutral", [], E2, E_BLOCKS_OLD, E_BLOCKS_SPLIT_AXIS, "SolveExp2.__init__: the four blocks of E by np.split(axis=) and nested unpacking"),
    ("C01", "break", ["C01-R9"], E2, E_BLOCKS_OLD, E_BLOCKS_SPLIT.replace('zip("vd", np.vsplit', 'zip("dv", np.vsplit'), "SolveExp2.__init__: row halves of E named the wrong way round"),
    ("C01", "break", ["C01-R9"], E2, E_BLOCKS_OLD, E_BLOCKS_SPLIT_AXIS.replace("(self.E_vv, self.E_vd), (self.E_dv, self.E_dd)", "(self.E_vv, self.E_dv), (self.E_vd, self.E_dd)"),
     "SolveExp2.__init__: the off-diagonal blocks unpacked under each other's names"),
    ("C01", "neutral", [], E2, LOOP2_OLD, LOOP2_SPLIT, "SolveExp2.tsolve: force term cut into its halves by np.vsplit"),
    ("C01", "break", ["C01-R9"], E2, LOOP2_OLD, LOOP2_SPLIT.replace("PQF_v, PQF_d = np.vsplit", "PQF_d, PQF_v = np.vsplit"), "SolveExp2.tsolve: halves of the force term exchanged"),
    ("C01", "neutral", [], E2, LOOP2_OLD, LOOP2_OUT, "SolveExp2.tsolve: columns written through ufunc(out=view) and np.copyto(view, value)"),
    ("C01", "break", ["C01-R9"], E2, LOOP2_OLD, LOOP2_OUT.replace("out=D[:, i + 1]", "out=D[:, i]"), "SolveExp2.tsolve: out= view of the current column instead of the next"),
]
