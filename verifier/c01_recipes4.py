"""C01 break / neutral recipes of pass 4.  The defect behind the false violation on N24 was one of *array identity*: `Gp = np.array(F)` (a copy) was read as
another name of F, so the velocity stores went into the displacement coefficient.  The recipes pin the three answers to "does the result share the memory
of its operand?" (copy / the operand or a view / depends on dtype and layout), the masked stores spelled as library calls (np.place, np.putmask, np.put,
np.copyto(where=), ufunc(out=, where=)) with the broken sibling of each - they differ in how they pair VALUES with selected entries - and np.split / vsplit /
hsplit as block partitions.  Imported by recipes_c01.py."""

U = "pyyeti/ode/_utilities.py"
B = "pyyeti/ode/_base_ode_class.py"
S = "pyyeti/ode/solveunc.py"
E1 = "pyyeti/ode/solveexp1.py"
E2 = "pyyeti/ode/solveexp2.py"

F_UNDER = "            F[pvundr] = ex * (cs + (beta / w) * sn)"
VALS = "ex * (cs + (beta / w) * sn)"

E_BLOCKS_OLD = '''            self.E_vv = E[:ksize, :ksize].copy()
            self.E_vd = E[:ksize, ksize:].copy()
            self.E_dv = E[ksize:, :ksize].copy()
            self.E_dd = E[ksize:, ksize:].copy()
'''
E_BLOCKS_SPLIT = '''            for row, E_row in zip("vd", np.vsplit(E, [ksize])):
                for col, E_part in zip("vd", np.hsplit(E_row, [ksize])):
                    setattr(self, f"E_{row}{col}", E_part.copy())
'''
E_BLOCKS_SPLIT_AXIS = '''            upper, lower = np.split(E, [ksize], axis=0)
            (self.E_vv, self.E_vd), (self.E_dv, self.E_dd) = (
                tuple(np.array(part) for part in np.split(half, [ksize], axis=1)) for half in (upper, lower)
            )
'''

LOOP2_OLD = '''                for i in range(nt - 1):
                    d0 = D[:, i]
                    v0 = V[:, i]
                    D[:, i + 1] = E_dd @ d0 + E_dv @ v0 + PQF[ksize:, i]
                    V[:, i + 1] = E_vd @ d0 + E_vv @ v0 + PQF[:ksize, i]
'''
LOOP2_SPLIT = '''                PQF_v, PQF_d = np.vsplit(PQF, [ksize])
                for i in range(nt - 1):
                    d0 = D[:, i]
                    v0 = V[:, i]
                    D[:, i + 1] = E_dd @ d0 + E_dv @ v0 + PQF_d[:, i]
                    V[:, i + 1] = E_vd @ d0 + E_vv @ v0 + PQF_v[:, i]
'''
LOOP2_OUT = '''                for i in range(nt - 1):
                    d0 = D[:, i]
                    v0 = V[:, i]
                    np.add(E_dd @ d0 + E_dv @ v0, PQF[ksize:, i], out=D[:, i + 1])
                    np.copyto(V[:, i + 1], E_vd @ d0 + E_vv @ v0 + PQF[:ksize, i])
'''

RB_OVERRIDE_OLD = '''            Fe[rb] = 1.0
            Ae[rb] = h / 2.0
            Be[rb] = h / 2.0
'''

RECIPES4 = [
    # ---- array identity: copy / alias / depends
    ("C01", "neutral", [], U, "    Gp = F.copy()", "    Gp = np.array(F)", "np.array(x) is a copy (the construct behind the false violation on N24)"),
    ("C01", "neutral", [], U, "    Gp = F.copy()\n    Bp = Ap.copy()", "    Gp = np.copy(F)\n    Bp = np.array(Ap, dtype=float, copy=True)", "np.copy / np.array(copy=True)"),
    ("C01", "neutral", [], U, "    F = pvrb.astype(float)", "    F = np.asarray(pvrb, dtype=float)",
     "np.asarray with a dtype: the operand or a converted copy - the result is followed, the operand is given up when the result is written"),
    ("C01", "neutral", [], U, "    F = pvrb.astype(float)\n    G = h * F", "    F = np.array(pvrb, dtype=float)\n    G = np.multiply(h, F)", "np.array with a dtype; ufunc spelling"),
    ("C01", "break", ["C01-R1"], U, "    Gp = F.copy()", "    Gp = np.asarray(F)",
     "np.asarray of an array is the array itself: the stores into Gp overwrite F (the reverse of the N24 defect: here the alias is real)"),
    ("C01", "break", ["C01-R1"], U, "    Bp = Ap.copy()", "    Bp = Ap.view()", "a view shares the memory: Bp and Ap are one array"),
    ("C01", "break", ["C01-R1"], U, "    Gp = F.copy()", "    Gp = np.atleast_1d(F)", "np.atleast_1d of a 1-D array is the array itself"),
    ("C01", "break", ["C01-R1"], U, "    Bp = Ap.copy()", "    Bp = Ap[...]", "X[...] is a view of X: Bp and Ap are one array"),
    # ---- masked stores spelled as library calls
    ("C01", "neutral", [], U, F_UNDER, f"            np.place(F, pvundr, {VALS})", "np.place with one value per selected entry"),
    ("C01", "neutral", [], U, F_UNDER, f"            np.place(arr=F, mask=pvundr, vals={VALS})", "np.place with keyword arguments"),
    ("C01", "neutral", [], U, F_UNDER, f"            F.__setitem__(pvundr, {VALS})", "__setitem__ called directly"),
    ("C01", "break", ["C01-R7"], U, F_UNDER, f"            np.putmask(F, pvundr, {VALS})",
     "np.putmask repeats shorter values by POSITION: the under-damped values land on the wrong modes unless the under-damped modes are the leading ones"),
    ("C01", "break", ["C01-R7"], U, F_UNDER, f"            np.put(F, pvundr, {VALS})", "np.put takes positions: the boolean mask is read as the positions 0 and 1"),
    ("C01", "break", ["C01-R7"], U, F_UNDER, f"            np.copyto(F, {VALS}, where=pvundr)", "np.copyto broadcasts the source to the destination: one value per selected entry does not fit"),
    ("C01", "break", ["C01-R7"], U, "        pvundr[pvel] = rat >= 1.0e-8", "        np.place(pvundr, pvel, (w2 / wo2) >= 1.0e-8)",
     "np.place uses the FIRST N values: a full-length value vector is read from the leading modes, not from the selected ones"),
    ("C01", "break", ["C01-R1"], U, F_UNDER, f"            np.place(F, pvover, {VALS})", "np.place through the over-damped mask"),
    ("C01", "break", ["C01-R1"], U, F_UNDER, f"            np.place(G, pvundr, {VALS})", "np.place into the wrong coefficient"),
    ("C01", "neutral", [], S, RB_OVERRIDE_OLD, "            for coef, value in ((Fe, 1.0), (Ae, h / 2.0), (Be, h / 2.0)):\n                np.putmask(coef, rb, value)\n",
     "complex path: scalar overrides through np.putmask in a loop over (array, value) pairs"),
    ("C01", "neutral", [], S, RB_OVERRIDE_OLD, "            np.copyto(Fe, 1.0, where=rb)\n            np.copyto(Ae, h / 2.0, where=rb)\n            np.copyto(dst=Be, src=h / 2.0, where=rb)\n",
     "complex path: np.copyto(where=) with a scalar, positional and keyword"),
    ("C01", "neutral", [], S, "            Fe[rb] = 1.0\n", "            np.multiply(Fe, 0.0, out=Fe, where=rb)\n            np.add(Fe, 1.0, out=Fe, where=rb)\n",
     "complex path: ufunc(out=, where=) as a masked update"),
    ("C01", "break", ["C01-R1b"], S, "            Fe[rb] = 1.0\n", "            np.multiply(Fe, 0.0, out=Fe, where=rb)\n            np.add(Fe, 1.0, out=Fe, where=el)\n",
     "complex path: the masked ufunc update applied to the elastic eigenvalues"),
    ("C01", "break", ["C01-R1b"], S, RB_OVERRIDE_OLD, "            for coef, value in ((Fe, 1.0), (Ae, h / 2.0), (Be, h)):\n                np.putmask(coef, rb, value)\n",
     "complex path: Be override h instead of h/2 (through np.putmask)"),
    ("C01", "break", ["C01-R7"], S, "        Ae[el] = ilamh + Fe[el] * (ilam - ilamh)", "        np.putmask(Ae, el, ilamh + Fe[el] * (ilam - ilamh))",
     "complex path: np.putmask with one value per selected eigenvalue (paired by position, not by rank)"),
    ("C01", "neutral", [], S, "        Ae[el] = ilamh + Fe[el] * (ilam - ilamh)", "        np.place(Ae, el, ilamh + Fe[el] * (ilam - ilamh))", "complex path: np.place"),
    # ---- block partitions by np.split / vsplit / hsplit
    ("C01", "neutral", [], E2, E_BLOCKS_OLD, E_BLOCKS_SPLIT, "SolveExp2.__init__: the four blocks of E by np.vsplit / np.hsplit and setattr with built names"),
    ("C01", "neutral", [], E2, E_BLOCKS_OLD, E_BLOCKS_SPLIT_AXIS, "SolveExp2.__init__: the four blocks of E by np.split(axis=) and nested unpacking"),
    ("C01", "break", ["C01-R9"], E2, E_BLOCKS_OLD, E_BLOCKS_SPLIT.replace('zip("vd", np.vsplit', 'zip("dv", np.vsplit'), "SolveExp2.__init__: row halves of E named the wrong way round"),
    ("C01", "break", ["C01-R9"], E2, E_BLOCKS_OLD, E_BLOCKS_SPLIT_AXIS.replace("(self.E_vv, self.E_vd), (self.E_dv, self.E_dd)", "(self.E_vv, self.E_dv), (self.E_vd, self.E_dd)"),
     "SolveExp2.__init__: the off-diagonal blocks unpacked under each other's names"),
    ("C01", "neutral", [], E2, LOOP2_OLD, LOOP2_SPLIT, "SolveExp2.tsolve: force term cut into its halves by np.vsplit"),
    ("C01", "break", ["C01-R9"], E2, LOOP2_OLD, LOOP2_SPLIT.replace("PQF_v, PQF_d = np.vsplit", "PQF_d, PQF_v = np.vsplit"), "SolveExp2.tsolve: halves of the force term exchanged"),
    ("C01", "neutral", [], E2, LOOP2_OLD, LOOP2_OUT, "SolveExp2.tsolve: columns written through ufunc(out=view) and np.copyto(view, value)"),
    ("C01", "break", ["C01-R9"], E2, LOOP2_OLD, LOOP2_OUT.replace("out=D[:, i + 1]", "out=D[:, i]"), "SolveExp2.tsolve: out= view of the current column instead of the next"),
]


# ---- the helper's own refactorings of pass 4 (each verified bit-for-bit on the solvers' outputs and with pyyeti/tests/test_ode.py in a scratch copy)
CPLX_OLD = "        Fe = np.exp(lam * h)\n        Ae = np.empty_like(Fe)\n        Be = np.empty_like(Fe)\n"
CPLX_ALIAS = ("        import numpy as xp\n        from numpy import exp as _exp\n\n"
              "        Fe = _exp(lam * h)\n        Ae = xp.empty_like(Fe)\n        Be = xp.empty_like(Fe)\n")
CPLX_TABLE = "        Fe = np.exp(lam * h)\n        Ae, Be = np.empty((2,) + Fe.shape, dtype=Fe.dtype)\n"

UNDER_GATHER_OLD = """            w = np.sqrt(w2[pvundr])
            cs = np.cos(w * h)
            sn = np.sin(w * h)
            beta = C[pvundr]
            ex = np.exp(-beta * h)
            _wo2 = wo2[pvundr]
            _w2 = w2[pvundr]
            _k = k[pvundr]

            # for displacement:
            F[pvundr] = ex * (cs + (beta / w) * sn)
            G[pvundr] = (ex * sn) / w
"""
UNDER_GATHER_NEW = """            iundr = np.flatnonzero(pvundr)
            w = np.sqrt(np.compress(pvundr, w2))
            cs = np.cos(w * h)
            sn = np.sin(w * h)
            beta = C.compress(pvundr)
            ex = np.exp(-beta * h)
            _wo2 = np.extract(pvundr, wo2)
            _w2 = np.take(w2, iundr)
            _k = k.take(iundr)

            # for displacement:
            np.put(F, iundr, ex * (cs + (beta / w) * sn))
            G.put(iundr, (ex * sn) / w)
"""
UNDER_INPLACE = """            w = np.sqrt(w2[pvundr])
            cs = np.cos(w * h)
            sn = np.sin(w * h)
            beta = C[pvundr]
            ex = np.exp(-beta * h)
            _wo2 = wo2[pvundr]
            _w2 = w2[pvundr]
            _k = k[pvundr]

            # for displacement:
            tmp = beta / w
            tmp *= sn
            tmp += cs
            tmp *= ex
            F[pvundr] = tmp
            G[pvundr] = ex * sn
            G[pvundr] /= w
"""
ALLOC_OLD = """    F = pvrb.astype(float)
    G = h * F
    if m is None:
        A = (h * h / 3) * F
        Ap = (h / 2) * F
    else:
        A = (h * h / 3) * F / m
        Ap = (h / 2) * F / m
    B = A / 2
    Fp = np.zeros(n, float)
    Gp = F.copy()
    Bp = Ap.copy()
"""
ALLOC_INPLACE = """    F = pvrb.astype(float)
    G = F.copy()
    G *= h
    A = F * (h * h / 3)
    Ap = np.multiply(F, h / 2)
    if m is not None:
        A /= m
        np.divide(Ap, m, out=Ap)
    B = A.copy()
    B /= 2
    Fp = np.zeros(n, float)
    Gp = F.copy()
    Bp = Ap.copy()
"""
ALLOC_TABLE = """    F, G, A, B, Fp, Gp, Ap, Bp = np.empty((8, n))
    F[:] = pvrb
    G[:] = h * F
    if m is None:
        A[...] = (h * h / 3) * F
        Ap[:] = (h / 2) * F
    else:
        A[...] = (h * h / 3) * F / m
        Ap[:] = (h / 2) * F / m
    np.copyto(B, A / 2)
    Fp.fill(0.0)
    Gp[:] = F[:]
    Bp[...] = np.array(Ap[...])
"""
E1_LOOP = "            for j in range(1, nt):\n                d0 = d[:, j] = E @ d0 + PQF[:, j - 1]"
E2_LOOP = "                for i in range(nt - 1):\n                    d0 = D[:, i]"

RECIPES4 += [
    ("C01", "neutral", [], S, CPLX_OLD, CPLX_ALIAS, "own O1: the library under the module's / function's import aliases (xp.empty_like, _exp)"),
    ("C01", "break", ["C01-R1b"], S, CPLX_OLD, CPLX_ALIAS.replace("_exp(lam * h)", "_exp(-lam * h)"), "own O1 broken: aliased exp of -lambda h"),
    ("C01", "neutral", [], U, UNDER_GATHER_OLD, UNDER_GATHER_NEW, "own O2: gather by np.compress / .compress / np.extract / np.take / .take, scatter by np.put / .put with positions"),
    ("C01", "break", ["C01-R1"], U, UNDER_GATHER_OLD, UNDER_GATHER_NEW.replace("_w2 = np.take(w2, iundr)", "_w2 = np.take(wo2, iundr)"), "own O2 broken: w2 gathered from wo2"),
    ("C01", "break", ["C01-R7"], U, UNDER_GATHER_OLD, UNDER_GATHER_NEW.replace("beta = C.compress(pvundr)", "beta = C.compress(pvel)"), "own O2 broken: beta gathered over all elastic modes"),
    ("C01", "break", ["C01-R7"], U, UNDER_GATHER_OLD, UNDER_GATHER_NEW.replace("G.put(iundr,", "G.put(pvundr,"), "own O2 broken: .put with the boolean mask as positions"),
    ("C01", "neutral", [], U, UNDER_GATHER_OLD, UNDER_INPLACE, "own O3: the under-damped F built by in-place updates of a temporary; G by a store followed by an in-place division of the selection"),
    ("C01", "break", ["C01-R1"], U, UNDER_GATHER_OLD, UNDER_INPLACE.replace("tmp += cs", "tmp -= cs"), "own O3 broken: the cosine term subtracted in place"),
    ("C01", "neutral", [], U, ALLOC_OLD, ALLOC_INPLACE, "own O3: the rigid-body defaults by copies updated in place (G *= h, A /= m, np.divide(out=))"),
    ("C01", "break", ["C01-R1"], U, ALLOC_OLD, ALLOC_INPLACE.replace("    B = A.copy()\n    B /= 2", "    B = A.view()\n    B /= 2"), "own O3 broken: B is a view of A, halved in place (A is halved too)"),
    ("C01", "neutral", [], U, ALLOC_OLD, ALLOC_TABLE, "own O5: the eight coefficient vectors as row views of one np.empty table, filled through full-slice stores, np.copyto, .fill"),
    ("C01", "break", ["C01-R1"], U, ALLOC_OLD, ALLOC_TABLE.replace("    Gp[:] = F[:]", "    Gp = F[:]"), "own O5 broken: Gp bound to a view of F instead of being filled from it"),
    ("C01", "break", ["C01-R1"], U, ALLOC_OLD, ALLOC_TABLE.replace("    Bp[...] = np.array(Ap[...])", "    Bp = np.asarray(Ap[...])"), "own O5 broken: Bp bound to Ap through np.asarray of a view"),
    ("C01", "neutral", [], S, CPLX_OLD, CPLX_TABLE, "own O5: Ae, Be as the rows of one np.empty table"),
    ("C01", "neutral", [], E1, E1_LOOP, E1_LOOP.replace("range(1, nt)", "np.arange(1, nt)"), "own O4: loop index from np.arange"),
    ("C01", "break", ["C01-R8"], E1, E1_LOOP, E1_LOOP.replace("range(1, nt)", "np.arange(2, nt)"), "own O4 broken: np.arange starts one step late"),
    ("C01", "neutral", [], E2, E2_LOOP, E2_LOOP.replace("range(nt - 1)", "__import__('itertools').islice(__import__('itertools').count(), nt - 1)") if False else
     E2_LOOP.replace("for i in range(nt - 1):", "for (i,) in np.ndindex(nt - 1):"), "own O4: loop index from np.ndindex"),
    ("C01", "break", ["C01-R9"], E2, E2_LOOP, E2_LOOP.replace("for i in range(nt - 1):", "for (i,) in np.ndindex(nt - 2):"), "own O4 broken: np.ndindex one step short"),
    ("C01", "neutral", [], E2, E2_LOOP, "                import itertools\n\n" + E2_LOOP.replace("range(nt - 1)", "itertools.islice(itertools.count(), nt - 1)"),
     "own O4: loop index from itertools.islice(itertools.count(), n)"),
    ("C01", "break", ["C01-R9"], E2, E2_LOOP, "                import itertools\n\n" + E2_LOOP.replace("range(nt - 1)", "itertools.islice(itertools.count(1), nt - 1)"),
     "own O4 broken: the counter starts at 1"),
    ("C01", "neutral", [], E2, E2_LOOP, "                import itertools\n\n" + E2_LOOP.replace("for i in range(nt - 1):", "for i, _ in zip(itertools.count(), PQF.T):"),
     "own O4: loop index from zip(itertools.count(), columns)"),
]


# ---- C01-R12 (round-4 seed I): the rigid-body set handed to get_su_coef
GSC = "                self.pc = get_su_coef(self.m, self.b, self.k, h, self._rb)"
RECIPES4 += [
    ("C01", "break", ["C01-R12"], S, GSC, "                rbmodes = self._rb if self.rbsize else None\n                self.pc = get_su_coef(self.m, self.b, self.k, h, rbmodes)",
     "round-4 seed I: an empty rigid-body set handed over as None (= auto-detect by k/m in get_su_coef)"),
    ("C01", "break", ["C01-R12"], S, GSC, "                self.pc = get_su_coef(self.m, self.b, self.k, h)", "sibling of seed I: rbmodes left to its default None"),
    ("C01", "break", ["C01-R12"], S, GSC, "                self.pc = get_su_coef(k=self.k, b=self.b, m=self.m, h=h, rbmodes=(None if not self.rbsize else self._rb))",
     "sibling of seed I: keywords, inverted conditional"),
    ("C01", "break", ["C01-R12"], S, GSC, "                self.pc = get_su_coef(self.m, self.b, self.k, h, None if self.rbsize else self._rb)",
     "sibling of seed I: None when the solver HAS rigid-body modes"),
    ("C01", "neutral", [], S, GSC, "                self.pc = get_su_coef(self.m, self.b, self.k, h, rbmodes=self._rb)", "rbmodes by keyword"),
    ("C01", "neutral", [], S, GSC, "                self.pc = get_su_coef(self.m, self.b, self.k, h, self._rb if self.rbsize else np.array([], int))",
     "an empty rigid-body set handed over as an empty index array"),
    ("C01", "neutral", [], S, GSC, "                rb_in_k = self._rb\n                args = (self.m, self.b, self.k, h, rb_in_k)\n                self.pc = get_su_coef(*args)",
     "arguments through a tuple and a local"),
]
