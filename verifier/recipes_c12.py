"""C12 self-test recipes: text edits of /repo that break the property (the named rule must report them) or preserve it (no rule may fire).
The long neutral ones replace whole function bodies by refactored equivalents (table-driven ladder, buffered writer, restructured reader)."""

RECIPES = [('C12',
  'break',
  ['C12-R4'],
  'pyyeti/nastran/bulk.py',
  '                s = s[0] + s[1:].replace("+", "e+").replace("-", "e-")',
  '                s = s[0] + s[1:].replace("+", "e+")',
  'nas_sscanf: E-less negative exponents no longer converted'),
 ('C12',
  'break',
  ['C12-R4'],
  'pyyeti/nastran/bulk.py',
  '            s = s.lower().replace("d", "e")',
  '            s = s.lower()',
  'nas_sscanf: D exponents no longer converted'),
 ('C12',
  'break',
  ['C12-R3'],
  'pyyeti/nastran/bulk.py',
  '            f.write(f"{field:<16s}")',
  '            f.write(f"{field:<15s}")',
  '_wtcard16: string fields one column short'),
 ('C12', 'break', ['C12-R3'], 'pyyeti/nastran/bulk.py', '            f.write(" " * 8)', '            f.write(" " * 7)', 'wtcard8: blank fields one column short'),
 ('C12',
  'break',
  ['C12-R3'],
  'pyyeti/nastran/bulk.py',
  '        lentok = min(len(tok), 9)',
  '        lentok = min(len(tok), 8)',
  '_rdcomma: eighth field of a line dropped'),
 ('C12',
  'break',
  ['C12-R3'],
  'pyyeti/nastran/bulk.py',
  '            field, continuation = (16, "*") if p > -1 else (8, " +")',
  '            field, continuation = (16, "*") if p > -1 else (8, "+")',
  'rdcards: blank continuation heads not accepted'),
 ('C12', 'break', ['C12-R3'], 'pyyeti/nastran/bulk.py', '    maxstart = 72 - n\n', '    maxstart = 72 - n - 1\n', '_rdfixed: last field of a line not read'),
 ('C12',
  'break',
  ['C12-R2b'],
  'pyyeti/nastran/bulk.py',
  '        if value > -5e-7:\n',
  '        if value > -5e-12:\n',
  'format_float8: zeros stripped from a scientific field whose exponent can be -10'),
 ('C12',
  'break',
  ['C12-R1b'],
  'pyyeti/nastran/bulk.py',
  '                field = f"{round(value):8.1f}"[0:8]',
  '                field = f"{round(value):8.1f}"[0:9]',
  'format_float8: rounded arm cut at 9 columns'),
 ('C12',
  'break',
  ['C12-R2'],
  'pyyeti/nastran/bulk.py',
  '    sign = "-" if abs(value) < 1.0 else "+"',
  '    sign = "+" if abs(value) < 1.0 else "-"',
  '_format_scientific8: exponent sign swapped'),
 ('C12',
  'break',
  ['C12-R1'],
  'pyyeti/nastran/bulk.py',
  '            field = f"{value:16.14f}"\n            field = field.replace("-0.", "-.")\n',
  '            field = f"{value:16.14f}"\n',
  "format_float16: '-0.' not shortened on the negative sub-unit rung"),
 ('C12',
  'break',
  ['C12-R1'],
  'pyyeti/nastran/bulk.py',
  '    field = f"{field.strip(\' 0\'):>16s}"\n    return field\n',
  '    field = f"{field.strip(\' \'):>16s}"\n    return field\n',
  'format_float16: zeros no longer stripped (leading zero and carry case overflow)'),
 ('C12',
  'neutral',
  [],
  'pyyeti/nastran/bulk.py',
  '        if i > 0 and i % 8 == 0:\n'
  '            f.write("*\\n*       ")\n'
  '            n_lines += 1\n'
  '        elif i > 0 and i % 4 == 0:\n'
  '            f.write("\\n*       ")\n'
  '            n_lines += 1\n',
  '        if i and not i % 4:\n            f.write(("*" if i % 8 == 0 else "") + "\\n*" + 7 * " ")\n            n_lines += 1\n',
  '_wtcard16: continuation heads assembled from one test'),
 ('C12',
  'neutral',
  [],
  'pyyeti/nastran/bulk.py',
  '                s = s[0] + s[1:].replace("+", "e+").replace("-", "e-")',
  '                s = s[0] + re.sub(r"([+-])", r"e\\1", s[1:])',
  'nas_sscanf: signs converted by one regular expression'),
 ('C12',
  'neutral',
  [],
  'pyyeti/nastran/bulk.py',
  '    field = f"{field.strip(\' 0\'):>8s}"\n    return field\n',
  '    return "%8s" % field.strip("0 ")\n',
  'format_float8: final justification as %8s'),
 ('C12',
  'neutral',
  [],
  'pyyeti/nastran/bulk.py',
  'def format_float8(value):\n'
  '    """\n'
  '    Format a float in Nastran 8 fixed-field syntax using max precision.\n'
  '\n'
  '    Parameters\n'
  '    ----------\n'
  '    value : float\n'
  '        The value to be formatted\n'
  '\n'
  '    Returns\n'
  '    -------\n'
  '    field : str\n'
  '        The formatted value.\n'
  '\n'
  '    Examples\n'
  '    --------\n'
  '    >>> from pyyeti import nastran\n'
  '    >>> print(nastran.format_float8(1.0))\n'
  '          1.\n'
  '    >>> print(nastran.format_float8(1.2345678))\n'
  '    1.234568\n'
  '    >>> print(nastran.format_float8(-123456.78))\n'
  '    -123457.\n'
  '    >>> print(nastran.format_float8(12345678.0))\n'
  '    1.2346+7\n'
  '    >>> print(nastran.format_float8(-12345678.0))\n'
  '    -1.235+7\n'
  '    """\n'
  '    if value >= 0.0:\n'
  '        if value < 5e-8:\n'
  '            field = _format_scientific8(value)\n'
  '            return field\n'
  '        elif value < 0.001:\n'
  '            field = _format_scientific8(value)\n'
  '            field2 = f"{value:8.7f}".strip("0 ")\n'
  '            field1 = field.replace("-", "e-")\n'
  '            if field2 == ".":\n'
  '                return _format_scientific8(value)\n'
  '            if len(field2) <= 8 and float(field1) == float(field2):\n'
  '                field = field2.strip(" 0")\n'
  '        elif value < 1.0:\n'
  '            field = f"{value:8.7f}"\n'
  '        elif value < 10.0:\n'
  '            field = f"{value:8.6f}"\n'
  '        elif value < 100.0:\n'
  '            field = f"{value:8.5f}"\n'
  '        elif value < 1000.0:\n'
  '            field = f"{value:8.4f}"\n'
  '        elif value < 10000.0:\n'
  '            field = f"{value:8.3f}"\n'
  '        elif value < 100000.0:\n'
  '            field = f"{value:8.2f}"\n'
  '        elif value < 1000000.0:\n'
  '            field = f"{value:8.1f}"\n'
  '        else:\n'
  '            field = f"{value:8.1f}"\n'
  '            if field.index(".") < 8:\n'
  '                field = f"{round(value):8.1f}"[0:8]\n'
  '            else:\n'
  '                field = _format_scientific8(value)\n'
  '            return field\n'
  '    else:\n'
  '        if value > -5e-7:\n'
  '            field = _format_scientific8(value)\n'
  '            return field\n'
  '        elif value > -0.01:\n'
  '            field = _format_scientific8(value)\n'
  '            field2 = f"{value:8.6f}".strip("0 ")\n'
  '\n'
  '            # get rid of the first minus sign, add it on afterwards\n'
  '            field1 = "-" + field.strip(" 0-").replace("-", "e-")\n'
  '\n'
  '            if len(field2) <= 8 and float(field1) == float(field2):\n'
  '                field = field2.rstrip(" 0").replace("-0.", "-.")\n'
  '        # -0.01 > x > -0.1...should be 5 (maybe scientific...)\n'
  '        elif value > -1.0:\n'
  '            field = f"{value:8.6f}"\n'
  '            field = field.replace("-0.", "-.")\n'
  '        elif value > -10.0:\n'
  '            field = f"{value:8.5f}"\n'
  '        elif value > -100.0:\n'
  '            field = f"{value:8.4f}"\n'
  '        elif value > -1000.0:\n'
  '            field = f"{value:8.3f}"\n'
  '        elif value > -10000.0:\n'
  '            field = f"{value:8.2f}"\n'
  '        elif value > -100000.0:\n'
  '            field = f"{value:8.1f}"\n'
  '        elif value <= -999999.5:\n'
  '            field = _format_scientific8(value)\n'
  '            return field\n'
  '        else:\n'
  '            field = f"{value:8.1f}"\n'
  '            try:\n'
  '                ifield = field.index(".")\n'
  '            except ValueError:\n'
  '                raise ValueError(\n'
  '                    "error printing float; can\'t find decimal; field=%r value=%s"\n'
  '                    % (field, value)\n'
  '                )\n'
  '            if ifield < 8:\n'
  '                field = f"{int(round(value, 0)):7d}."\n'
  '            else:\n'
  '                field = _format_scientific8(value)\n'
  '            return field\n'
  '    field = f"{field.strip(\' 0\'):>8s}"\n'
  '    return field\n',
  '_POS8 = ((1.0, "8.7f"), (10.0, "8.6f"), (100.0, "8.5f"), (1000.0, "8.4f"), (10000.0, "8.3f"), (100000.0, "8.2f"), (1000000.0, "8.1f"))\n'
  '_NEG8 = [(-1.0, "%8.6f"), (-10.0, "%8.5f"), (-100.0, "%8.4f"), (-1000.0, "%8.3f"), (-10000.0, "%8.2f"), (-100000.0, "%8.1f")]\n'
  '\n'
  '\n'
  'def _justify8(text):\n'
  '    return text.strip("0 ").rjust(8)\n'
  '\n'
  '\n'
  'def format_float8(value):\n'
  '    """doc"""\n'
  '    if value < 0.0:\n'
  '        if value > -5e-7:\n'
  '            return _format_scientific8(value)\n'
  '        if value > -0.01:\n'
  '            field = _format_scientific8(value)\n'
  '            field2 = "{:8.6f}".format(value).strip("0 ")\n'
  '            field1 = "-" + field.strip(" 0-").replace("-", "e-")\n'
  '            if len(field2) <= 8 and float(field1) == float(field2):\n'
  '                field = field2.rstrip(" 0").replace("-0.", "-.")\n'
  '            return _justify8(field)\n'
  '        for bound, spec in _NEG8:\n'
  '            if value > bound:\n'
  '                return _justify8((spec % value).replace("-0.", "-."))\n'
  '        if not value > -999999.5:\n'
  '            return _format_scientific8(value)\n'
  '        field = "%8.1f" % value\n'
  '        if field.find(".") >= 8:\n'
  '            return _format_scientific8(value)\n'
  '        return "%7d." % int(round(value, 0))\n'
  '    if value < 5e-8:\n'
  '        return _format_scientific8(value)\n'
  '    if value < 0.001:\n'
  '        field = _format_scientific8(value)\n'
  '        field2 = f"{value:8.7f}".strip("0 ")\n'
  '        field1 = field.replace("-", "e-")\n'
  '        if field2 == ".":\n'
  '            return _format_scientific8(value)\n'
  '        if len(field2) <= 8 and float(field1) == float(field2):\n'
  '            field = field2.strip(" 0")\n'
  '        return _justify8(field)\n'
  '    for bound, spec in _POS8:\n'
  '        if value < bound:\n'
  '            field = format(value, spec)\n'
  '            break\n'
  '    else:\n'
  '        field = f"{value:8.1f}"\n'
  '        if field.index(".") < 8:\n'
  '            field = f"{round(value):8.1f}"[0:8]\n'
  '        else:\n'
  '            field = _format_scientific8(value)\n'
  '        return field\n'
  '    return _justify8(field)\n',
  'format_float8 as loops over literal (bound, spec) tables, early returns, inverted sign test, %-formats, .format, rjust, justify helper extracted'),
 ('C12',
  'neutral',
  [],
  'pyyeti/nastran/bulk.py',
  '    if value == 0.0:\n'
  '        return "{:>8s}".format("0.")\n'
  '\n'
  '    python_value = f"{value:8.11e}"\n'
  '    svalue, sexponent = python_value.strip().split("e")\n'
  '    exponent = int(sexponent)  # removes 0s\n'
  '\n'
  '    sign = "-" if abs(value) < 1.0 else "+"\n'
  '\n'
  '    # the exponent will be added later...\n'
  '    exp2 = str(exponent).strip("-+")\n'
  '    value2 = float(svalue)\n'
  '\n'
  '    leftover = 5 - len(exp2)\n'
  '\n'
  '    if value < 0:\n'
  '        fmt = f"{{:1.{leftover - 1:d}f}}"\n'
  '    else:\n'
  '        fmt = f"{{:1.{leftover:d}f}}"\n'
  '\n'
  '    svalue3 = fmt.format(value2)\n'
  '    svalue4 = svalue3.strip("0")\n'
  '    field = f"{svalue4 + sign + exp2:>8s}"\n'
  '    return field\n',
  '    if value == 0.0:\n'
  '        return "{:>8s}".format("0.")\n'
  '\n'
  '    svalue, _, sexponent = ("%8.11e" % value).strip().partition("e")\n'
  '    exponent = int(sexponent)\n'
  '    sign = "+" if exponent >= 0 else "-"\n'
  '    exp2 = str(abs(exponent))\n'
  '    ndig = 5 - len(exp2) - (1 if value < 0 else 0)\n'
  '    mant = f"{float(svalue):1.{ndig}f}".rstrip("0")\n'
  '    return (mant + sign + exp2).rjust(8)\n',
  '_format_scientific8: % form, partition, nested precision field, exponent sign from the exponent, rstrip/rjust'),
 ('C12',
  'neutral',
  [],
  'pyyeti/nastran/bulk.py',
  '    if value == 0.0:\n'
  '        return "{:>16s}".format("0.")\n'
  '        # return "%16s" % "0."\n'
  '\n'
  '    python_value = f"{value:16.14e}"\n'
  '    svalue, sexponent = python_value.strip().split("e")\n'
  '    exponent = int(sexponent)  # removes 0s\n'
  '\n'
  '    if abs(value) < 1.0:\n'
  '        sign = "-"\n'
  '    else:\n'
  '        sign = "+"\n'
  '\n'
  '    # the exponent will be added later.\n'
  '    exp2 = str(exponent).strip("-+")\n'
  '    value2 = float(svalue)\n'
  '\n'
  '    # the plus 1 is for the sign\n'
  '    len_exp = len(exp2) + 1\n'
  '    leftover = 16 - len_exp\n'
  '\n'
  '    if value < 0.0:\n'
  '        fmt = f"{{:1.{leftover - 3:d}f}}"\n'
  '    else:\n'
  '        fmt = f"{{:1.{leftover - 2:d}f}}"\n'
  '\n'
  '    svalue3 = fmt.format(value2)\n'
  '    svalue4 = svalue3.strip("0")\n'
  '    field = f"{svalue4 + sign + exp2:>16s}"\n'
  '    return field\n',
  '    if value == 0.0:\n'
  '        return "{:>16s}".format("0.")\n'
  '        # return "%16s" % "0."\n'
  '\n'
  '    python_value = f"{value:16.14e}"\n'
  '    svalue, sexponent = python_value.strip().split("e")\n'
  '    exponent = int(sexponent)  # removes 0s\n'
  '\n'
  '    if abs(value) < 1.0:\n'
  '        sign = "-"\n'
  '    else:\n'
  '        sign = "+"\n'
  '\n'
  '    # the exponent will be added later.\n'
  '    exp2 = str(exponent).strip("-+")\n'
  '    value2 = float(svalue)\n'
  '\n'
  '    # the plus 1 is for the sign\n'
  '    len_exp = len(exp2) + 1\n'
  '    leftover = 16 - len_exp\n'
  '\n'
  '    if not value < 0.0:\n'
  '        nd = leftover - 2\n'
  '    else:\n'
  '        nd = leftover - 3\n'
  '    svalue4 = ("%1.*f" % (nd, value2)).strip("0")\n'
  '    return "{0:>{1}s}".format("".join([svalue4, sign, exp2]), 16)\n',
  "_format_scientific16: inverted sign test, '%1.*f', join, '{0:>{1}s}'.format"),
 ('C12',
  'neutral',
  [],
  'pyyeti/nastran/bulk.py',
  '    if value == 0.0:\n'
  '        return "           0.D+0"\n'
  '\n'
  '    python_value = f"{value:16.14e}"\n'
  '    svalue, sexponent = python_value.strip().split("e")\n'
  '    exponent = int(sexponent)  # removes 0s\n'
  '\n'
  '    if abs(value) < 1.0:\n'
  '        sign = "-"\n'
  '    else:\n'
  '        sign = "+"\n'
  '\n'
  '    # the exponent will be added later.\n'
  '    exp2 = str(exponent).strip("-+")\n'
  '    value2 = float(svalue)\n'
  '\n'
  "    # the plus 2 is for the 'D' and the sign\n"
  '    len_exp = len(exp2) + 2\n'
  '    leftover = 16 - len_exp\n'
  '\n'
  '    if value < 0.0:\n'
  '        fmt = f"{{:1.{leftover - 3:d}f}}"\n'
  '    else:\n'
  '        fmt = f"{{:1.{leftover - 2:d}f}}"\n'
  '\n'
  '    svalue3 = fmt.format(value2)\n'
  '    svalue4 = svalue3.strip("0")\n'
  '    field = f"{svalue4 + \'D\' + sign + exp2:>16s}"\n'
  '    return field\n',
  '    if value == 0.0:\n'
  '        return "           0.D+0"\n'
  '\n'
  '    python_value = f"{value:16.14e}"\n'
  '    svalue, sexponent = python_value.strip().split("e")\n'
  '    exponent = int(sexponent)  # removes 0s\n'
  '\n'
  '    if abs(value) < 1.0:\n'
  '        sign = "-"\n'
  '    else:\n'
  '        sign = "+"\n'
  '\n'
  '    # the exponent will be added later.\n'
  '    exp2 = str(exponent).strip("-+")\n'
  '    value2 = float(svalue)\n'
  '\n'
  "    # the plus 2 is for the 'D' and the sign\n"
  '    len_exp = len(exp2) + 2\n'
  '    leftover = 16 - len_exp\n'
  '\n'
  '    if value < 0.0:\n'
  '        fmt = f"{{:1.{leftover - 3:d}f}}"\n'
  '    else:\n'
  '        fmt = f"{{:1.{leftover - 2:d}f}}"\n'
  '\n'
  '    svalue4 = fmt.format(value2).strip("0")\n'
  '    return format(svalue4 + "D" + sign + exp2, ">16")\n',
  "format_double16: format(text, '>16')"),
 ('C12',
  'neutral',
  [],
  'pyyeti/nastran/bulk.py',
  '    card_name = fields[0]\n'
  '    if len(card_name) > 8:\n'
  '        msg = "The first field, the card name, must have a length <8, got {}"\n'
  '        raise ValueError(msg.format(card_name))\n'
  '    f.write(f"{card_name:<8s}")\n'
  '    strtypes = (str, np.str_)\n'
  '    inttypes = (int, np.int32, np.int64, np.uint32, np.uint64)\n'
  '    floattypes = (float, np.float32, np.float64)\n'
  '    for i, field in enumerate(fields[1:]):\n'
  '        if i > 0 and i % 8 == 0:\n'
  '            f.write("\\n+       ")\n'
  '        if field == "":\n'
  '            f.write(" " * 8)\n'
  '        elif isinstance(field, strtypes):\n'
  '            f.write(f"{field:<8s}")\n'
  '        elif isinstance(field, inttypes):\n'
  '            f.write(f"{field:8d}")\n'
  '        elif isinstance(field, floattypes):\n'
  '            f.write(format_float8(field))\n'
  '        else:\n'
  '            raise TypeError("unsupported field type: {}".format(type(field)))\n'
  '    f.write("\\n")\n',
  '    card_name = fields[0]\n'
  '    if len(card_name) > 8:\n'
  '        msg = "The first field, the card name, must have a length <8, got {}"\n'
  '        raise ValueError(msg.format(card_name))\n'
  '    strtypes = (str, np.str_)\n'
  '    inttypes = (int, np.int32, np.int64, np.uint32, np.uint64)\n'
  '    floattypes = (float, np.float32, np.float64)\n'
  '    out = []\n'
  '    for field in fields[1:]:\n'
  '        if field == "":\n'
  '            out.append(" " * 8)\n'
  '        elif isinstance(field, strtypes):\n'
  '            out.append(field.ljust(8))\n'
  '        elif isinstance(field, inttypes):\n'
  '            out.append("%8d" % field)\n'
  '        elif isinstance(field, floattypes):\n'
  '            out.append(format_float8(field))\n'
  '        else:\n'
  '            raise TypeError("unsupported field type: {}".format(type(field)))\n'
  '    lines = ["".join(out[i : i + 8]) for i in range(0, len(out), 8)]\n'
  '    f.write(f"{card_name:<8s}" + "\\n+       ".join(lines) + "\\n")\n',
  'wtcard8: format all fields into a list, chunk by 8, join with the continuation head (no filtering), ljust / %8d'),
 ('C12',
  'neutral',
  [],
  'pyyeti/nastran/bulk.py',
  '    vals = []\n'
  '    length = len(s)\n'
  '    i = -1\n'
  '    nfields = -1\n'
  '    if n > 8:\n'
  '        inc = 4  # number of values per line\n'
  '    else:\n'
  '        inc = 8\n'
  '\n'
  '    s = _proc_line(s[:72])\n'
  '\n'
  '    if tolist and keep_name:\n'
  '        # read card name outside of loop:\n'
  '        v = nas_sscanf(s[:8], tolist)\n'
  '        vals.append(v)\n'
  '\n'
  '    maxstart = 72 - n\n'
  '    while 1:\n'
  '        for i in range(i, nfields):\n'
  '            vals.append(blank)\n'
  '        i = nfields\n'
  '        j = 8\n'
  '        while j <= maxstart and length > j:\n'
  '            i += 1\n'
  '            v = nas_sscanf(s[j : j + n], tolist)\n'
  '            if v is not None:\n'
  '                vals.append(v)\n'
  '            else:\n'
  '                vals.append(blank)\n'
  '            j += n\n'
  '        s = fiter.send(False)\n'
  '        if s is None or len(s) == 0 or conchar.find(s[0]) < 0:\n'
  '            break\n'
  '        s = _proc_line(s[:72])\n'
  '        length = len(s)\n'
  '        nfields += inc\n'
  '    return vals\n',
  '    vals = []\n'
  '    length = len(s)\n'
  '    i = -1\n'
  '    nfields = -1\n'
  '    if n > 8:\n'
  '        inc = 4  # number of values per line\n'
  '    else:\n'
  '        inc = 8\n'
  '\n'
  '    s = _proc_line(s[:72])\n'
  '\n'
  '    if tolist and keep_name:\n'
  '        # read card name outside of loop:\n'
  '        v = nas_sscanf(s[:8], tolist)\n'
  '        vals.append(v)\n'
  '\n'
  '    maxstart = 72 - n\n'
  '    while 1:\n'
  '        for i in range(i, nfields):\n'
  '            vals.append(blank)\n'
  '        i = nfields\n'
  '        for j in range(8, maxstart + 1, n):\n'
  '            if j >= length:\n'
  '                break\n'
  '            i += 1\n'
  '            v = nas_sscanf(s[j : j + n], tolist)\n'
  '            vals.append(blank if v is None else v)\n'
  '        s = fiter.send(False)\n'
  '        if s is not None and len(s) > 0 and s[0] in conchar:\n'
  '            s = _proc_line(s[:72])\n'
  '            length = len(s)\n'
  '            nfields += inc\n'
  '        else:\n'
  '            return vals\n',
  '_rdfixed: for-loop over columns, inverted exit with early return, `in conchar`, conditional expression'),
 ('C12',
  'neutral',
  [],
  'pyyeti/nastran/bulk.py',
  '    if return_var not in ("array", "list", "dict"):\n'
  '        raise ValueError(\n'
  '            \'invalid `return_var` setting; must be one of: ("array", "list", "dict")\'\n'
  '        )\n'
  '    # save root dir from original call, pass through to _rdinclude for recursive calls\n'
  '    try:\n'
  '        include_root_dirs = (\n'
  '            (\n'
  '                os.path.dirname(os.path.abspath(f.name)),\n'
  '                os.path.dirname(os.path.abspath(f.name)),\n'
  '            )\n'
  '            if include_root_dirs is None\n'
  '            else include_root_dirs\n'
  '        )\n'
  '    except AttributeError:\n'
  "        # StringIO object, doesn't make sense to follow includes\n"
  '        follow_includes = False\n'
  '        include_root_dirs = None\n'
  '    include_symbols = (\n'
  '        {symbol.lower(): path for symbol, path in include_symbols.items()}\n'
  '        if include_symbols is not None\n'
  '        else {}\n'
  '    )\n'
  '    for symbol in include_symbols:\n'
  '        if not len(symbol) > 2:\n'
  '            raise ValueError(f"Symbols must have a length >1, got {symbol}")\n'
  '    kwargs = {  # save args for use in _rdinclude\n'
  '        "name": name,\n'
  '        "blank": blank,\n'
  '        "return_var": return_var,\n'
  '        "dtype": dtype,\n'
  '        "no_data_return": (),  # return value from _rdinclude must be iterable (not None)\n'
  '        "regex": regex,\n'
  '        "keep_name": keep_name,\n'
  '        "keep_comments": keep_comments,\n'
  '        "follow_includes": follow_includes,\n'
  '        "include_symbols": include_symbols,\n'
  '        "include_root_dirs": include_root_dirs,\n'
  '    }\n'
  '\n'
  '    if return_var == "dict":\n'
  '        Vals = {}\n'
  '        todict = True\n'
  '        tolist = False\n'
  '    else:\n'
  '        todict = False\n'
  '        tolist = return_var == "list"\n'
  '        Vals = []\n'
  '\n'
  '    if blank is None:\n'
  '        blank = "" if tolist else 0\n'
  '\n'
  '    mxlen = 0\n'
  '    f.seek(0, 0)\n'
  '    fiter = _next_line(f, name, regex, tolist and keep_comments, follow_includes, Vals)\n'
  '    s = next(fiter)\n'
  '    while s is not None:\n'
  '        # if here, have matching line\n'
  '        if follow_includes and s.lower().startswith("include"):\n'
  '            vals = _rdinclude(fiter, s, rdcards, kwargs)\n'
  '        elif s.find(",") > -1:\n'
  '            vals = [_rdcomma(fiter, s, " +,", blank, tolist, keep_name)]\n'
  '        else:\n'
  '            s = s[:72].rstrip()\n'
  '            p = s[:8].find("*")\n'
  '            field, continuation = (16, "*") if p > -1 else (8, " +")\n'
  '            vals = [_rdfixed(fiter, s, field, continuation, blank, tolist, keep_name)]\n'
  '        if tolist:\n'
  '            Vals.extend(vals)\n'
  '        else:\n'
  '            for val in vals:\n'
  '                cur = len(val)\n'
  '                mxlen = max(mxlen, cur)\n'
  '                key = val[0]  # before it gets turned into dtype\n'
  '                val = np.array(val).astype(dtype)\n'
  '                if todict:\n'
  '                    Vals[key] = val\n'
  '                else:\n'
  '                    Vals.append(val)\n'
  '        try:\n'
  '            s = fiter.send(True)\n'
  '        except StopIteration:\n'
  '            break\n'
  '\n'
  '    # flush out iterator if needed (get any last comments)\n'
  '    try:\n'
  '        s = fiter.send(True)\n'
  '    except StopIteration:\n'
  '        pass\n'
  '    del fiter\n'
  '\n'
  '    if len(Vals) > 0:\n'
  '        if not (todict or tolist):\n'
  '            npVals = np.empty((len(Vals), mxlen), dtype=dtype)\n'
  '            npVals[:] = blank\n'
  '            for i, vals in enumerate(Vals):\n'
  '                npVals[i, : len(vals)] = vals\n'
  '            Vals = npVals\n'
  '        return Vals\n'
  '    return no_data_return\n',
  '    if return_var not in ("array", "list", "dict"):\n'
  '        raise ValueError(\n'
  '            \'invalid `return_var` setting; must be one of: ("array", "list", "dict")\'\n'
  '        )\n'
  '    # save root dir from original call, pass through to _rdinclude for recursive calls\n'
  '    try:\n'
  '        include_root_dirs = (\n'
  '            (\n'
  '                os.path.dirname(os.path.abspath(f.name)),\n'
  '                os.path.dirname(os.path.abspath(f.name)),\n'
  '            )\n'
  '            if include_root_dirs is None\n'
  '            else include_root_dirs\n'
  '        )\n'
  '    except AttributeError:\n'
  "        # StringIO object, doesn't make sense to follow includes\n"
  '        follow_includes = False\n'
  '        include_root_dirs = None\n'
  '    include_symbols = (\n'
  '        {symbol.lower(): path for symbol, path in include_symbols.items()}\n'
  '        if include_symbols is not None\n'
  '        else {}\n'
  '    )\n'
  '    for symbol in include_symbols:\n'
  '        if not len(symbol) > 2:\n'
  '            raise ValueError(f"Symbols must have a length >1, got {symbol}")\n'
  '    kwargs = {  # save args for use in _rdinclude\n'
  '        "name": name,\n'
  '        "blank": blank,\n'
  '        "return_var": return_var,\n'
  '        "dtype": dtype,\n'
  '        "no_data_return": (),  # return value from _rdinclude must be iterable (not None)\n'
  '        "regex": regex,\n'
  '        "keep_name": keep_name,\n'
  '        "keep_comments": keep_comments,\n'
  '        "follow_includes": follow_includes,\n'
  '        "include_symbols": include_symbols,\n'
  '        "include_root_dirs": include_root_dirs,\n'
  '    }\n'
  '\n'
  '    if return_var == "dict":\n'
  '        Vals = {}\n'
  '        todict = True\n'
  '        tolist = False\n'
  '    else:\n'
  '        todict = False\n'
  '        tolist = return_var == "list"\n'
  '        Vals = []\n'
  '\n'
  '    if blank is None:\n'
  '        blank = "" if tolist else 0\n'
  '\n'
  '    mxlen = 0\n'
  '    f.seek(0, 0)\n'
  '    fiter = _next_line(f, name, regex, tolist and keep_comments, follow_includes, Vals)\n'
  '    s = next(fiter)\n'
  '    while s is not None:\n'
  '        # if here, have matching line\n'
  '        if follow_includes and s.lower().startswith("include"):\n'
  '            vals = _rdinclude(fiter, s, rdcards, kwargs)\n'
  '        elif s.find(",") > -1:\n'
  '            vals = [_rdcomma(fiter, s, " +,", blank, tolist, keep_name)]\n'
  '        else:\n'
  '            s = s[:72].rstrip()\n'
  '            if "*" in s[:8]:\n'
  '                vals = [_rdfixed(fiter, s, 16, "*", blank, tolist, keep_name=keep_name)]\n'
  '            else:\n'
  '                vals = [_rdfixed(fiter, s, 8, " +", blank, tolist, keep_name)]\n'
  '        if tolist:\n'
  '            Vals.extend(vals)\n'
  '        else:\n'
  '            for val in vals:\n'
  '                cur = len(val)\n'
  '                mxlen = max(mxlen, cur)\n'
  '                key = val[0]  # before it gets turned into dtype\n'
  '                val = np.array(val).astype(dtype)\n'
  '                if todict:\n'
  '                    Vals[key] = val\n'
  '                else:\n'
  '                    Vals.append(val)\n'
  '        try:\n'
  '            s = fiter.send(True)\n'
  '        except StopIteration:\n'
  '            break\n'
  '\n'
  '    # flush out iterator if needed (get any last comments)\n'
  '    try:\n'
  '        s = fiter.send(True)\n'
  '    except StopIteration:\n'
  '        pass\n'
  '    del fiter\n'
  '\n'
  '    if len(Vals) > 0:\n'
  '        if not (todict or tolist):\n'
  '            npVals = np.empty((len(Vals), mxlen), dtype=dtype)\n'
  '            npVals[:] = blank\n'
  '            for i, vals in enumerate(Vals):\n'
  '                npVals[i, : len(vals)] = vals\n'
  '            Vals = npVals\n'
  '        return Vals\n'
  '    return no_data_return\n',
  "rdcards: '*' test spelled `in`, two explicit calls, keyword argument")]

_F = "pyyeti/nastran/bulk.py"
RECIPES += [
    ("C12", "break", ["C12-R3"], _F, "        while j <= maxstart and length > j:", "        while i <= maxstart and length > j:",
     "_rdfixed: column loop bounded by the field counter (fields beyond the 57th of a large-field card are lost)"),
    ("C12", "break", ["C12-R3"], _F, '            vals = [_rdcomma(fiter, s, " +,", blank, tolist, keep_name)]',
     '            vals = [_rdcomma(s, fiter, " +,", blank, tolist, keep_name)]', "rdcards: line and iterator swapped in the call of the comma reader"),
    ("C12", "break", ["C12-R3"], _F, "        nfields += inc\n    return vals\n\n\ndef _rdcomma", "        nfields += inc - 1\n    return vals\n\n\ndef _rdcomma",
     "_rdfixed: short lines padded to one field less than a line holds"),
    ("C12", "break", ["C12-R2"], _F, '    field = f"{svalue4 + sign + exp2:>8s}"', '    field = f"{svalue4 + exp2:>8s}"',
     "_format_scientific8: exponent sign left out"),
    ("C12", "neutral", [], _F, '    sign = "-" if abs(value) < 1.0 else "+"', '    sign = "-" if abs(value) <= 1.0 else "+"',
     "_format_scientific8: '-0' instead of '+0' for |value| = 1 (same number, same width)"),
    ("C12", "neutral", [], _F, "        while j <= maxstart and length > j:", "        while j <= maxstart and length >= j:",
     "_rdfixed: a line that ends on a field boundary yields one more blank, which padding supplies anyway"),
    ("C12", "neutral", [], _F, "        if i > 0 and i % 8 == 0:\n            f.write(\"\\n+       \")", "        if i % 8 == 0 and i:\n            f.write(\"\\n\" + \"+\".ljust(8))",
     "wtcard8: continuation head assembled with ljust"),
]
