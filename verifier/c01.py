"""C01 -- exact time-domain solvers (partial claim, see DESIGN.md section 3)."""
from __future__ import annotations

import ast

from . import e2_formula as F
from .core import AnchorError, Unsupported
from .e1_srcmodel import dotted, walk_no_nested
from .e2_eval import is_unknown, need, Unknown as Unknown_

UTIL = "pyyeti/ode/_utilities.py"
SOLVEUNC = "pyyeti/ode/solveunc.py"

COEFS = ("F", "G", "A", "B", "Fp", "Gp", "Ap", "Bp")


def _not_lowered(*vals):
    """one of the values is Unknown, or is computed through a function the evaluator neither models nor follows"""
    for v in vals:
        for x in (v if isinstance(v, tuple) else (v,)):
            if is_unknown(x) or (isinstance(x, F.Rat) and _unmodelled(x)):
                return True
    return False


def _chk(ctx, ok, label, where, detail=None, vals=()):
    """ctx.check, except that a failing obligation whose computed values were not lowered is an ANALYSIS-ERROR (never a violation)"""
    if not ok and _not_lowered(*vals):
        ctx.error(label + ": the computed value was not lowered", where, detail if detail is not None else repr(vals)[:300])
    else:
        ctx.check(ok, label, where, detail)


def _unmodelled(v, *expected):
    """names of the opaque applications `call:f(...)` (a function the evaluator neither models nor follows) inside a computed value that the expected
    value does not contain: such a value is *not lowered* - the obligation is an ANALYSIS-ERROR, never a violation"""
    import re
    pat = re.compile(r"call:([\w.]+)\(")
    have = set(pat.findall(repr(v)))
    for w in expected:
        have -= set(pat.findall(repr(w)))
    return sorted(have)


# ---------------------------------------------------------------------------
# C01-R1  closed-form coefficient identities (values extracted per regime by c01_coef / c01_ev.ModeEv)
def _ode_identities(c, par):
    """The identities (a)-(c) of DESIGN C01-R1, derived from m q'' + b q' + k q = P."""
    m, b, k = par["m"], par["b"], par["k"]
    wo2 = par["wo2"]
    twob = b / m
    Fd, G, A, B, Fp, Gp, Ap, Bp = (c[x] for x in COEFS)
    h = F.sym("h")
    Dc, Vc = A + B, Ap + Bp
    D, V = B * h, Bp * h
    ids = [
        ("hom: dF/dh = Fp", Fd.diff("h"), Fp),
        ("hom: dG/dh = Gp", G.diff("h"), Gp),
        ("hom: dFp/dh = -wo2 F - (b/m) Fp", Fp.diff("h"), -wo2 * Fd - twob * Fp),
        ("hom: dGp/dh = -wo2 G - (b/m) Gp", Gp.diff("h"), -wo2 * G - twob * Gp),
        ("const force: d(A+B)/dh = Ap+Bp", Dc.diff("h"), Vc),
        ("const force: m dVc/dh + b Vc + k Dc = 1", m * Vc.diff("h") + b * Vc + k * Dc, F.const(1)),
        ("ramp force: d(B h)/dh = Bp h", D.diff("h"), V),
        ("ramp force: m dV/dh + b V + k D = h", m * V.diff("h") + b * V + k * D, h),
    ]
    init = [
        ("F(0) = 1", Fd, 1), ("G(0) = 0", G, 0), ("Fp(0) = 0", Fp, 0), ("Gp(0) = 1", Gp, 1),
        ("(A+B)(0) = 0", Dc, 0), ("(Ap+Bp)(0) = 0", Vc, 0), ("(B h)(0) = 0", D, 0), ("(Bp h)(0) = 0", V, 0),
    ]
    return ids, init


def _selector_nodes(ev, par, regime):
    """the comparisons of a run whose mode side is proportional to w2/wo2 (elastic partition) resp. to beta (damped rigid-body partition):
    [(node, op, abs?, threshold value)] with the mode quantity on the left"""
    from .c01_coef import positive_multiple, strip_abs
    ref = par.get("rat") if regime in ("under", "over") else (par["beta"] if regime == "rbd" else None)
    out = []
    if ref is None:
        return out
    seen = set()
    for node, op, L, R, r in ev.cmp_log:
        # one comparison evaluated more than once on the same values (an argument of a call is evaluated when the call is recorded and when it is
        # applied: `np.place(pv, pvel, rat >= c)`) is one comparison
        key = (id(node), type(op), repr(L), repr(R))
        if key in seen:
            continue
        seen.add(key)
        o = type(op)
        if not (L.depends_on("beta") or L.depends_on("w")):
            L, R = R, L
            o = {ast.Lt: ast.Gt, ast.LtE: ast.GtE, ast.Gt: ast.Lt, ast.GtE: ast.LtE}[o]
        X, has_abs = strip_abs(L)
        pm = positive_multiple(X, ref)
        if pm is not None and not (R.depends_on("beta") or R.depends_on("w")):
            out.append((node, o, has_abs, R, pm, r))
    return out


def r1_coef_identities(ctx):
    from .c01_coef import run_su_coef, REGIMES, RegimeRaises
    from .c01_ev import Uninit
    fn = ctx.src.func(UTIL, "get_su_coef")
    sets, where = {}, {}
    sel_all = {}
    for regime in REGIMES:
        for m_none in (False, True):
            tag = regime + ("/m=None" if m_none else "")
            try:
                c, par, ev = run_su_coef(ctx, fn, regime, m_none)
                un = [x for x in COEFS if isinstance(c[x], Uninit)]
                if un:
                    ctx.fail(f"{tag}: every returned coefficient is assigned for a mode of this regime", fn,
                             f"{', '.join(un)}: created by np.empty and never stored into for the generic mode of this regime on any followed path "
                             "(uninitialised memory is returned as an integration coefficient)", key=f"C01-R1|get_su_coef|{tag}|never assigned")
                    continue
                for x in COEFS:
                    need(c[x], f"{tag} coefficient {x}")
                    if _unmodelled(c[x]):
                        raise Unsupported(f"{tag} coefficient {x} is computed through {_unmodelled(c[x])}, which the evaluator does not model")
                    if "idx(" in repr(c[x]):
                        # for one generic mode every selection is resolved (the mode's own value, or nothing): a selection left standing was not lowered
                        raise Unsupported(f"{tag} coefficient {x} contains a selection that was not resolved for the generic mode: {c[x]!r}"[:300])
            except RegimeRaises as e:
                ctx.fail(f"{tag}: get_su_coef returns coefficients for a mode of this regime", e.node,
                         "the evaluation for the generic mode of this regime ends in a `raise` (the mode is selected by no regime mask, or by two)")
                continue
            except Unsupported as e:
                ctx.error(f"{tag}: extraction", fn, str(e))
                continue
            sets[(regime, m_none)] = (c, par)
            sel = _selector_nodes(ev, par, regime)
            if not m_none:
                sel_all[regime] = sel
            if regime not in where:
                hit = [s for s in sel if s[5] is True]
                where[regime] = hit[0][0] if hit else fn
    # the regime partition itself: under <=> w2/wo2 >= +c ; crit <=> |.| < c ; over <=> <= -c.  Read from the comparisons of w2/wo2 that the
    # under-damped mode (positive side) and the over-damped mode (negative side) met: on each side exactly one lower and one upper bound with the
    # same threshold and opposite strictness (complementary sets), and the two thresholds mirror each other
    side = {}
    for regime, sgn in (("under", 1), ("over", -1)):
        ent = []
        for node, o, has_abs, T, pm, r in sel_all.get(regime, []):
            if not T.is_const():
                continue
            t = T.const_value()
            if has_abs:     # |q| with q = pm * c * w2/wo2 on the side of the regime:  |q| = sgn * pm * q
                pm = pm * sgn * pm
            if pm < 0:      # the mode quantity is -c * w2/wo2:  -x op t  <=>  x op' -t
                t = -t
                o = {ast.Lt: ast.Gt, ast.LtE: ast.GtE, ast.Gt: ast.Lt, ast.GtE: ast.LtE}[o]
            if t * sgn > 0:
                ent.append((">" if o in (ast.Gt, ast.GtE) else "<", o in (ast.Gt, ast.Lt), t, node))
        side[regime] = ent
    okp = all(len(side[r]) == 2 and {e[0] for e in side[r]} == {">", "<"} and side[r][0][2] == side[r][1][2] and side[r][0][1] != side[r][1][1] for r in side)
    if not all(len(side[r]) == 2 for r in side):
        ctx.error("regime thresholds: the comparisons of w2/wo2 that split the elastic modes were not all recognised", fn,
                  {r: [(e[0], str(e[2])) for e in side[r]] for r in side})
    else:
        okp = okp and side["under"][0][2] == -side["over"][0][2] and side["under"][0][2] > 0
        ctx.check(okp, "regime thresholds contiguous (under >= c, |crit| < c, over <= -c)", side["under"][0][3],
                  {r: [(e[0], "strict" if e[1] else "non-strict", str(e[2])) for e in side[r]] for r in side})
    for regime in REGIMES:
        for m_none in (False, True):
            if (regime, m_none) not in sets:
                continue
            tag = regime + ("/m=None" if m_none else "")
            c, par = sets[(regime, m_none)]
            wh = where.get(regime, fn)
            ids, init = _ode_identities(c, par)
            for nm, lhs, rhs in ids:
                try:
                    ok = lhs.equals(rhs)
                except Unsupported as e:
                    ctx.error(f"{tag}: {nm}", wh, str(e))
                    continue
                ctx.check(ok, f"{tag}: {nm}", wh,
                          None if ok else {"lhs": repr(lhs), "rhs": repr(rhs)})
            for nm, expr, val in init:
                try:
                    s = F.series(expr, "h", 0)
                    ok = s.val >= 0 and s.coef(0).equals(val)
                    got_ = repr(s.coef(0)) if s.val >= 0 else f"pole of order {-s.val}"
                except Unsupported as e:
                    ctx.error(f"{tag}: {nm}", wh, str(e))
                    continue
                ctx.check(ok, f"{tag}: h->0 limit {nm}", wh, None if ok else {"got": got_, "want": val})
    # (d) regime continuity
    for m_none in (False, True):
        sfx = "/m=None" if m_none else ""
        if ("crit", m_none) in sets:
            crit = sets[("crit", m_none)][0]
            for r in ("under", "over"):
                if (r, m_none) not in sets:
                    continue
                c = sets[(r, m_none)][0]
                for x in COEFS:
                    try:
                        s = F.series(c[x], "w", 0)
                        ok = s.val >= 0 and s.coef(0).equals(crit[x])
                    except Unsupported as e:
                        ctx.error(f"continuity {r}->crit {x}{sfx}", where.get(r, fn), str(e))
                        continue
                    ctx.check(ok, f"continuity: lim w->0 of {r} {x} = critical {x}{sfx}", where.get(r, fn),
                              None if ok else {"limit": repr(s.coef(0)) if s.val >= 0 else "singular",
                                               "critical": repr(crit[x])})
        if ("rbd", m_none) in sets and ("rb", m_none) in sets:
            rb = sets[("rb", m_none)][0]
            c = sets[("rbd", m_none)][0]
            for x in COEFS:
                try:
                    s = F.series(c[x], "beta", 0)
                    ok = s.val >= 0 and s.coef(0).equals(rb[x])
                except Unsupported as e:
                    ctx.error(f"continuity rbd->rb {x}{sfx}", where.get("rbd", fn), str(e))
                    continue
                ctx.check(ok, f"continuity: lim b->0 of damped-rb {x} = undamped-rb {x}{sfx}", where.get("rbd", fn),
                          None if ok else {"limit": repr(s.coef(0)) if s.val >= 0 else "singular",
                                           "rb": repr(rb[x])})


# ---------------------------------------------------------------------------
def r1b_regime_selectors(ctx):
    """Regime selection must be a function of the mass-normalised problem only, otherwise supplying the mass as None / vector /
    matrix (same mathematical problem) would select different formulas; and the near-zero-eigenvalue override of the complex path
    must not depend on the step (its accumulated error is |lambda| * t, independent of h).  Decided on values: get_su_coef is evaluated for the
    generic mode of every regime with b = 2 beta m, k = wo2 m; both operands of every mode-selecting comparison must be free of m."""
    from .c01_coef import run_su_coef, run_complex_coefs, REGIMES, mass_invariant, RegimeRaises
    from .c01_ev import Sem01, unsym, Uninit
    fn = ctx.src.func(UTIL, "get_su_coef")
    seen = {}      # id(node) -> [node, set of raw symbols the operands depend on]
    for regime in REGIMES:
        for rb_given in (True, False):
            try:
                c, par, ev = run_su_coef(ctx, fn, regime, False, rb_given)
            except RegimeRaises as e:
                ev = e.ev          # reported by C01-R1; the comparisons met before the raise are still examined
            except Unsupported as e:
                ctx.error(f"get_su_coef ({regime}): selectors", fn, str(e))
                continue
            for node, op, L, R, r in ev.cmp_log:
                ent = seen.setdefault(id(node), [node, set(), 0])
                ent[2] += r is not None
                if not mass_invariant(L, R):
                    ent[1].add("m")
    nsel = 0
    for node, raw, decided in seen.values():
        if not decided:
            continue          # a comparison that selects nothing for any regime (its result is masked out)
        nsel += 1
        label = ast.unparse(node)[:80]
        ok = not raw
        ctx.check(ok, f"get_su_coef: the mode selector `{label}` depends only on mass-normalised quantities (C = b/2m, wo2 = k/m, w2, h)", node,
                  None if ok else f"with b = 2 beta m, k = wo2 m the truth of `{label}` still depends on the mass: the same system given with a mass vector and "
                                  "with m=None (mass-normalised b, k) would be sent to different coefficient formulas",
                  key=f"C01-R1b|get_su_coef|{label}")
    if nsel >= 6:
        ctx.ok(f"regime-selector rule bound to {nsel} predicates", fn)
    else:
        ctx.error(f"regime-selector rule bound to {nsel} predicates only (the mode-selecting comparisons of get_su_coef were not reached)", fn)
    # ---- complex path
    fn2 = ctx.src.func(SOLVEUNC, "SolveUnc._get_complex_su_coefs")
    lam, h = F.sym("lam"), F.sym("h")
    el, ev_el = run_complex_coefs(ctx, fn2, "el")
    rbv, ev_rb = run_complex_coefs(ctx, fn2, "rbl")
    sel = {}
    for ev in (ev_el, ev_rb):
        for node, op, L, R, r in ev.cmp_log:
            ent = sel.setdefault(id(node), [node, False, 0])
            ent[1] = ent[1] or L.depends_on("h") or R.depends_on("h")
            ent[2] += r is not None
    sel = [e for e in sel.values() if e[2]]
    if len(sel) != 1:
        raise AnchorError("_get_complex_su_coefs: the near-zero-eigenvalue selector (one comparison of |lambda| with a cut-off)")
    ok = not sel[0][1]
    ctx.check(ok, "_get_complex_su_coefs: the near-zero-eigenvalue selector depends on lambda only", sel[0][0],
              None if ok else f"`{ast.unparse(sel[0][0])[:80]}` depends on h: replacing e^(lambda h) by 1 accumulates an error |lambda| t that does not shrink "
                              "with h, so a cut-off scaled by h turns slow (non-rigid) modes into pure integrators",
              key="C01-R1b|_get_complex_su_coefs|selector")
    # a store that sits behind a test on *all* eigenvalues (np.all(x) with x true for the generic one) is reached or not depending on the other
    # eigenvalues: both outcomes occur for some system, so the coefficients are examined under each of them
    variants = [("", el, rbv)]
    if ev_el.skipped or ev_rb.skipped:
        variants = []
        for others, sfx in ((True, " [when the test on all eigenvalues holds]"), (False, " [when another eigenvalue fails the test on all eigenvalues]")):
            el_, e1 = run_complex_coefs(ctx, fn2, "el", others)
            rb_, e2 = run_complex_coefs(ctx, fn2, "rbl", others)
            variants.append((sfx, el_, rb_))

    # rigid-body overrides are the lambda -> 0 limits of the elastic formulas (DESIGN C01-R1(e))
    def good(v):
        return v is not None and not is_unknown(v) and isinstance(v, F.Rat)
    for sfx, el, rbv in variants:
        for nm in ("Fe", "Ae", "Be"):
            for kind_, tab_ in (("an elastic", el), ("a near-zero", rbv)):
                if isinstance(tab_.get(nm), Uninit):
                    ctx.fail(f"_get_complex_su_coefs: the entry of {nm} for {kind_} eigenvalue is assigned before the array is published{sfx}", fn2,
                             f"{nm} is created by np.empty and no store reaches the entry of {kind_} eigenvalue on any followed path: uninitialised memory is used as "
                             "an integration coefficient", key=f"C01-R1b|_get_complex_su_coefs|{nm} never assigned|{kind_}")
        for nm in ("Ae", "Be"):
            if isinstance(el.get(nm), Uninit) or isinstance(rbv.get(nm), Uninit):
                continue          # reported above
            if not good(el.get(nm)) or not good(rbv.get(nm)):
                ctx.error(f"_get_complex_su_coefs: {nm}{sfx}", fn2, {"elastic": repr(el.get(nm))[:200], "rigid": repr(rbv.get(nm))[:200]})
                continue
            sr = F.series(el[nm], "lam", 0)
            ok = sr.val >= 0 and sr.coef(0).equals(rbv[nm])
            _chk(ctx, ok, f"_get_complex_su_coefs: the rigid-body override of {nm} is the lambda->0 limit of the elastic formula{sfx}", fn2,
                 None if ok else {"limit": repr(sr.coef(0)) if sr.val >= 0 else "singular", "override": repr(rbv[nm])}, vals=(el[nm], rbv[nm]))
        if good(el.get("Ae")) and good(el.get("Be")):
            E = F.exp(lam * h)
            ok = (el["Ae"] + el["Be"]).equals((E - 1) / lam)
            _chk(ctx, ok, f"_get_complex_su_coefs: Ae + Be = (e^(lambda h) - 1)/lambda (constant-force integral){sfx}", fn2,
                 None if ok else repr(el["Ae"] + el["Be"])[:300], vals=(el["Ae"], el["Be"]))
            # Be = int_0^h e^{lam (h - t)} t/h dt = (e^{lam h} - 1 - lam h)/(lam^2 h)
            ok = el["Be"].equals((E - 1 - lam * h) / (lam * lam * h))
            _chk(ctx, ok, f"_get_complex_su_coefs: Be = (e^(lambda h) - 1 - lambda h)/(lambda^2 h) (ramp-force integral){sfx}", fn2,
                 None if ok else repr(el["Be"]), vals=(el["Be"],))
        Fe = el.get("Fe")
        ok = good(Fe) and Fe.equals(F.exp(lam * h))
        _chk(ctx, ok, f"_get_complex_su_coefs: Fe = e^(lambda h){sfx}", fn2, None if ok else repr(Fe), vals=(Fe,) if Fe is not None else (Unknown_("Fe is not published"),))
        if good(rbv.get("Fe")):
            _chk(ctx, rbv["Fe"].equals(1), f"_get_complex_su_coefs: the rigid-body override of Fe is 1{sfx}", fn2, repr(rbv["Fe"])[:200], vals=(rbv["Fe"],))
        else:
            ctx.error(f"_get_complex_su_coefs: Fe of a near-zero eigenvalue{sfx}", fn2, repr(rbv.get("Fe")))
    # get_su_eig rigid-body constants equal the undamped rb coefficient set with m = 1:  G = h, A = h^2/3, Ap = h/2
    fn3 = ctx.src.func(SOLVEUNC, "SolveUnc.get_su_eig")
    H_ = F.sym("<step>")         # not the name of a plausible local: an unbound `h` must not be mistaken for self.h
    S = Sem01(ctx, fn3, env={"self.h": H_}, truth={"<step>": True, "self.rbsize": True, "self.elsize": True}, nonnull={"<step>"})
    ret = S.ret()
    from .c01_ev import DictV
    roots = [k for k, v in S.ev.env.items() if "." not in k and isinstance(v, F.Rat) and isinstance(ret, F.Rat) and v.equals(ret) and unsym(v) is None]
    want = {"G": H_, "A": H_ * H_ / 3, "Ap": H_ / 2}
    for nm, w in want.items():
        v = None
        if isinstance(ret, DictV):          # the returned namespace object itself (fields set directly, through setattr or by a helper)
            v = S.ev.plain(ret.d.get(nm))
        for r in roots:
            v = S.ev.env.get(f"{r}.{nm}", v)
        ok = v is not None and not is_unknown(v) and isinstance(v, F.Rat) and v.equals(w)
        ctx.check(ok, f"get_su_eig: pc.{nm} equals the undamped rigid-body coefficient for unit mass ({str(w).replace('<step>', 'h')})", fn3,
                  None if ok else repr(v))


# ---------------------------------------------------------------------------
# C01-R3  partition-space typing, C01-R5 state-half typing (same engine)
def r3_partition_typing(ctx):
    from . import ode_spaces as O
    U, E, X = O.mode_U(), O.mode_E(), O.exp2_attrs()
    plan = [
        (O.BASE, "_BaseODE._init_dv", U, "mode U"), (O.BASE, "_BaseODE._init_dv", E, "mode E"),
        (O.BASE, "_BaseODE._init_dva", U, "mode U"), (O.BASE, "_BaseODE._init_dva_part", U, "mode U"),
        (O.BASE, "_BaseODE._calc_acce_kdof", U, "mode U"), (O.BASE, "_BaseODE._calc_acce_kdof", E, "mode E"),
        (O.BASE, "_BaseODE._inv_mrb", U, "before re-partition"),
        (O.BASE, "_BaseODE._build_A", U, "mode U"),
        (O.UNC, "SolveUnc.get_su_eig", U, "entry: mode U tables"),
        (O.UNC, "SolveUnc._solve_real_unc", U, "mode U"),
        (O.UNC, "SolveUnc._solve_real_unc_cdforces", U, "mode U"),
        (O.UNC, "SolveUnc._solve_complex_unc", E, "mode E"),
        (O.SE2, "SolveExp2.__init__", X, "SolveExp2"),
        (O.SE2, "SolveExp2.tsolve", X, "SolveExp2"),
    ]
    tot = 0
    for rel, q, attrs, label in plan:
        extra = None
        if q.endswith("SolveExp2.__init__"):
            from .e3_spaces import Arr
            extra = {"E": Arr("S2", "S2")}
        T, okn, nbad = O.type_function(ctx, rel, q, attrs, label, extra, rule="C01-R3")
        tot += okn + nbad
    from .c01_rb import su_coef_call_spaces
    su_coef_call_spaces(ctx, U, "C01-R3")          # as ode_spaces.check_su_coef_call, on the values that reach get_su_coef's parameters
    # SolveExp2.__init__: the four blocks of E are named after the halves they connect
    fn = ctx.src.func(O.SE2, "SolveExp2.__init__")
    want = {"E_vv": ("v", "v"), "E_vd": ("v", "d"), "E_dv": ("d", "v"), "E_dd": ("d", "d")}
    from .e3_spaces import Arr, Typer
    T = Typer(X, {"E": Arr("S2", "S2")}, O.SIZE_NAMES)
    for st in walk_no_nested(fn):
        if isinstance(st, ast.Assign) and isinstance(st.targets[0], ast.Attribute) and st.targets[0].attr in want:
            t = T.ty(st.value)
            nm = st.targets[0].attr
            if not isinstance(t, Arr) or t.r is None or None in tuple(t.r):
                continue          # not resolved by the typer (selection in steps, named slices ...): decided on values by C01-R9
            ok = t.r == want[nm]
            ctx.check(ok, f"SolveExp2.__init__: self.{nm} is the ({want[nm][0]}, {want[nm][1]}) block of E for the [v; d] state of _build_A", st,
                      None if ok else repr(t), key=f"C01-R5|SolveExp2.__init__|{nm}")
    # the [v; d] layout itself: _build_A puts the velocity equations in rows :n (A[v2, v1] = 1 is d' = v) - read from the stores into the returned matrix
    _state_layout(ctx, O.BASE)


def _half(v):
    """(which half, n) of a row / column selector of the 2n x 2n state matrix: range(n) / :n / np.arange(n) -> first; range(n, 2n) / n: / n:2n -> second"""
    from .sem import unfn
    u = unfn(v)
    if not u:
        return None
    nm, args = u
    if any(isinstance(x, str) for x in args):
        return None
    NONE_ = F.sym("None")
    if nm in ("call:range", "call:np.arange", "call:numpy.arange"):
        if len(args) == 1:
            return "first", args[0]
        if len(args) == 2 and args[0].is_zero() and not args[1].is_zero():
            return "first", args[1]          # range(0, n)
        if len(args) == 2 and args[1].equals(2 * args[0]) and not args[0].is_zero():
            return "second", args[0]
        if len(args) in (1, 2):
            return "other", None
        return None                          # a step: not decided here
    if nm == "slice" and len(args) == 3 and (args[2].equals(NONE_) or args[2].equals(1)):
        lo, hi = args[0], args[1]
        if lo.is_zero():
            lo = NONE_                       # `0:n` is `:n`
        if lo.equals(NONE_) and not hi.equals(NONE_):
            return "first", hi
        if not lo.equals(NONE_) and (hi.equals(NONE_) or hi.equals(2 * lo)):
            return "second", lo
        return "other", None
    return None


def _state_layout(ctx, rel):
    from .c01_ev import Sem01, NONE
    from .sem import unfn
    fb = ctx.src.func(rel, "_BaseODE._build_A")
    for unc in (True, False):
        S = Sem01(ctx, fb, truth={"self.unc": unc}, env={"self.m": NONE, "self.b": F.sym("b"), "self.k": F.sym("k")})
        ret = S.ret()
        from .c01_ev import unsym
        name = unsym(ret) if isinstance(ret, F.Rat) else None
        blocks = {}
        nval = None
        good = name is not None
        for ix, val, st in (S.cells(name) if name else []):
            u = unfn(ix) if not is_unknown(ix) else None
            if not (u and u[0] == "tuple" and len(u[1]) == 2):
                good = False
                continue
            hr, hc = _half(u[1][0]), _half(u[1][1])
            if hr is None or hc is None:
                good = False
                continue
            if hr[0] == "other" or hc[0] == "other" or not hr[1].equals(hc[1]) or (nval is not None and not hr[1].equals(nval)):
                blocks[("other", len(blocks))] = val          # a range / slice that is provably neither half of the state
                continue
            nval = hr[1]
            blocks[(hr[0], hc[0])] = val
        if not good or not blocks:
            ctx.error(f"_build_A ({'diagonal' if unc else 'coupled'}): the stores into the state matrix were not lowered", fb, repr(S.cells(name) if name else ret)[:300])
            continue
        okv = lambda key, w: key in blocks and isinstance(blocks[key], F.Rat) and blocks[key].equals(w)
        ok = okv(("second", "first"), 1) and okv(("first", "first"), -F.sym("b")) and okv(("first", "second"), -F.sym("k")) and len(blocks) == 3
        ctx.check(ok, f"_build_A ({'diagonal' if unc else 'coupled'}): state is [v; d] (rows :n are the velocity equations -b v - k d, rows n: are d' = v)", fb,
                  None if ok else {f"{r}/{c}": repr(v_)[:80] for (r, c), v_ in blocks.items()})


def r4_frame_typing(ctx):
    """pre_eig path, decided on values: _do_pre_eig, _init_dva, _solution and _solution_freq are evaluated on symbols (matrices as commuting
    symbols, the eigenvector matrix u normalised as la.eigh does: u.T m u = I, i.e. u = m^-1/2 in this model).  Whatever the spelling - a
    solve against phi, a stored inverse, a transpose times the mass - the user's physical d0 / v0 must reach the modal work arrays as
    phi^-1 d0, the force as phi.T f, and the solution must come back as phi d."""
    from . import ode_spaces as O
    from .c01_ev import Sem01, helpers
    NONE = F.sym("None")
    inl = helpers(ctx, (O.BASE, "_BaseODE"), exclude=("_init_dv", "_alloc_dva", "_init_dva", "_do_pre_eig", "_solution", "_solution_freq", "_calc_acce_kdof"))

    def Sem(ctx_, fn_, **kw):
        kw.setdefault("inline", inl)
        kw.setdefault("nonnull", {"M", "d0", "v0", "f", "b", "k", "u"})
        if kw.get("cond") is not None and hasattr(kw["cond"], "truth"):
            kw.setdefault("truth", kw["cond"].truth)
        return Sem01(ctx_, fn_, **kw)
    f_pre = ctx.src.func(O.BASE, "_BaseODE._do_pre_eig")
    f_dva = ctx.src.func(O.BASE, "_BaseODE._init_dva")

    def is_none_oracle(extra):
        """`X.ndim == c` decided from a table keyed on the *value* X; truthiness of attributes (`self.pre_eig`, `self.rfsize`, `self.h`) is given to the
        evaluator as `truth=`; `x is None` is decided on values by the evaluator itself"""
        nd = {k[:-len(".ndim==1")]: v for k, v in extra.items() if k.endswith(".ndim==1")}

        def cond(test, ev):
            from .sem import unfn
            from .c01_ev import unsym, const_of
            if isinstance(test, ast.Compare) and len(test.ops) == 1 and isinstance(test.ops[0], ast.Eq):
                a_, b_ = ev.ev(test.left), ev.ev(test.comparators[0])
                for x, y in ((a_, b_), (b_, a_)):
                    u = unfn(x) if isinstance(x, F.Rat) else None
                    c = const_of(y) if isinstance(y, F.Rat) else None
                    if u and u[0] == "attr:ndim" and c is not None and not isinstance(u[1][0], str):
                        nm = unsym(u[1][0])
                        nm = {"M": "m"}.get(nm, nm)
                        if nm in nd:
                            return (1 if nd[nm] else 2) == c
            return None
        cond.truth = {k: v for k, v in extra.items() if not k.endswith(".ndim==1")}
        return cond

    for mcase in ("given", "None"):
        M = F.sym("M") if mcase == "given" else F.const(1)
        U = 1 / F.sqrt(M) if mcase == "given" else F.const(1)
        Usym = F.sym("u")

        def call(node, ev):
            d = dotted(node.func) or ""
            if d.endswith("eigh"):
                return (F.sym("w"), Usym)
            if d in ("np.diag",) and node.args:
                return ev.ev(node.args[0])
            if d == "ytools.mattype":
                return (F.sym("ktype"), F.sym("types"))
            if d in ("la.solve", "np.linalg.solve", "scipy.linalg.solve", "linalg.solve") and len(node.args) >= 2:
                a, b = ev.ev(node.args[0]), ev.ev(node.args[1])
                if is_unknown(a) or is_unknown(b) or isinstance(a, tuple) or isinstance(b, tuple):
                    return NotImplemented
                return need(b) / need(a)
            if d in ("la.inv", "np.linalg.inv", "linalg.inv") and node.args:
                a = ev.ev(node.args[0])
                return 1 / need(a) if not is_unknown(a) else NotImplemented
            if d == "self._set_initial_cond" and len(node.args) == 2:
                return (ev.ev(node.args[0]), ev.ev(node.args[1]))
            if d == "self._alloc_dva":
                return (F.sym("d_work"), F.sym("v_work"), F.sym("a_work"))
            return NotImplemented

        bsym = F.sym("b")

        def mm_binop(node, a_, b_, ev):
            # a matrix product in which the damping itself is an operand is kept apart from the elementwise product: a damping *vector* must be
            # applied as a row / column scaling (u.T * b @ u), a damping *matrix* by two matrix products (u.T @ b @ u)
            if isinstance(node.op, ast.MatMult) and isinstance(a_, F.Rat) and isinstance(b_, F.Rat) and (a_.equals(bsym) or b_.equals(bsym)):
                return F.fn("mm", a_, b_)
            return NotImplemented

        for bdim in (1, 2):
            S1 = Sem(ctx, f_pre, call=call, erase_T=True, env={"m": (F.sym("M") if mcase == "given" else NONE), "b": bsym, "k": F.sym("k")}, binop=mm_binop,
                     cond=is_none_oracle({"k.ndim==1": True, "m.ndim==1": True, "b.ndim==1": bdim == 1}))
            ret = S1.ret()
            wantb = [Usym * bsym * Usym] if bdim == 1 else [F.fn("mm", Usym, bsym) * Usym, Usym * F.fn("mm", bsym, Usym)]
            ok = isinstance(ret, tuple) and len(ret) == 3 and S1.same(ret[0], NONE) and S1.same(ret[2], F.sym("w")) and any(S1.same(ret[1], w_) for w_ in wantb) \
                and S1.same(S1.env("self.phi"), Usym)
            _chk(ctx, ok, f"_do_pre_eig (m {mcase}, b {bdim}-D): phi = eigenvectors of (k, m); returns m -> None, k -> eigenvalues, b -> phi.T b phi "
                 + ("(a damping vector scales the rows of phi)" if bdim == 1 else "(a damping matrix is multiplied from both sides)"), f_pre,
                 None if ok else repr(ret), vals=(ret if isinstance(ret, tuple) else (ret,)) + (S1.env("self.phi"),))
        attrs = {k: v for k, v in S1.ev.env.items() if k.startswith("self.") and not is_unknown(v)}
        env = dict(attrs)
        env.update({"d0": F.sym("d0"), "v0": F.sym("v0"), "force": F.sym("f")})

        def sub(node, ev):
            if isinstance(node.value, ast.Name) and node.value.id == "force":
                return ev.ev(node.value)
            return NotImplemented

        S2 = Sem(ctx, f_dva, call=call, env=env, subscript=sub, erase_T=True,
                 cond=is_none_oracle({"self.pre_eig": True, "self.rfsize": False}))
        calls = S2.calls("self._init_dv")
        if len(calls) != 1:
            raise AnchorError("_init_dva: call to self._init_dv")
        tgt = ctx.src.func(O.BASE, "_BaseODE._init_dv")
        pnames = [a.arg for a in tgt.args.args][1:]
        vals = dict(zip(pnames, calls[0][1]))
        vals.update(calls[0][2])

        def norm(x):
            # eigenvectors normalised with respect to the mass: u = M^-1/2 (commuting model)
            return need(x).subs({"u": U})
        for nm, kind in (("d0", "inv"), ("v0", "inv"), ("F0", "T")):
            got = vals.get(nm)
            if got is None or is_unknown(got) or isinstance(got, tuple):
                ctx.error(f"_init_dva (pre_eig, m {mcase}): argument `{nm}` of _init_dv", calls[0][3], repr(got))
                continue
            usr = {"d0": "d0", "v0": "v0", "F0": "f"}[nm]
            if kind == "inv":
                res = norm(got) * U - F.sym(usr)           # phi * (modal value) must give back the physical value
            else:
                res = norm(got) - U * M * 0 - U * F.sym(usr) if False else norm(got) - U * F.sym(usr)   # phi.T f
            ok = res.is_zero()
            if not ok and _unmodelled(got):
                ctx.error(f"_init_dva (pre_eig, m {mcase}): argument `{nm}` of _init_dv is computed through {_unmodelled(got)}, which the evaluator does not model",
                          calls[0][3], repr(got)[:300])
                continue
            ctx.check(ok, f"_init_dva (pre_eig, m {mcase}): user array `{usr}` reaches _init_dv as " +
                      ("phi^-1 " + usr if kind == "inv" else "phi.T " + usr) + " (physical -> modal coordinates)", calls[0][3],
                      None if ok else {"value passed": repr(got), "with u = M^-1/2": repr(norm(got)),
                                       "witness": f"coupled system, pre_eig=True, non-identity mass, non-zero {usr}: sol.{usr[0]}[:, 0] != {usr}"},
                      key=f"C01-R4|_BaseODE._init_dva|{usr} not mapped by phi")
        ret = S2.ret()
        ok = isinstance(ret, tuple) and len(ret) == 4 and not is_unknown(ret[3]) and isinstance(ret[3], F.Rat) and (norm(ret[3]) - U * F.sym("f")).is_zero()
        _chk(ctx, ok, f"_init_dva (pre_eig, m {mcase}): the force returned to the solver is the modal force phi.T f", f_dva, None if ok else repr(ret),
             vals=(ret[3],) if isinstance(ret, tuple) and len(ret) == 4 else ())
        # the way back
        for q in ("_BaseODE._solution", "_BaseODE._solution_freq"):
            f2 = ctx.src.func(O.BASE, q)
            S3 = Sem(ctx, f2, call=call, env=dict(attrs), erase_T=True, cond=is_none_oracle({"self.pre_eig": True, "self.h": True}))
            ns = S3.calls("SimpleNamespace")
            ok = len(ns) == 1 and all(S3.same(ns[0][2].get(x), Usym * F.sym(x)) for x in "dva")
            _chk(ctx, ok, f"{q} (m {mcase}): d, v, a are mapped back to physical coordinates with phi when pre_eig", f2,
                 vals=tuple(ns[0][2].get(x) for x in "dva") if len(ns) == 1 else ())
    # and nothing is mapped when pre_eig is off
    S4 = Sem(ctx, f_dva, env={"d0": F.sym("d0"), "v0": F.sym("v0"), "force": F.sym("f")},
             cond=is_none_oracle({"self.pre_eig": False, "self.rfsize": False}),
             call=lambda node, ev: ((ev.ev(node.args[0]), ev.ev(node.args[1])) if dotted(node.func) == "self._set_initial_cond" else
                                    ((F.sym("d_work"), F.sym("v_work"), F.sym("a_work")) if dotted(node.func) == "self._alloc_dva" else NotImplemented)),
             subscript=lambda node, ev: (ev.ev(node.value) if isinstance(node.value, ast.Name) and node.value.id == "force" else NotImplemented))
    c4 = S4.calls("self._init_dv")
    if len(c4) != 1:
        raise AnchorError("_init_dva: call to self._init_dv")
    tgt4 = [a.arg for a in ctx.src.func(O.BASE, "_BaseODE._init_dv").args.args][1:]
    v4 = dict(zip(tgt4, c4[0][1]))          # by the signature of _init_dv: positional or keyword
    v4.update(c4[0][2])
    ok = S4.same(v4.get("d0"), F.sym("d0")) and S4.same(v4.get("v0"), F.sym("v0")) and S4.same(v4.get("F0"), F.sym("f"))
    _chk(ctx, ok, "_init_dva (no pre_eig): d0, v0 and the force reach _init_dv unchanged", c4[0][3], None if ok else {k_: repr(v4.get(k_))[:120] for k_ in ("d0", "v0", "F0")},
         vals=tuple(v4.get(k_) if v4.get(k_) is not None else Unknown_(f"no argument {k_}") for k_ in ("d0", "v0", "F0")))
    # generator refuses pre_eig before any array is shared: on the pre_eig path the evaluation of _init_dva_part ends in a `raise` and no work array has
    # been requested before it
    f4 = ctx.src.func(O.BASE, "_BaseODE._init_dva_part")
    S5 = Sem(ctx, f4, cond=is_none_oracle({"self.pre_eig": True}), env={"F0": F.sym("F0"), "d0": F.sym("d0"), "v0": F.sym("v0")})
    ok = S5.ev.raised is not None and not S5.calls("self._alloc_dva") and not S5.calls("self._init_dv")
    ctx.check(ok, "_init_dva_part (generator path): pre_eig is refused before any array is allocated", S5.ev.raised or f4)

    def call6(node, ev):
        dn = dotted(node.func) or ""
        if dn == "self._set_initial_cond" and len(node.args) == 2:
            return (ev.ev(node.args[0]), ev.ev(node.args[1]))
        if dn == "self._alloc_dva":
            return (F.sym("d_work"), F.sym("v_work"), F.sym("a_work"))
        return NotImplemented
    S6 = Sem(ctx, f4, cond=is_none_oracle({"self.pre_eig": False, "self.rfsize": False}), call=call6, env={"F0": F.sym("F0"), "d0": F.sym("d0"), "v0": F.sym("v0")})
    c6 = S6.calls("self._init_dv")
    tgt6 = [a.arg for a in ctx.src.func(O.BASE, "_BaseODE._init_dv").args.args][1:]
    v6 = dict(zip(tgt6, c6[0][1])) if len(c6) == 1 else {}
    v6.update(c6[0][2] if len(c6) == 1 else {})
    from .c01_ev import unsym as _unsym
    for k_ in ("d", "v"):        # a work array that is also filled in place is a buffer of the evaluator: what it was created from stands for it
        n_ = _unsym(v6.get(k_)) if isinstance(v6.get(k_), F.Rat) else None
        if n_ is not None and f"<init:{n_}>" in S6.ev.env:
            v6[k_] = S6.ev.env[f"<init:{n_}>"]
    ok = S6.ev.raised is None and len(S6.calls("self._alloc_dva")) == 1 and len(c6) == 1 and S6.same(v6.get("d"), F.sym("d_work")) and S6.same(v6.get("v"), F.sym("v_work")) \
        and S6.same(v6.get("d0"), F.sym("d0")) and S6.same(v6.get("v0"), F.sym("v0")) and S6.same(v6.get("F0"), F.sym("F0"))
    ctx.check(ok, "_init_dva_part (generator path, no pre_eig): the work arrays of _alloc_dva and the user's d0, v0, F0 reach _init_dv unchanged", c6[0][3] if c6 else f4,
              None if ok else {k_: repr(x)[:80] for k_, x in v6.items()})


# ---------------------------------------------------------------------------
# C01-R6  acceleration recovered from equilibrium
BASEF = "pyyeti/ode/_base_ode_class.py"


def _dd(x, zero_diag=()):
    """the diagonal part (as a matrix) of x; 0 for the matrices the rule declares zero-diagonal"""
    from .c01_ev import unsym
    if unsym(x) in zero_diag:
        return F.const(0)
    return F.fn("dd", x)


def _diag_ev(zero_diag=()):
    from .c01_ev import Ev01, unfn as _unfn, const_of

    class DiagEv(Ev01):
        """matrices as commuting symbols with their diagonal part dd(X) kept apart: the idiom `X[i, i] = y` with i = np.arange(n) (and
        np.fill_diagonal(X, y)) replaces the diagonal of the local matrix X: X becomes X - dd(X) + y;  np.diag(np.diag(X)) is dd(X)"""

        def _set_diag(self, nm, y):
            cur = self.env.get(f"<init:{nm}>") if nm in self.buffers else self.env.get(nm)
            if isinstance(cur, F.Rat) and isinstance(y, F.Rat):
                self.buffers = set(self.buffers) - {nm}
                self.env[nm] = cur - _dd(cur, zero_diag) + y
                return True
            return False

        def scalar_store(self, target, base, v, st, aug):
            sl = target.slice
            if isinstance(target.value, ast.Name) and isinstance(sl, ast.Tuple) and len(sl.elts) == 2 and not aug:
                i, j = self.ev(sl.elts[0]), self.ev(sl.elts[1])
                if isinstance(i, F.Rat) and isinstance(j, F.Rat) and i.equals(j):
                    u = _unfn(i)
                    if u and u[0] in ("call:np.arange", "call:range") and self._set_diag(target.value.id, self.plain(v)):
                        return
            return super().scalar_store(target, base, v, st, aug)

        def builtin_call(self, d, node):
            if d == "np.fill_diagonal" and len(node.args) == 2 and isinstance(node.args[0], ast.Name):
                if self._set_diag(node.args[0].id, self.ev(node.args[1])):
                    return F.sym("None")
            if d == "np.diag" and len(node.args) == 1:
                x = self.ev(node.args[0])
                if isinstance(x, F.Rat):
                    u = _unfn(x)
                    if u and u[0] == "diagvec" and not isinstance(u[1][0], str):
                        return _dd(u[1][0], zero_diag)
                    return F.fn("diagvec", x)
            return super().builtin_call(d, node)
    return DiagEv


def r6_equilibrium_acceleration(ctx):
    """_BaseODE._calc_acce_kdof: in each of its six arms (diagonal / diagonal with off-diagonal damping carried as a force / coupled, each with
    and without a mass) the stored acceleration is M^-1 (F - B v - K d) with B the *full* damping; the split of a coupled damping matrix into
    its diagonal `b` and zero-diagonal remainder `bo` (_chk_diag_part) is undone with the same index idiom; every time-domain solver calls it.
    Decided on values: d, v, a are history objects created by the rule, the rows `self.kdof` of `a` are read after the run (helpers followed)."""
    from .c01_ev import Sem01, Hist, helpers, NONE
    fn = ctx.src.func(BASEF, "_BaseODE._calc_acce_kdof")
    b, bo, k, invm = (F.sym(x) for x in ("b", "bo", "k", "invm"))
    KD = F.sym("self.kdof")
    NT = 2
    f = tuple(F.sym(f"f{i}") for i in range(NT))
    inl = helpers(ctx, (BASEF, "_BaseODE"), exclude=("_calc_acce_kdof", "_init_dva", "_init_dv", "_solution", "_solution_freq", "finalize"))
    arms = [("diagonal, m given", dict(unc=True, cd=False, m=True), lambda Fs, v, d: invm * (Fs - b * v - k * d)),
            ("diagonal, m None", dict(unc=True, cd=False, m=False), lambda Fs, v, d: Fs - b * v - k * d),
            ("diagonal + off-diagonal damping as force, m given", dict(unc=True, cd=True, m=True), lambda Fs, v, d: invm * (Fs - (b + bo) * v - k * d)),
            ("diagonal + off-diagonal damping as force, m None", dict(unc=True, cd=True, m=False), lambda Fs, v, d: Fs - (b + bo) * v - k * d),
            ("coupled, m given", dict(unc=False, cd=False, m=True), lambda Fs, v, d: invm * (Fs - b * v - k * d)),
            ("coupled, m None", dict(unc=False, cd=False, m=False), lambda Fs, v, d: Fs - b * v - k * d)]
    for name, cfg, want in arms:
        d, v, a = Hist("d", NT), Hist("v", NT), Hist("a", NT)
        S = Sem01(ctx, fn, ev_cls=_diag_ev(zero_diag=("bo",)), call=_lu_call, nt=NT, inline=inl, nonnull={"M"},
                  truth={"self.ksize": True, "self.unc": cfg["unc"], "self.cdforces": cfg["cd"], "self.misnotNone": cfg["m"]},
                  env={"self.bo": bo, "self.b": b, "self.k": k, "self.invm": invm, "self.m": F.sym("M") if cfg["m"] else NONE,
                       "d": d, "v": v, "a": a, "force": f})
        ab = a.block(repr(KD), KD)
        got = [(ab.get(i),) for i in range(NT)]
        wantc = [(want(F.fn("idx", f[i], KD), v.initial(repr(KD), KD, i), d.initial(repr(KD), KD, i)),) for i in range(NT)]
        if any(g[0] is None or is_unknown(g[0]) or not isinstance(g[0], F.Rat) for g in got) or not a.stores:
            ctx.error(f"_calc_acce_kdof ({name}): acceleration store not lowered", fn, repr(got)[:400])
            continue
        ok, detail = _hist_steps(ctx, "", fn, got, wantc, ("acceleration",))
        _hcheck(ctx, ok, f"_calc_acce_kdof ({name}): a = M^-1 (F - B v - K d) with the full damping matrix", fn, detail)
    # the zero-diagonal remainder: _chk_diag_part (coupled damping carried as a force: m None, b 2-D and not diagonal, k 1-D, cd_as_force) must publish
    # self.b = diag(b) and self.bo = b - dd(b), both restricted to the non-rf equations when there are rf modes
    cd = ctx.src.func(BASEF, "_BaseODE._chk_diag_part")
    bsym = F.sym("b")

    def cond(test, ev):
        from .sem import unfn
        from .c01_ev import unsym, const_of
        if isinstance(test, ast.Compare) and len(test.ops) == 1 and isinstance(test.ops[0], ast.Eq):
            a_, b_ = ev.ev(test.left), ev.ev(test.comparators[0])
            for x, y in ((a_, b_), (b_, a_)):
                u = unfn(x) if isinstance(x, F.Rat) else None
                c = const_of(y) if isinstance(y, F.Rat) else None
                if u and u[0] == "attr:ndim" and c is not None and not isinstance(u[1][0], str) and unsym(u[1][0]) in ("b", "k"):
                    return {"b": 2, "k": 1}[unsym(u[1][0])] == c
        return None

    def call(node, ev):
        dn = dotted(node.func) or ""
        if dn.endswith("isdiag") and len(node.args) == 1:
            return F.sym("False")
        return NotImplemented

    res = {}
    for rf in (False, True):
        S = Sem01(ctx, cd, ev_cls=_diag_ev(), cond=cond, call=call, truth={"self.rfsize": rf, "cd_as_force": True},
                  env={"m": NONE, "b": bsym, "k": F.sym("k"), "cd_as_force": F.sym("cd_as_force")})
        res[rf] = (S.env("self.b"), S.env("self.bo"), S.env("self.cdforces"), S)
    b0, bo0, cdf, S = res[False]
    good = lambda v: v is not None and not is_unknown(v) and isinstance(v, F.Rat)
    if not good(bo0) or not good(b0):
        ctx.error("_chk_diag_part: construction of the off-diagonal damping `bo` not lowered", cd, {"self.b": repr(b0)[:200], "self.bo": repr(bo0)[:200]})
    else:
        label = ("_chk_diag_part: the damping carried as a force is a copy of b with its diagonal zeroed (bo), so b_diag + bo is the full matrix that "
                 "_calc_acce_kdof reassembles")
        if bo0.equals(bsym - F.fn("dd", bsym)) and b0.equals(F.fn("diagvec", bsym)):
            ctx.ok(label, cd)
        elif bo0.equals(bsym):
            ctx.fail(label, cd, "bo is a copy of the full matrix and its diagonal is never cleared: the diagonal damping is applied twice",
                     key="C01-R6|_chk_diag_part|bo diagonal not zeroed")
        elif bo0.depends_on("b") and b0.depends_on("b"):
            ctx.fail(label, cd, {"self.b": repr(b0)[:200], "self.bo": repr(bo0)[:200], "expected": "self.b = diag(b), self.bo = b - diag part of b"},
                     key="C01-R6|_chk_diag_part|bo")
        else:
            ctx.error("_chk_diag_part: `bo` is built by an idiom the checker does not know", cd, {"self.b": repr(b0)[:200], "self.bo": repr(bo0)[:200]})
    b1, bo1, _c, S1 = res[True]
    if good(b1) and good(bo1) and good(b0) and good(bo0):
        S1.ev.env["BVEC"], S1.ev.env["OFF"] = b0, bo0
        forms = [S1.E(t) for t in ("OFF[np.ix_(self.nonrf, self.nonrf)]", "OFF[self.nonrf][:, self.nonrf]", "OFF[self.nonrf, :][:, self.nonrf]", "OFF[:, self.nonrf][self.nonrf]")]
        ok = S1.same(b1, "BVEC[self.nonrf]") and any(S1.same(bo1, w) for w in forms)
        if ok:
            ctx.ok("_chk_diag_part: b and bo are restricted to the same non-rf rows (and columns)", cd)
        elif bo1.depends_on("self.rf") or b1.depends_on("self.rf") or bo1.equals(bo0) or b1.equals(b0):
            ctx.fail("_chk_diag_part: b and bo are restricted to the same non-rf rows (and columns)", cd, {"self.b": repr(b1)[:200], "self.bo": repr(bo1)[:200]})
        else:
            ctx.error("_chk_diag_part: the non-rf restriction of b / bo was not recognised", cd, {"self.b": repr(b1)[:200], "self.bo": repr(bo1)[:200]})
    else:
        ctx.error("_chk_diag_part: the non-rf restriction of b / bo was not lowered", cd, {"self.b": repr(b1)[:200], "self.bo": repr(bo1)[:200]})
    # callers: every time-domain solution passes through it after the d, v histories are complete, on the arrays that are then returned
    NT = 3
    for rel, q in ((SOLVEUNC, "SolveUnc.tsolve"), ("pyyeti/ode/solveexp2.py", "SolveExp2.tsolve"), (BASEF, "_BaseODE.finalize")):
        f2 = ctx.src.func(rel, q)
        cls = q.split(".")[0]
        inl2 = helpers(ctx, (rel, cls), (BASEF, "_BaseODE"), exclude=UNC_NOT_FOLLOWED)
        configs = [dict(unc=True, cd=False, st="float"), dict(unc=True, cd=True, st="float"), dict(unc=False, cd=False, st="float")] if cls == "SolveUnc" else [dict(unc=True, cd=False, st="float")]
        ok, why, where_ = True, None, f2
        for cfg in configs:
            d, v, a = Hist("d", NT), Hist("v", NT), Hist("a", NT)
            ff = tuple(F.sym(f"f{i}") for i in range(NT))
            events = []

            def call2(node, ev, d=d, v=v, a=a, ff=ff, events=events):
                dn = dotted(node.func) or ""
                if dn == "self._init_dva":
                    return (d, v, a, ff)
                if dn.startswith("self._solve_"):
                    events.append(("solve", dn, node, None))
                    return F.sym("None")
                if dn in ("self._calc_acce_kdof", "self._solution"):
                    events.append((dn, [ev.evr(x) for x in node.args], node, (len(d.stores), len(v.stores))))
                    return F.sym("<solution>") if dn == "self._solution" else F.sym("None")
                return _lu_call(node, ev)
            env = {"force": ff, "self.m": NONE, "self.systype": F.sym(cfg["st"]), "self.order": F.const(1)}
            if q.endswith("finalize"):
                env.update({"self._d": d, "self._v": v, "self._a": a, "self._force": ff})
            S = Sem01(ctx, f2, call=call2, nt=NT, inline=inl2, cmp=_size_cmp("ksize", "self.ksize"), env=env,
                      truth={"self.nonrfsz": True, "self.unc": cfg["unc"], "self.cdforces": cfg["cd"], "self.slices": True, "self.ksize": True})
            acc = [e for e in events if e[0] == "self._calc_acce_kdof"]
            sol = [e for e in events if e[0] == "self._solution"]
            if len(acc) != 1 or len(sol) != 1:
                ok, why = False, f"{len(acc)} calls of _calc_acce_kdof and {len(sol)} of _solution on the path {cfg}"
                break
            where_ = acc[0][2]
            args = acc[0][1]
            same = len(args) >= 4 and args[0] is d and args[1] is v and args[2] is a and isinstance(args[3], tuple) and len(args[3]) == NT and \
                all(isinstance(x, F.Rat) and x.equals(y) for x, y in zip(args[3], ff))
            order_ok = events.index(acc[0]) < events.index(sol[0]) and all(events.index(e) < events.index(acc[0]) for e in events if e[0] == "solve")
            complete = acc[0][3] == (len(d.stores), len(v.stores))
            sol_same = len(sol[0][1]) >= 3 and sol[0][1][0] is d and sol[0][1][1] is v and sol[0][1][2] is a
            if not (same and order_ok and complete and sol_same):
                ok = False
                why = {"arguments are (d, v, a, force)": same, "after the solver, before _solution": order_ok, "no later store into d, v": complete,
                       "_solution receives the same arrays": sol_same, "path": str(cfg)}
                break
        ctx.check(ok, f"{q}: the kdof acceleration is recovered from equilibrium on (d, v, a, force) before the solution is returned", where_, why)


def r7_subspace_typing(ctx):
    """get_su_coef and SolveUnc._get_complex_su_coefs partition the modes by masks and index vectors (under-, critically, over-damped, damped
    rigid-body for velocities / for displacements) and fill the coefficient vectors through those selectors.  Every selection must be applied
    to an array of the space the selector indexes, and every store must receive values computed on exactly the selected modes - otherwise a
    coefficient is built from another mode's mass / damping / frequency (invisible when the properties are uniform or the selected modes are
    the leading ones, as in every test)."""
    from .e3_masks import A, I, S
    from .c01_masks import MaskTyper01 as MaskTyper, AMix, IMix
    from .sem import module_funcs
    base_attrs = {"self.nonrf": I("N", "K"), "self.kdof": I("N", "K"), "self.rf": I("N", "N/rf"), "self.k": A("K"), "self.b": A("K"), "self.m": A("K")}
    for rel, qual, params, sizes, floor in (
            (UTIL, "get_su_coef", {"m": A("K"), "b": A("K"), "k": A("K"), "h": S, "rbmodes": I("K", "K/rbmodes"), "rfmodes": I("K", "K/rfmodes")},
             {"n": "K"}, 60),
            (BASEF, "_BaseODE._make_rb_el", dict(base_attrs, rb=I("N", "N/rb")), {"self.n": "N", "self.ksize": "K"}, 8),
            (BASEF, "_BaseODE._chk_diag_part", {"m": A("N"), "b": A("N"), "k": A("N"), "self.nonrf": I("N", "K"), "self.rf": I("N", "N/rf")}, {}, 6),
            # the complex path: one entry per eigenvalue (space L); near-zero eigenvalues overridden through a mask / index vector
            (SOLVEUNC, "SolveUnc._get_complex_su_coefs", {"lam": A("L"), "h": S}, {}, 6),
    ):
        fn = ctx.src.func(rel, qual)
        bad = []

        def report(kind, node, detail, bad=bad):
            bad.append((kind, node, detail))

        inl = module_funcs(ctx, rel, cls=qual.split(".")[0] if "." in qual else None, exclude=(qual.split(".")[-1], "_ensure_index_type"))
        inl = {k_: v_ for k_, v_ in inl.items() if v_ is not fn and k_ != "self._ensure_index_type"}
        T = MaskTyper(params, sizes, report, passthrough={"self._ensure_index_type"}, cond={"self.rfsize": True} if qual.endswith("_chk_diag_part") else None,
                      inline=inl)
        T.mod = getattr(fn, "_vmod", None)
        T.run(fn.body)
        if qual.endswith("_make_rb_el"):
            # what the method publishes: rb, el index the full set; _rb, _el index the non-rf set (the table the other rules rely on)
            for attr, dom in (("self.rb", "N"), ("self.el", "N"), ("self._rb", "K"), ("self._el", "K")):
                t = T.attr_types.get(attr)
                sp = t.dom if isinstance(t, I) else None
                label = f"_make_rb_el: `{attr}` holds positions relative to the {'full' if dom == 'N' else 'non-rf'} equation set"
                if isinstance(t, A) and not isinstance(t, AMix) and t.s is not None:
                    # a mask / value array over a known set is not a vector of positions (its .size is the size of the set, which rbsize / elsize publish)
                    ctx.fail(label, fn, f"{t!r}: an array with one entry per equation of {t.s}, not a vector of positions", key=f"C01-R7|_make_rb_el|{attr}|not positions")
                elif isinstance(t, IMix):
                    ctx.fail(label, fn, f"{t!r}: on one of the paths through _make_rb_el the positions refer to another equation set", key=f"C01-R7|_make_rb_el|{attr}|mixed")
                elif sp is None:
                    ctx.error(label + ": the published value was not typed", fn, repr(t))
                else:
                    ctx.check(sp == dom, label, fn, repr(t))
        if qual.endswith("_chk_diag_part"):
            for attr, sp in (("self.m", "K"), ("self.b", "K"), ("self.k", "K"), ("self.krf", "N/rf")):
                t = T.attr_types.get(attr)
                ok = isinstance(t, A) and t.s in (sp, None) and (t.s == sp or attr == "self.m")
                label = f"_chk_diag_part: `{attr}` is stored on the {'non-rf' if sp == 'K' else 'rf'} equations when there are rf modes"
                if isinstance(t, AMix):
                    ctx.fail(label, fn, f"{t!r}: on one of the paths through _chk_diag_part the value is taken from other rows", key=f"C01-R7|_chk_diag_part|{attr}|mixed")
                elif not ok and (not isinstance(t, A) or t.s is None):
                    ctx.error(label + ": the published value was not typed", fn, repr(t))          # unknown, not wrong
                else:
                    ctx.check(ok, label, fn, repr(t))
        for node, why in T.unsure:
            # np.place / np.putmask / np.copyto(where=) / np.put differ in how they pair values with selected entries; the value-level rules (R1, R1b) read
            # them as `arr[mask] = vals`, which is only right when the operand spaces fit - so a call that could not be typed is not decided
            ctx.error(f"{qual}: the masked store `{ast.unparse(node)[:80]}` could not be typed (its meaning depends on the spaces of its operands)", node, why)
        seen = set()
        for kind, node, detail in bad:
            key = f"C01-R7|{qual}|{kind}|{ast.unparse(node)[:60]}"
            if key in seen:
                continue
            seen.add(key)
            ctx.fail(f"{qual}: {kind}", node, detail, key=key)
        if T.resolved >= floor:
            ctx.ok(f"{qual}: {T.resolved} selections / stores / elementwise operations typed (mask and index sub-spaces of the mode list)", fn, T.resolved)
        else:
            ctx.error(f"{qual}: only {T.resolved} selections / stores / elementwise operations could be typed (floor {floor}): the sub-space typing does not bind "
                      "to this form of the function", fn, T.resolved)
        if not bad:
            ctx.ok(f"{qual}: every selector is applied to an array of its own space and every store receives values of the selected sub-space", fn)


def _hist_steps(ctx, label, where, got_cols, want_cols, names):
    """compare the computed columns of a generic history with the documented recurrence, column by column; -> (ok, detail) with ok True / False, or
    None when a computed column is not a formula (a construct the evaluator could not lower: reported as ANALYSIS-ERROR, never as a violation)"""
    for j, (got, want) in enumerate(zip(got_cols, want_cols)):
        for g, w, nm in zip(got, want, names):
            if g is None or is_unknown(g) or isinstance(g, tuple) or not isinstance(g, F.Rat):
                return None, {"sample": j, "quantity": nm, "not lowered": repr(g)[:300], "recurrence": repr(w)[:300]}
            if not g.equals(w) and _unmodelled(g, w):
                return None, {"sample": j, "quantity": nm, "computed through a function the evaluator does not model": _unmodelled(g, w),
                              "computed": repr(g)[:300]}
            if not g.equals(w):
                return False, {"sample": j, "quantity": nm, "computed": repr(g)[:300], "recurrence": repr(w)[:300]}
    return True, None


def _hcheck(ctx, ok, label, where, detail=None):
    if ok is None:
        ctx.error(label + ": the computed history was not lowered", where, detail)
    else:
        ctx.check(ok, label, where, detail)


def _attr_after(ctx, S, rel, cls, name, **kw):
    """value of `self.<name>` once the evaluated method (a constructor) has run: the attribute it stored, or - when the class computes the attribute on
    demand in a `@property` - the value that property returns on the object as the method left it"""
    from .c01_ev import Sem01
    v = S.env(f"self.{name}")
    if v is not None:
        return v
    prop = ctx.src.mod(rel).funcs.get(f"{cls}.{name}")
    if prop is None or not any((dotted(d_) or "") in ("property", "functools.cached_property", "cached_property") for d_ in prop.decorator_list):
        return None
    env = {k_: v_ for k_, v_ in S.ev.env.items() if k_.startswith("self.")}
    S2 = Sem01(ctx, prop, env=env, inline=S.ev.inl, truth=S.ev.truth, cmp=S.ev.cmp_hook, nonnull=S.ev.nonnull, consts=S.ev.module_consts)
    return S2.ret()


def r8_solveexp1(ctx):
    """First-order exact solver y' = A y + f: the constructor takes E, P, Q from expmint.getEPQ(A, h, order) and tsolve advances
    y_j = E y_{j-1} + P f_{j-1} + Q f_j (order 1) / E y_{j-1} + P f_{j-1} (order 0) from y_0 = d0 (0 when not given), returning v = f + A y.
    Decided on a generic 4-sample history: the force is a tuple of column symbols f0..f3, the solution array is a history object (c01_ev.Hist)
    created by the function itself; the rule reads the returned `d` and `v` - local names, loop form (for / while / enumerate over the
    transposed force term), index shifts and helper boundaries do not matter."""
    from .c01_ev import Sem01, helpers
    SE1 = "pyyeti/ode/solveexp1.py"
    init = ctx.src.func(SE1, "SolveExp1.__init__")
    ts = ctx.src.func(SE1, "SolveExp1.tsolve")
    inl = helpers(ctx, (SE1, "SolveExp1"), exclude=("tsolve", "__init__"))
    # constructor
    def call0(node, ev):
        d = dotted(node.func) or ""
        if d.endswith("getEPQ"):
            vals = [ev.ev(a) for a in node.args] + [ev.ev(k.value) for k in node.keywords]
            names = ["A", "h", "order"][:len(node.args)] + [k.arg for k in node.keywords]
            got = dict(zip(names, vals))
            ok = all(k in got and not is_unknown(got[k]) and need(got[k]).equals(F.sym(k)) for k in ("A", "h", "order"))
            ctx.check(ok, "SolveExp1.__init__: E, P, Q = getEPQ(A, h, order) - the state matrix, the step and the hold order are passed in their places", node,
                      None if ok else {k: repr(v) for k, v in got.items()})
            return (F.sym("E"), F.sym("P"), F.sym("Q"))
        return NotImplemented
    S0 = Sem01(ctx, init, call=call0, truth={"h": True}, env={"A": F.sym("A"), "h": F.sym("h"), "order": F.sym("order")}, inline=inl)
    got8 = {x: _attr_after(ctx, S0, SE1, "SolveExp1", x) for x in ("E", "P", "Q", "A", "h", "order")}
    ok = all(S0.same(got8[x], F.sym(x)) for x in got8)
    _chk(ctx, ok, "SolveExp1.__init__: E, P, Q, A, h, order are stored under their own names", init, None if ok else {x: repr(got8[x]) for x in "EPQA"},
         vals=tuple(got8[x] if got8[x] is not None else Unknown_(f"self.{x} is not set") for x in got8))
    NT = 4
    f = tuple(F.sym(f"f{k}") for k in range(NT))
    E_, P_, Q_, A_ = F.sym("E"), F.sym("P"), F.sym("Q"), F.sym("A")
    for order in (1, 0):
        for given in (True, False):
            S = Sem01(ctx, ts, nt=NT, inline=inl, truth={"self.h": True}, nonnull={"d0"},
                      env={"force": f, "d0": F.sym("d0") if given else F.sym("None"), "self.E": E_, "self.P": P_, "self.Q": Q_, "self.A": A_, "self.h": F.sym("self.h"),
                           "self.order": F.const(order)})
            ns = S.calls("SimpleNamespace")
            tag = f"SolveExp1.tsolve (order {order}, d0 {'given' if given else 'None'})"
            if len(ns) != 1 or not isinstance(ns[0][2].get("d"), tuple) or len(ns[0][2]["d"]) != NT:
                ctx.error(f"{tag}: the returned displacement history was not lowered", ts, repr(ns[0][2].get("d") if ns else None)[:300])
                continue
            dcols = ns[0][2]["d"]
            y = F.sym("d0") if given else F.const(0)
            want = [y]
            for j in range(1, NT):
                y = E_ * y + P_ * f[j - 1] + (Q_ * f[j] if order == 1 else 0)
                want.append(y)
            ok0, _ = _hist_steps(ctx, tag, ts, [(dcols[0],)], [(want[0],)], ("y",))
            _hcheck(ctx, ok0, f"{tag}: the first column is the initial state" + ("" if given else " (zero)"), ts, None if ok0 else repr(dcols[0])[:200])
            ok, detail = _hist_steps(ctx, tag, ts, [(c,) for c in dcols], [(w,) for w in want], ("y",))
            _hcheck(ctx, ok, f"{tag}: y_j = E y_j-1 + P f_j-1" + (" + Q f_j" if order == 1 else "") + " for every step of a generic history", ts, detail)
            vv = ns[0][2].get("v")
            ok = isinstance(vv, tuple) and len(vv) == NT and all(S.same(x, fk + A_ * w) for x, fk, w in zip(vv, f, want))
            if not ok and (not isinstance(vv, tuple) or any(is_unknown(x) or _unmodelled(x) for x in vv)):
                ok = None          # not lowered (an unknown column / a function the evaluator does not model): ANALYSIS-ERROR
            _hcheck(ctx, ok, f"SolveExp1.tsolve (order {order}): returns d and v = f + A d (the first-order equation itself)", ns[0][3], None if ok else repr(vv)[:300])


def _size_cmp(*names):
    """ordering comparisons of a size symbol (a positive integer: the branch with equations present is the one examined) with a constant"""
    def cmp(node, op, L, R, ev):
        from .c01_ev import unsym, const_of
        o = type(op)
        if unsym(R) in names and const_of(L) is not None:
            L, R = R, L
            o = {ast.Lt: ast.Gt, ast.LtE: ast.GtE, ast.Gt: ast.Lt, ast.GtE: ast.LtE}[o]
        c = const_of(R)
        if unsym(L) not in names or c is None:
            return None
        if o is ast.Gt:
            return True if c < 1 else None
        if o is ast.GtE:
            return True if c <= 1 else None
        if o is ast.Lt:
            return False if c <= 1 else None
        return False if c < 1 else None
    return cmp


def _lu_call(node, ev):
    """la.lu_solve(invm, x) / la.solve(m, x): M^-1 x with the stored factorisation standing for M^-1 (column by column on a history)"""
    d = dotted(node.func) or ""
    if d in ("la.lu_solve", "scipy.linalg.lu_solve", "linalg.lu_solve") and len(node.args) >= 2:
        a, b = ev.ev(node.args[0]), ev.ev(node.args[1])
        if is_unknown(a) or isinstance(a, tuple):
            return NotImplemented
        if isinstance(b, tuple):
            return tuple(x if is_unknown(x) else need(a) * need(x) for x in b)
        if is_unknown(b):
            return b
        return need(a) * need(b)
    return NotImplemented


def _block2(v):
    """(base, row selector, column selector) of a 2-D selection written in one subscript or in steps: X[r, c], X[r][:, c], X[:, c][r], X[r, :][:, c],
    X[np.ix_(r, c)] ... - a full slice is the identity on its axis; selections are only merged when at most one of them restricts the axis (no slice
    arithmetic).  A value that is no selection is (v, full, full)."""
    from .sem import unfn
    NONE_ = F.sym("None")
    full = F.fn("slice", NONE_, NONE_, NONE_)

    def sliceish(x):
        u = unfn(x)
        return bool(u) and u[0] == "slice"
    rows, cols = full, full
    while isinstance(v, F.Rat):
        u = unfn(v)
        if not u or u[0] != "idx" or len(u[1]) != 2 or any(isinstance(x, str) for x in u[1]):
            break
        base, ix = u[1]
        ui = unfn(ix)
        if ui and ui[0] == "tuple":
            if len(ui[1]) != 2 or any(isinstance(x, str) for x in ui[1]):
                break
            r, c = ui[1]
        elif ui and ui[0] == "call:np.ix_" and len(ui[1]) == 2 and not any(isinstance(x, str) for x in ui[1]) and rows.equals(full) and cols.equals(full):
            r, c = ui[1]
            rows, cols, v = r, c, base
            continue
        else:
            r, c = ix, full
        if not (sliceish(r) and sliceish(c)):
            break         # an integer / index array changes the shape or pairs with the other axis: not merged
        # (r, c) is applied first, (rows, cols) afterwards
        if not (r.equals(full) or rows.equals(full)) or not (c.equals(full) or cols.equals(full)):
            break
        rows = rows if r.equals(full) else r
        cols = cols if c.equals(full) else c
        v = base
    return v, rows, cols


def r9_solveexp2(ctx):
    """Second-order exact solver in state-space form z = [v; d], z' = A z + [M^-1 f; 0]: the constructor cuts E = expm(A h) into the four blocks
    E_vv, E_vd, E_dv, E_dd by the [v; d] layout, and tsolve advances d_i+1 = E_dd d_i + E_dv v_i + (P g_i + Q g_i+1)_d,
    v_i+1 = E_vd d_i + E_vv v_i + (P g_i + Q g_i+1)_v with g = M^-1 f (order 0: no Q term).  Decided on a generic 4-sample history: d, v, a are history
    objects handed out by the (stubbed) _init_dva; the rule reads the rows `self.kdof` of *those arrays* after the run, for m None / diagonal / full,
    with contiguous partitions (row blocks are views) and with interleaved ones (row blocks are copies that must be written back)."""
    from .c01_ev import Sem01, Hist, helpers, NONE
    SE2 = "pyyeti/ode/solveexp2.py"
    init = ctx.src.func(SE2, "SolveExp2.__init__")
    ts = ctx.src.func(SE2, "SolveExp2.tsolve")
    inl0 = helpers(ctx, (SE2, "SolveExp2"), exclude=("tsolve", "__init__", "generator", "fsolve"))

    def call0(node, ev):
        d = dotted(node.func) or ""
        if d.endswith("getEPQ"):
            vals = [ev.ev(a) for a in node.args]
            kws = {k.arg: ev.ev(k.value) for k in node.keywords}
            got = dict(zip(["A", "h", "order"], vals))
            got.update(kws)
            ok = all(k in got and not is_unknown(got[k]) for k in ("A", "h", "order", "half")) and need(got["h"]).equals(F.sym("h")) \
                and need(got["order"]).equals(F.sym("order")) and (need(got["half"]).equals(F.const(1)) or need(got["half"]).equals(F.sym("True"))) \
                and need(got["A"]).equals(F.sym("Astate"))
            ctx.check(ok, "SolveExp2.__init__: E, P, Q = getEPQ(A, h, order, half=True) with A the [v; d] state matrix - P, Q keep only the force half of "
                          "the input columns", node, None if ok else {k: repr(v) for k, v in got.items()})
            return (F.sym("E"), F.sym("P"), F.sym("Q"))
        if d == "self._build_A":
            return F.sym("Astate")
        return NotImplemented

    S0 = Sem01(ctx, init, call=call0, truth={"h": True}, cmp=_size_cmp("ksize"), inline=inl0, ndims={"E": 2, "P": 2, "Q": 2, "Astate": 2},
               env={"h": F.sym("h"), "order": F.sym("order"), "self.ksize": F.sym("ksize")})
    want = {"E_vv": ("v", "v"), "E_vd": ("v", "d"), "E_dv": ("d", "v"), "E_dd": ("d", "d")}
    half = {"v": S0.ev._index_value(ast.parse("x[:ksize]", mode="eval").body.slice), "d": S0.ev._index_value(ast.parse("x[ksize:]", mode="eval").body.slice)}
    for nm, (r, c) in want.items():
        got = _attr_after(ctx, S0, SE2, "SolveExp2", nm)
        label = (f"SolveExp2.__init__: {nm} is the block of E that maps the {('velocity' if c == 'v' else 'displacement')} half of the state to the "
                 f"{('velocity' if r == 'v' else 'displacement')} half (state layout [v; d]: rows/columns :ksize are velocities)")
        if got is None or is_unknown(got) or isinstance(got, tuple) or not isinstance(got, F.Rat):
            ctx.error(label + ": the attribute was not found / not lowered", init, repr(got))          # unknown, not wrong
            continue
        # decided on the selection itself: one subscript or several, slices / ranges, `ksize:` or `ksize:2*ksize`
        base, rs, cs = _block2(got)
        def half_k(sel, K=F.sym("ksize")):
            """which half of an axis of length 2 K a selector takes: 'first' / 'second' / 'other'; None when it is not a slice / range"""
            hv = _half(sel)
            if hv is None:
                return None
            if hv[0] != "other" and hv[1] is not None and hv[1].equals(K):
                return hv[0]
            if hv[0] != "other" and hv[1] is not None and hv[1].equals(-K):
                u_ = unfn_(sel)          # on an axis of length 2 K, `:-K` is the first half and `-K:` the second
                if u_[0] == "slice" and (hv[0] == "first" or u_[1][1].equals(F.sym("None"))):
                    return hv[0]
            return "other"
        from .sem import unfn as unfn_
        hr, hc = half_k(rs), half_k(cs)
        wantrc = ({"v": "first", "d": "second"}[r], {"v": "first", "d": "second"}[c])
        if base.equals(F.sym("E")) and hr is not None and hc is not None:
            ok = (hr, hc) == wantrc
            ctx.check(ok, label, init, None if ok else repr(got))
        elif need(got).equals(F.fn("idx", F.sym("E"), F.fn("tuple", half[r], half[c]))):
            ctx.ok(label, init)
        elif not got.depends_on("E"):
            ctx.check(False, label, init, repr(got))
        else:
            ctx.error(label + ": the selection was not recognised as a block of E", init, repr(got)[:300])
    gotPQ = tuple(_attr_after(ctx, S0, SE2, "SolveExp2", x) for x in "PQ")
    ok = S0.same(gotPQ[0], F.sym("P")) and S0.same(gotPQ[1], F.sym("Q"))
    _chk(ctx, ok, "SolveExp2.__init__: P and Q are stored under their own names", init, vals=tuple(x if x is not None else Unknown_("not set") for x in gotPQ))
    # a system without dynamic equations (every mode statically solved: ksize = 0) has no state matrix: the exponential must not be requested
    asked = []

    def call1(node, ev):
        d = dotted(node.func) or ""
        if d.endswith("getEPQ") or d == "self._build_A":
            asked.append(node)
            return (F.sym("E"), F.sym("P"), F.sym("Q")) if d.endswith("getEPQ") else F.sym("Astate")
        return NotImplemented

    def nosize(node, op, L, R, ev):
        r = _size_cmp("ksize")(node, op, L, R, ev)
        return None if r is None else (not r)
    Sem01(ctx, init, call=call1, truth={"h": True, "ksize": False}, cmp=nosize, inline=inl0, env={"h": F.sym("h"), "order": F.sym("order"), "self.ksize": F.sym("ksize")})
    ctx.check(not asked, "SolveExp2.__init__: with no dynamic equations (ksize = 0) neither the state matrix nor its exponential is built", asked[0] if asked else init)
    # ... and the smallest system that has one (ksize = 1) gets both: the size test is decided on the number itself
    del asked[:]
    Sem01(ctx, init, call=call1, truth={"h": True}, inline=inl0, env={"h": F.sym("h"), "order": F.sym("order"), "self.ksize": F.const(1)})
    names = {(dotted(n_.func) or "").split(".")[-1] for n_ in asked}
    ctx.check({"getEPQ", "_build_A"} <= names, "SolveExp2.__init__: a system with a single dynamic equation (ksize = 1) gets its state matrix and exponential", init,
              None if {"getEPQ", "_build_A"} <= names else f"requested: {sorted(names)} - the guard on the number of dynamic equations excludes ksize = 1")
    # ---- tsolve on a generic history
    NT = 4
    f = tuple(F.sym(f"f{k}") for k in range(NT))
    Edd, Edv, Evd, Evv, P_, Q_ = (F.sym(x) for x in ("E_dd", "E_dv", "E_vd", "E_vv", "P", "Q"))
    IM = F.sym("invm")
    KD = F.sym("self.kdof")
    inl = helpers(ctx, (SE2, "SolveExp2"), (BASEF, "_BaseODE"),
                  exclude=("tsolve", "__init__", "generator", "fsolve", "_init_dva", "_init_dv", "_calc_acce_kdof", "_solution", "_solution_freq", "finalize"))
    for order in (1, 0):
        for mcase in ("None", "diagonal", "full"):
            for slices in (True, False):
                d, v, a = Hist("d", NT), Hist("v", NT), Hist("a", NT)

                def call(node, ev, d=d, v=v, a=a):
                    dn = dotted(node.func) or ""
                    if dn == "self._init_dva":
                        return (d, v, a, ev.ev(node.args[0]))
                    return _lu_call(node, ev)

                S = Sem01(ctx, ts, call=call, nt=NT, inline=inl, fancy_copy=not slices, cmp=_size_cmp("ksize"),
                          truth={"self.unc": mcase == "diagonal", "self.slices": slices}, nonnull={"M"},
                          env={"force": f, "self.E_dd": Edd, "self.E_dv": Edv, "self.E_vd": Evd, "self.E_vv": Evv, "self.P": P_, "self.Q": Q_, "self.invm": IM,
                               "self.ksize": F.sym("ksize"), "self.order": F.const(order), "self.m": NONE if mcase == "None" else F.sym("M")})
                fk = tuple(F.fn("idx", x, KD) for x in f)
                g = tuple((IM * x) if mcase != "None" else x for x in fk)
                db, vb = d.block(repr(KD), KD), v.block(repr(KD), KD)
                dprev, vprev = d.initial(repr(KD), KD, 0), v.initial(repr(KD), KD, 0)
                wantc = [(dprev, vprev)]
                for i in range(NT - 1):
                    pq = P_ * g[i] + (Q_ * g[i + 1] if order == 1 else 0)
                    wd = Edd * dprev + Edv * vprev + F.fn("idx", pq, half["d"])
                    wv = Evd * dprev + Evv * vprev + F.fn("idx", pq, half["v"])
                    wantc.append((wd, wv))
                    dprev, vprev = wd, wv
                ok, detail = _hist_steps(ctx, "", ts, [(db.get(i), vb.get(i)) for i in range(NT)], wantc, ("displacement", "velocity"))
                if ok and (d.bad or v.bad):
                    ok, detail = None, {"accesses not modelled": (d.bad + v.bad)[:4]}
                lay = "contiguous partitions" if slices else "interleaved partitions: row blocks are copies, written back"
                _hcheck(ctx, ok, f"SolveExp2.tsolve (order {order}, m {mcase}, {lay}): d and v follow z_i+1 = E z_i + P g_i" + (" + Q g_i+1" if order == 1 else "")
                          + " block by block (g = M^-1 f) on a generic history", ts, detail)


def _unc_consts(ctx):
    from .sem import module_consts
    out = {}
    for rel in (UTIL, SOLVEUNC):
        try:
            out.update(module_consts(ctx, rel))
        except Exception:  # noqa
            pass
    return out


UNC_NOT_FOLLOWED = ("tsolve", "__init__", "generator", "fsolve", "_init_dva", "_init_dv", "_calc_acce_kdof", "_solution", "_solution_freq", "finalize", "_delconj",
                    "_addconj", "get_su_eig", "_solve_real_unc", "_solve_complex_unc", "_solve_real_unc_cdforces", "get_f2x")


def r10_real_unc_batch(ctx):
    """SolveUnc's uncoupled time loop: D_i = F D_i-1 + G V_i-1 + A f_i-1 + B f_i, V_i = Fp D_i-1 + Gp V_i-1 + Ap f_i-1 + Bp f_i (order 0: f_i := f_i-1),
    with the eight coefficient vectors of get_su_coef handed over in the positions the loop function declares.  SolveUnc._solve_real_unc is
    evaluated on a generic 4-sample history with every helper followed interprocedurally (so a swapped argument at the call site is seen): d and v
    are history objects created by the rule and passed in; their `self.kdof` rows are read after the run, for contiguous partitions (row blocks are
    views) and interleaved ones (copies that must be written back)."""
    from .c01_ev import Sem01, Hist, helpers
    fn = ctx.src.func(SOLVEUNC, "SolveUnc._solve_real_unc")
    NT = 4
    f = tuple(F.sym(f"f{k}") for k in range(NT))
    C = {x: F.fn("attr:" + x, F.sym("self.pc")) for x in ("F", "G", "A", "B", "Fp", "Gp", "Ap", "Bp")}     # pc = self.pc; pc.F ...
    inl = helpers(ctx, (SOLVEUNC, "SolveUnc"), (BASEF, "_BaseODE"), exclude=UNC_NOT_FOLLOWED)
    if "_solve_real_unc_inner_loop" not in inl and not any(k for k in inl if "inner" in k or "loop" in k or "march" in k):
        ctx.note("C01-R10: no stepping helper found in solveunc.py; the loop is expected inline")
    KD = F.sym("self.kdof")
    consts = _unc_consts(ctx)
    for order in (1, 0):
        for slices in (True, False):
            d, v = Hist("d", NT), Hist("v", NT)
            S = Sem01(ctx, fn, nt=NT, inline=inl, fancy_copy=not slices, truth={"self.slices": slices}, consts=consts,
                      env={"force": f, "self.order": F.const(order), "d": d, "v": v})
            fk = tuple(F.fn("idx", x, KD) for x in f)
            db, vb = d.block(repr(KD), KD), v.block(repr(KD), KD)
            dp, vp = d.initial(repr(KD), KD, 0), v.initial(repr(KD), KD, 0)
            want = [(dp, vp)]
            for i in range(1, NT):
                f1 = fk[i] if order == 1 else fk[i - 1]
                wd = C["F"] * dp + C["G"] * vp + C["A"] * fk[i - 1] + C["B"] * f1
                wv = C["Fp"] * dp + C["Gp"] * vp + C["Ap"] * fk[i - 1] + C["Bp"] * f1
                want.append((wd, wv))
                dp, vp = wd, wv
            ok, detail = _hist_steps(ctx, "", fn, [(db.get(i), vb.get(i)) for i in range(NT)], want, ("displacement", "velocity"))
            if ok and (d.bad or v.bad):
                ok, detail = None, {"accesses not modelled": (d.bad + v.bad)[:4]}
            lay = "contiguous partitions" if slices else "interleaved partitions: row blocks are copies, written back"
            _hcheck(ctx, ok, f"SolveUnc._solve_real_unc (order {order}, {lay}): every step of a generic history is F d + G v + A f_i-1 + B f_i (and the primed "
                          "twin), with pc.F ... pc.Bp in the positions of the loop function's parameters", fn, detail)


def r11_complex_unc_batch(ctx):
    """SolveUnc's coupled (complex-mode) time loop on a generic 4-sample history: rigid-body part d_i+1 = d_i + G v_i + A (g_i + g_i+1 / 2),
    v_i+1 = v_i + Ap (g_i + g_i+1) (order 0: 1.5 A g_i, 2 Ap g_i; with pc.G = h, pc.A = h^2/3, pc.Ap = h/2 checked by C01-R1 these are the exact
    double integrals of the held force); elastic part y_0 = ur_inv_v v_0 + ur_inv_d d_0, y_i+1 = Fe y_i + Ae w_i + Be w_i+1 with
    w = ur_inv_v M^-1 f, and d = ur_d y, v = ur_v y (real systems: Re(ur y) = rur Re(y) - iur Im(y)).  d, v, a are history objects created by the rule;
    the rows `self.rb` / `self.kdof` of those arrays are read after the run (helpers followed, any loop form)."""
    from .c01_ev import Sem01, Hist, helpers
    fn = ctx.src.func(SOLVEUNC, "SolveUnc._solve_complex_unc")
    NT = 4
    f = tuple(F.sym(f"f{k}") for k in range(NT))
    pc = lambda x: F.fn("attr:" + x, F.sym("self.pc"))
    inl = helpers(ctx, (SOLVEUNC, "SolveUnc"), (BASEF, "_BaseODE"), exclude=UNC_NOT_FOLLOWED)
    consts = _unc_consts(ctx)
    RB, KD = F.sym("self.rb"), F.sym("self.kdof")
    IMRB, IM = F.sym("imrb"), F.sym("invm")
    for order in (1, 0):
        for systype in ("float", "complex"):
            runs = {}
            for slices in (True, False):
                d, v, a = Hist("d", NT), Hist("v", NT), Hist("a", NT)
                S = Sem01(ctx, fn, call=_lu_call, nt=NT, inline=inl, fancy_copy=not slices, consts=consts, nonnull={"M"},
                          truth={"self.rbsize": True, "self.ksize": True, "self.unc": True, "self.slices": slices},
                          env={"force": f, "self.imrb": IMRB, "self.invm": IM, "self.m": F.sym("M"), "self.order": F.const(order), "self.systype": F.sym(systype),
                               "d": d, "v": v, "a": a})
                runs[slices] = (d, v, a, S)
            tag = f"_solve_complex_unc (order {order}, {systype})"
            g = tuple(IMRB * F.fn("idx", x, RB) for x in f)
            for slices in (True, False):
                d, v, a, S = runs[slices]
                db, vb = d.block(repr(RB), RB), v.block(repr(RB), RB)
                dp, vp = d.initial(repr(RB), RB, 0), v.initial(repr(RB), RB, 0)
                want = [(dp, vp)]
                for i in range(NT - 1):
                    if order == 1:
                        wd = dp + pc("G") * vp + pc("A") * (g[i] + g[i + 1] / 2)
                        wv = vp + pc("Ap") * (g[i] + g[i + 1])
                    else:
                        wd = dp + pc("G") * vp + F.const(3) / 2 * pc("A") * g[i]
                        wv = vp + 2 * pc("Ap") * g[i]
                    want.append((wd, wv))
                    dp, vp = wd, wv
                ok, detail = _hist_steps(ctx, "", fn, [(db.get(i), vb.get(i)) for i in range(NT)], want, ("displacement", "velocity"))
                lay = "" if slices else " (interleaved partitions: the rigid-body row blocks are copies, written back)"
                _hcheck(ctx, ok, f"{tag}: rigid-body part is the exact double integration of the held modal acceleration g = M_rb^-1 f on a generic history" + lay,
                          fn, detail)
            d, v, a, S = runs[True]
            ab = a.block(repr(RB), RB)
            ok, detail = _hist_steps(ctx, "", fn, [(ab.get(i),) for i in range(NT)], [(x,) for x in g], ("acceleration",))
            _hcheck(ctx, ok, f"{tag}: rigid-body acceleration is M_rb^-1 f at every sample", fn, detail)
            # elastic part
            w_ = tuple(pc("ur_inv_v") * (IM * F.fn("idx", x, KD)) for x in f)
            y0w = pc("ur_inv_v") * v.initial(repr(KD), KD, 0) + pc("ur_inv_d") * d.initial(repr(KD), KD, 0)
            yw = [y0w]
            for i in range(NT - 1):
                yw.append(pc("Fe") * yw[-1] + pc("Ae") * w_[i] + (pc("Be") * w_[i + 1] if order == 1 else pc("Be") * w_[i]))
            ys = [H for H in S.ev.hists]
            if len(ys) == 1:
                yb = ys[0].root()
                ok, detail = _hist_steps(ctx, "", fn, [(yb.get(0),)], [(yw[0],)], ("modal state",))
                _hcheck(ctx, ok, f"{tag}: modal state y_0 = ur_inv_v v_0 + ur_inv_d d_0 (state layout [v; d])", fn, detail)
                ok, detail = _hist_steps(ctx, "", fn, [(yb.get(i),) for i in range(NT)], [(x,) for x in yw], ("modal state",))
                _hcheck(ctx, ok, f"{tag}: y_i+1 = Fe y_i + Ae w_i + Be w_i+1 with w = ur_inv_v M^-1 f on a generic history", fn, detail)
            else:
                yb = None
            if systype == "float":
                re, im = (lambda x: F.fn("attr:real", x)), (lambda x: F.fn("attr:imag", x))
                wantdv = [(pc("rur_d") * re(y) - pc("iur_d") * im(y), pc("rur_v") * re(y) - pc("iur_v") * im(y)) for y in yw[1:]]
            else:
                wantdv = [(pc("ur_d") * y, pc("ur_v") * y) for y in yw[1:]]
            db, vb = d.block(repr(KD), KD), v.block(repr(KD), KD)
            ok, detail = _hist_steps(ctx, "", fn, [(db.get(i), vb.get(i)) for i in range(1, NT)], wantdv, ("displacement", "velocity"))
            if ok and (d.bad or v.bad):
                ok, detail = None, {"accesses not modelled": (d.bad + v.bad)[:4]}
            if yb is None:
                # no separate modal-state array to read: the two modal obligations are decided through the recovered d, v
                _hcheck(ctx, ok, f"{tag}: modal state y_0 = ur_inv_v v_0 + ur_inv_d d_0 (state layout [v; d])", fn, detail)
                _hcheck(ctx, ok, f"{tag}: y_i+1 = Fe y_i + Ae w_i + Be w_i+1 with w = ur_inv_v M^-1 f on a generic history", fn, detail)
            _hcheck(ctx, ok, f"{tag}: d = ur_d y and v = ur_v y on the dynamic equations" +
                      (" (real part taken as rur Re y - iur Im y)" if systype == "float" else ""), fn, detail)


def _r12(ctx):
    """the rigid-body set get_su_coef works on is the solver's own (see c01_rb)"""
    from .c01_rb import r12_rb_partition_agreement
    return r12_rb_partition_agreement(ctx)


def _r13(ctx):
    from .c01_ovf import r13_overflow_safe
    r13_overflow_safe(ctx)


_r13.__doc__ = "no intermediate of a bounded closed-form coefficient overflows (see c01_ovf)"


def _r14(ctx):
    from .c01_hom import r14_scale_free_regimes
    r14_scale_free_regimes(ctx)


_r14.__doc__ = "the under / critical / over-damped switch of an elastic mode is scale-free (see c01_hom)"


RULES = [
    ("C01-R1", r1_coef_identities, 150),
    ("C01-R1b", r1b_regime_selectors, 14),
    ("C01-R3", r3_partition_typing, 60),
    ("C01-R4", r4_frame_typing, 19),
    ("C01-R6", r6_equilibrium_acceleration, 11),
    ("C01-R7", r7_subspace_typing, 14),
    ("C01-R8", r8_solveexp1, 14),
    ("C01-R9", r9_solveexp2, 20),
    ("C01-R10", r10_real_unc_batch, 4),
    ("C01-R11", r11_complex_unc_batch, 24),
    ("C01-R12", _r12, 2),
    ("C01-R13", _r13, 8),
    ("C01-R14", _r14, 6),
]

LEVEL = "other"
EXPLANATION = "see DESIGN.md section 3, C01"

MANIFEST = {
    "text": "Partial claim, decided statically for all inputs: the closed-form one-step coefficients of get_su_coef - extracted by evaluating the function "
            "for one generic mode of each damping regime, every mask / index vector being the truth value 'this mode is selected' - satisfy the defining "
            "ODE identities (homogeneous, constant-force and ramp-force particular solutions with their h->0 initial values) in every damping regime, for m "
            "given and m=None, each regime is the continuous limit of its neighbour and the three elastic regimes tile the axis of w2/wo2; both operands of "
            "every mode-selecting comparison depend on the mass-normalised problem only and the complex-path coefficients are the exact constant/ramp "
            "integrals with a step-independent near-zero cut-off (R1b); every subscript/operand pair in the ODE package agrees on its index space "
            "(full / non-rf / rb / el / rf, state halves) in both coefficient modes and _build_A lays the state out as [v; d] (R3); on the pre_eig path user "
            "arrays enter and leave through phi and the generator path refuses pre_eig before allocating (R4); "
            "the kdof acceleration is M^-1 (F - B v - K d) with the full damping in all six arms, the damping carried as a force is b minus its diagonal on "
            "the non-rf equations, and every time-domain solution calls it on the finished d, v (R6); the mask / index selectors of get_su_coef and the "
            "partition construction (_make_rb_el, _chk_diag_part) are applied to arrays of their own sub-space (R7); SolveExp1, SolveExp2 (all four E blocks, "
            "m None/diagonal/full), the uncoupled SolveUnc loop (with the coefficient vectors in the loop function's parameter positions) and the complex-mode "
            "loop (rigid-body double integration, modal recurrence, ur_d/ur_v mapping) are the documented one-step recurrences on a generic 4-sample history, "
            "for contiguous partitions (row blocks are views) and interleaved ones (copies written back) "
            "(R8-R11: the history arrays are objects with identity created by the rule; loops, helpers, aliases and local names are evaluated away); "
            "the rigid-body set get_su_coef is given by SolveUnc is the solver's own index set whether or not it is empty - None is accepted only if "
            "get_su_coef itself reads None as 'no mode' (R12); no bounded coefficient is computed through an overflowing intermediate (R13); with the rigid-body "
            "set given, the formulas chosen for an elastic mode are the same at both ends of the family of modes that differ from it by a change of the time "
            "unit only - the under / critical / over switch looks at dimensionless quantities (R14). "
            "Does not decide round-off levels, "
            "conditioning grades or library eigen/expm calls.",
    "note": "Trusted: CPython ast parser, the exact rational normal-form engine (verifier/e2_formula.py), the abstract interpreter verifier/e2_eval.py + "
            "verifier/c01_ev.py; regime membership of the generic mode is decided by the comparisons of the code itself (a quantity proportional to w2/wo2 "
            "is far above / far below every threshold in the under / over-damped regime, |b/m| far above the damping cut-offs in the damped rigid-body regime).",
    "technique": "abstract interpretation of the source on symbols (one generic mode per regime; a generic short history with array objects) + exact "
                 "rational/transcendental normal forms (differentiation, series) checked against ODE identities; index-space / sub-space type inference",
}
