"""C01 -- exact time-domain solvers (partial claim, see DESIGN.md section 3)."""
from __future__ import annotations

import ast

from . import e2_formula as F
from .core import AnchorError, Unsupported
from .e1_srcmodel import dotted, find_nodes, walk_no_nested, ancestors, utext
from .e2_eval import Evaluator, Unknown, is_unknown, need

UTIL = "pyyeti/ode/_utilities.py"
SOLVEUNC = "pyyeti/ode/solveunc.py"

COEFS = ("F", "G", "A", "B", "Fp", "Gp", "Ap", "Bp")


# ---------------------------------------------------------------------------
# C01-R1  closed-form coefficient identities (values extracted per regime by c01_coef / c01_ev.ModeEv)
def _ode_identities(c, par):
    """The identities (a)-(c) of DESIGN C01-R1, derived from m q'' + b q' + k q = P."""
    m, b, k = par["m"], par["b"], par["k"]
    wo2 = par["wo2"]
    twob = b / m
    Fd, G, A, B, Fp, Gp, Ap, Bp = (c[x] for x in COEFS)
    h = F.sym("h")
    Dc, Vc = A + B, Ap + Bp
    D, V = B * h, Bp * h
    ids = [
        ("hom: dF/dh = Fp", Fd.diff("h"), Fp),
        ("hom: dG/dh = Gp", G.diff("h"), Gp),
        ("hom: dFp/dh = -wo2 F - (b/m) Fp", Fp.diff("h"), -wo2 * Fd - twob * Fp),
        ("hom: dGp/dh = -wo2 G - (b/m) Gp", Gp.diff("h"), -wo2 * G - twob * Gp),
        ("const force: d(A+B)/dh = Ap+Bp", Dc.diff("h"), Vc),
        ("const force: m dVc/dh + b Vc + k Dc = 1", m * Vc.diff("h") + b * Vc + k * Dc, F.const(1)),
        ("ramp force: d(B h)/dh = Bp h", D.diff("h"), V),
        ("ramp force: m dV/dh + b V + k D = h", m * V.diff("h") + b * V + k * D, h),
    ]
    init = [
        ("F(0) = 1", Fd, 1), ("G(0) = 0", G, 0), ("Fp(0) = 0", Fp, 0), ("Gp(0) = 1", Gp, 1),
        ("(A+B)(0) = 0", Dc, 0), ("(Ap+Bp)(0) = 0", Vc, 0), ("(B h)(0) = 0", D, 0), ("(Bp h)(0) = 0", V, 0),
    ]
    return ids, init


def _selector_nodes(ev, par, regime):
    """the comparisons of a run whose mode side is proportional to w2/wo2 (elastic partition) resp. to beta (damped rigid-body partition):
    [(node, op, abs?, threshold value)] with the mode quantity on the left"""
    from .c01_coef import positive_multiple, strip_abs
    ref = par.get("rat") if regime in ("under", "over") else (par["beta"] if regime == "rbd" else None)
    out = []
    if ref is None:
        return out
    for node, op, L, R, r in ev.cmp_log:
        o = type(op)
        if not (L.depends_on("beta") or L.depends_on("w")):
            L, R = R, L
            o = {ast.Lt: ast.Gt, ast.LtE: ast.GtE, ast.Gt: ast.Lt, ast.GtE: ast.LtE}[o]
        X, has_abs = strip_abs(L)
        pm = positive_multiple(X, ref)
        if pm is not None and not (R.depends_on("beta") or R.depends_on("w")):
            out.append((node, o, has_abs, R, pm, r))
    return out


def r1_coef_identities(ctx):
    from .c01_coef import run_su_coef, REGIMES
    fn = ctx.src.func(UTIL, "get_su_coef")
    sets, where = {}, {}
    sel_all = {}
    for regime in REGIMES:
        for m_none in (False, True):
            tag = regime + ("/m=None" if m_none else "")
            try:
                c, par, ev = run_su_coef(ctx, fn, regime, m_none)
                for x in COEFS:
                    need(c[x], f"{tag} coefficient {x}")
            except Unsupported as e:
                ctx.error(f"{tag}: extraction", fn, str(e))
                continue
            sets[(regime, m_none)] = (c, par)
            sel = _selector_nodes(ev, par, regime)
            if not m_none:
                sel_all[regime] = sel
            if regime not in where:
                hit = [s for s in sel if s[5] is True]
                where[regime] = hit[0][0] if hit else fn
    # the regime partition itself: under <=> w2/wo2 >= +c ; crit <=> |.| < c ; over <=> <= -c.  Read from the comparisons of w2/wo2 that the
    # under-damped mode (positive side) and the over-damped mode (negative side) met: on each side exactly one lower and one upper bound with the
    # same threshold and opposite strictness (complementary sets), and the two thresholds mirror each other
    side = {}
    for regime, sgn in (("under", 1), ("over", -1)):
        ent = []
        for node, o, has_abs, T, pm, r in sel_all.get(regime, []):
            if not T.is_const():
                continue
            t = T.const_value()
            if has_abs:     # |q| with q = pm * c * w2/wo2 on the side of the regime:  |q| = sgn * pm * q
                pm = pm * sgn * pm
            if pm < 0:      # the mode quantity is -c * w2/wo2:  -x op t  <=>  x op' -t
                t = -t
                o = {ast.Lt: ast.Gt, ast.LtE: ast.GtE, ast.Gt: ast.Lt, ast.GtE: ast.LtE}[o]
            if t * sgn > 0:
                ent.append((">" if o in (ast.Gt, ast.GtE) else "<", o in (ast.Gt, ast.Lt), t, node))
        side[regime] = ent
    okp = all(len(side[r]) == 2 and {e[0] for e in side[r]} == {">", "<"} and side[r][0][2] == side[r][1][2] and side[r][0][1] != side[r][1][1] for r in side)
    if not all(len(side[r]) == 2 for r in side):
        ctx.error("regime thresholds: the comparisons of w2/wo2 that split the elastic modes were not all recognised", fn,
                  {r: [(e[0], str(e[2])) for e in side[r]] for r in side})
    else:
        okp = okp and side["under"][0][2] == -side["over"][0][2] and side["under"][0][2] > 0
        ctx.check(okp, "regime thresholds contiguous (under >= c, |crit| < c, over <= -c)", side["under"][0][3],
                  {r: [(e[0], "strict" if e[1] else "non-strict", str(e[2])) for e in side[r]] for r in side})
    for regime in REGIMES:
        for m_none in (False, True):
            if (regime, m_none) not in sets:
                continue
            tag = regime + ("/m=None" if m_none else "")
            c, par = sets[(regime, m_none)]
            wh = where.get(regime, fn)
            ids, init = _ode_identities(c, par)
            for nm, lhs, rhs in ids:
                try:
                    ok = lhs.equals(rhs)
                except Unsupported as e:
                    ctx.error(f"{tag}: {nm}", wh, str(e))
                    continue
                ctx.check(ok, f"{tag}: {nm}", wh,
                          None if ok else {"lhs": repr(lhs), "rhs": repr(rhs)})
            for nm, expr, val in init:
                try:
                    s = F.series(expr, "h", 0)
                    ok = s.val >= 0 and s.coef(0).equals(val)
                    got_ = repr(s.coef(0)) if s.val >= 0 else f"pole of order {-s.val}"
                except Unsupported as e:
                    ctx.error(f"{tag}: {nm}", wh, str(e))
                    continue
                ctx.check(ok, f"{tag}: h->0 limit {nm}", wh, None if ok else {"got": got_, "want": val})
    # (d) regime continuity
    for m_none in (False, True):
        sfx = "/m=None" if m_none else ""
        if ("crit", m_none) in sets:
            crit = sets[("crit", m_none)][0]
            for r in ("under", "over"):
                if (r, m_none) not in sets:
                    continue
                c = sets[(r, m_none)][0]
                for x in COEFS:
                    try:
                        s = F.series(c[x], "w", 0)
                        ok = s.val >= 0 and s.coef(0).equals(crit[x])
                    except Unsupported as e:
                        ctx.error(f"continuity {r}->crit {x}{sfx}", where.get(r, fn), str(e))
                        continue
                    ctx.check(ok, f"continuity: lim w->0 of {r} {x} = critical {x}{sfx}", where.get(r, fn),
                              None if ok else {"limit": repr(s.coef(0)) if s.val >= 0 else "singular",
                                               "critical": repr(crit[x])})
        if ("rbd", m_none) in sets and ("rb", m_none) in sets:
            rb = sets[("rb", m_none)][0]
            c = sets[("rbd", m_none)][0]
            for x in COEFS:
                try:
                    s = F.series(c[x], "beta", 0)
                    ok = s.val >= 0 and s.coef(0).equals(rb[x])
                except Unsupported as e:
                    ctx.error(f"continuity rbd->rb {x}{sfx}", where.get("rbd", fn), str(e))
                    continue
                ctx.check(ok, f"continuity: lim b->0 of damped-rb {x} = undamped-rb {x}{sfx}", where.get("rbd", fn),
                          None if ok else {"limit": repr(s.coef(0)) if s.val >= 0 else "singular",
                                           "rb": repr(rb[x])})


# ---------------------------------------------------------------------------
def r1b_regime_selectors(ctx):
    """Regime selection must be a function of the mass-normalised problem only, otherwise supplying the mass as None / vector /
    matrix (same mathematical problem) would select different formulas; and the near-zero-eigenvalue override of the complex path
    must not depend on the step (its accumulated error is |lambda| * t, independent of h).  Decided on values: get_su_coef is evaluated for the
    generic mode of every regime with b = 2 beta m, k = wo2 m; both operands of every mode-selecting comparison must be free of m."""
    from .c01_coef import run_su_coef, run_complex_coefs, REGIMES
    from .c01_ev import Sem01, unsym
    fn = ctx.src.func(UTIL, "get_su_coef")
    seen = {}      # id(node) -> [node, set of raw symbols the operands depend on]
    for regime in REGIMES:
        for rb_given in (True, False):
            try:
                c, par, ev = run_su_coef(ctx, fn, regime, False, rb_given)
            except Unsupported as e:
                ctx.error(f"get_su_coef ({regime}): selectors", fn, str(e))
                continue
            for node, op, L, R, r in ev.cmp_log:
                ent = seen.setdefault(id(node), [node, set(), 0])
                ent[2] += r is not None
                for v in (L, R):
                    if v.depends_on("m"):
                        ent[1].add("m")
    nsel = 0
    for node, raw, decided in seen.values():
        if not decided:
            continue          # a comparison that selects nothing for any regime (its result is masked out)
        nsel += 1
        label = ast.unparse(node)[:80]
        ok = not raw
        ctx.check(ok, f"get_su_coef: the mode selector `{label}` depends only on mass-normalised quantities (C = b/2m, wo2 = k/m, w2, h)", node,
                  None if ok else f"with b = 2 beta m, k = wo2 m the operands of `{label}` still contain the mass: the same system given with a mass vector and "
                                  "with m=None (mass-normalised b, k) would be sent to different coefficient formulas",
                  key=f"C01-R1b|get_su_coef|{label}")
    ctx.check(nsel >= 6, f"regime-selector rule bound to {nsel} predicates", fn, nontrivial=False)
    # ---- complex path
    fn2 = ctx.src.func(SOLVEUNC, "SolveUnc._get_complex_su_coefs")
    lam, h = F.sym("lam"), F.sym("h")
    el, ev_el = run_complex_coefs(ctx, fn2, "el")
    rbv, ev_rb = run_complex_coefs(ctx, fn2, "rbl")
    sel = {}
    for ev in (ev_el, ev_rb):
        for node, op, L, R, r in ev.cmp_log:
            ent = sel.setdefault(id(node), [node, False, 0])
            ent[1] = ent[1] or L.depends_on("h") or R.depends_on("h")
            ent[2] += r is not None
    sel = [e for e in sel.values() if e[2]]
    if len(sel) != 1:
        raise AnchorError("_get_complex_su_coefs: the near-zero-eigenvalue selector (one comparison of |lambda| with a cut-off)")
    ok = not sel[0][1]
    ctx.check(ok, "_get_complex_su_coefs: the near-zero-eigenvalue selector depends on lambda only", sel[0][0],
              None if ok else f"`{ast.unparse(sel[0][0])[:80]}` depends on h: replacing e^(lambda h) by 1 accumulates an error |lambda| t that does not shrink "
                              "with h, so a cut-off scaled by h turns slow (non-rigid) modes into pure integrators",
              key="C01-R1b|_get_complex_su_coefs|selector")
    # rigid-body overrides are the lambda -> 0 limits of the elastic formulas (DESIGN C01-R1(e))
    def good(v):
        return v is not None and not is_unknown(v) and isinstance(v, F.Rat)
    for nm in ("Ae", "Be"):
        if not good(el.get(nm)) or not good(rbv.get(nm)):
            ctx.error(f"_get_complex_su_coefs: {nm}", fn2, {"elastic": repr(el.get(nm))[:200], "rigid": repr(rbv.get(nm))[:200]})
            continue
        sr = F.series(el[nm], "lam", 0)
        ok = sr.val >= 0 and sr.coef(0).equals(rbv[nm])
        ctx.check(ok, f"_get_complex_su_coefs: the rigid-body override of {nm} is the lambda->0 limit of the elastic formula", fn2,
                  None if ok else {"limit": repr(sr.coef(0)) if sr.val >= 0 else "singular", "override": repr(rbv[nm])})
    if good(el.get("Ae")) and good(el.get("Be")):
        E = F.exp(lam * h)
        ok = (el["Ae"] + el["Be"]).equals((E - 1) / lam)
        ctx.check(ok, "_get_complex_su_coefs: Ae + Be = (e^(lambda h) - 1)/lambda (constant-force integral)", fn2)
        # Be = int_0^h e^{lam (h - t)} t/h dt = (e^{lam h} - 1 - lam h)/(lam^2 h)
        ok = el["Be"].equals((E - 1 - lam * h) / (lam * lam * h))
        ctx.check(ok, "_get_complex_su_coefs: Be = (e^(lambda h) - 1 - lambda h)/(lambda^2 h) (ramp-force integral)", fn2,
                  None if ok else repr(el["Be"]))
    Fe = el.get("Fe")
    ok = good(Fe) and Fe.equals(F.exp(lam * h))
    ctx.check(ok, "_get_complex_su_coefs: Fe = e^(lambda h)", fn2, None if ok else repr(Fe))
    if good(rbv.get("Fe")):
        ctx.check(rbv["Fe"].equals(1), "_get_complex_su_coefs: the rigid-body override of Fe is 1", fn2)
    else:
        ctx.error("_get_complex_su_coefs: Fe of a near-zero eigenvalue", fn2, repr(rbv.get("Fe")))
    # get_su_eig rigid-body constants equal the undamped rb coefficient set with m = 1:  G = h, A = h^2/3, Ap = h/2
    fn3 = ctx.src.func(SOLVEUNC, "SolveUnc.get_su_eig")
    S = Sem01(ctx, fn3, env={"self.h": h}, truth={"h": True, "self.rbsize": True, "self.elsize": True}, nonnull={"h"})
    ret = S.ret()
    roots = [k for k, v in S.ev.env.items() if "." not in k and isinstance(v, F.Rat) and isinstance(ret, F.Rat) and v.equals(ret) and unsym(v) is None]
    want = {"G": h, "A": h * h / 3, "Ap": h / 2}
    for nm, w in want.items():
        v = None
        for r in roots:
            v = S.ev.env.get(f"{r}.{nm}", v)
        ok = v is not None and not is_unknown(v) and isinstance(v, F.Rat) and v.equals(w)
        ctx.check(ok, f"get_su_eig: pc.{nm} equals the undamped rigid-body coefficient for unit mass ({w})", fn3, None if ok else repr(v))


# ---------------------------------------------------------------------------
# C01-R3  partition-space typing, C01-R5 state-half typing (same engine)
def r3_partition_typing(ctx):
    from . import ode_spaces as O
    U, E, X = O.mode_U(), O.mode_E(), O.exp2_attrs()
    plan = [
        (O.BASE, "_BaseODE._init_dv", U, "mode U"), (O.BASE, "_BaseODE._init_dv", E, "mode E"),
        (O.BASE, "_BaseODE._init_dva", U, "mode U"), (O.BASE, "_BaseODE._init_dva_part", U, "mode U"),
        (O.BASE, "_BaseODE._calc_acce_kdof", U, "mode U"), (O.BASE, "_BaseODE._calc_acce_kdof", E, "mode E"),
        (O.BASE, "_BaseODE._inv_mrb", U, "before re-partition"),
        (O.BASE, "_BaseODE._build_A", U, "mode U"),
        (O.UNC, "SolveUnc.get_su_eig", U, "entry: mode U tables"),
        (O.UNC, "SolveUnc._solve_real_unc", U, "mode U"),
        (O.UNC, "SolveUnc._solve_real_unc_cdforces", U, "mode U"),
        (O.UNC, "SolveUnc._solve_complex_unc", E, "mode E"),
        (O.SE2, "SolveExp2.__init__", X, "SolveExp2"),
        (O.SE2, "SolveExp2.tsolve", X, "SolveExp2"),
    ]
    tot = 0
    for rel, q, attrs, label in plan:
        extra = None
        if q.endswith("SolveExp2.__init__"):
            from .e3_spaces import Arr
            extra = {"E": Arr("S2", "S2")}
        T, okn, nbad = O.type_function(ctx, rel, q, attrs, label, extra, rule="C01-R3")
        tot += okn + nbad
    O.check_su_coef_call(ctx, U, "C01-R3")
    # SolveExp2.__init__: the four blocks of E are named after the halves they connect
    fn = ctx.src.func(O.SE2, "SolveExp2.__init__")
    want = {"E_vv": ("v", "v"), "E_vd": ("v", "d"), "E_dv": ("d", "v"), "E_dd": ("d", "d")}
    from .e3_spaces import Arr, Typer
    T = Typer(X, {"E": Arr("S2", "S2")}, O.SIZE_NAMES)
    for st in walk_no_nested(fn):
        if isinstance(st, ast.Assign) and isinstance(st.targets[0], ast.Attribute) and st.targets[0].attr in want:
            t = T.ty(st.value)
            nm = st.targets[0].attr
            ok = isinstance(t, Arr) and t.r == want[nm]
            ctx.check(ok, f"SolveExp2.__init__: self.{nm} is the ({want[nm][0]}, {want[nm][1]}) block of E for the [v; d] state of _build_A", st,
                      None if ok else repr(t), key=f"C01-R5|SolveExp2.__init__|{nm}")
    # the [v; d] layout itself: _build_A puts the velocity equations in rows :n (A[v2, v1] = 1 is d' = v)
    fb = ctx.src.func(O.BASE, "_BaseODE._build_A")
    txt = utext(fb)
    ok = "A[v2,v1]=1.0" in txt and "v1=range(n)" in txt and "v2=range(n,2*n)" in txt and "A[:n,:n]=-self.b" in txt and "A[:n,n:]=-self.k" in txt
    ctx.check(ok, "_build_A: state is [v; d] (rows :n are the velocity equations -b v - k d, rows n: are d' = v)", fb)


def r4_frame_typing(ctx):
    """pre_eig path, decided on values: _do_pre_eig, _init_dva, _solution and _solution_freq are evaluated on symbols (matrices as commuting
    symbols, the eigenvector matrix u normalised as la.eigh does: u.T m u = I, i.e. u = m^-1/2 in this model).  Whatever the spelling - a
    solve against phi, a stored inverse, a transpose times the mass - the user's physical d0 / v0 must reach the modal work arrays as
    phi^-1 d0, the force as phi.T f, and the solution must come back as phi d."""
    from . import ode_spaces as O
    from .sem import Sem
    NONE = F.sym("None")
    f_pre = ctx.src.func(O.BASE, "_BaseODE._do_pre_eig")
    f_dva = ctx.src.func(O.BASE, "_BaseODE._init_dva")

    def is_none_oracle(extra):
        def cond(test, ev):
            t = utext(test)
            if t in extra:
                return extra[t]
            if isinstance(test, ast.Compare) and len(test.ops) == 1 and isinstance(test.ops[0], (ast.Is, ast.IsNot)) \
                    and isinstance(test.comparators[0], ast.Constant) and test.comparators[0].value is None:
                v = ev.ev(test.left)
                if is_unknown(v) or isinstance(v, tuple):
                    return None
                r = need(v).equals(NONE)
                return r if isinstance(test.ops[0], ast.Is) else (not r)
            return None
        return cond

    for mcase in ("given", "None"):
        M = F.sym("M") if mcase == "given" else F.const(1)
        U = 1 / F.sqrt(M) if mcase == "given" else F.const(1)
        Usym = F.sym("u")

        def call(node, ev):
            d = dotted(node.func) or ""
            if d.endswith("eigh"):
                return (F.sym("w"), Usym)
            if d in ("np.diag",) and node.args:
                return ev.ev(node.args[0])
            if d == "ytools.mattype":
                return (F.sym("ktype"), F.sym("types"))
            if d in ("la.solve", "np.linalg.solve", "scipy.linalg.solve", "linalg.solve") and len(node.args) >= 2:
                a, b = ev.ev(node.args[0]), ev.ev(node.args[1])
                if is_unknown(a) or is_unknown(b) or isinstance(a, tuple) or isinstance(b, tuple):
                    return NotImplemented
                return need(b) / need(a)
            if d in ("la.inv", "np.linalg.inv", "linalg.inv") and node.args:
                a = ev.ev(node.args[0])
                return 1 / need(a) if not is_unknown(a) else NotImplemented
            if d == "self._set_initial_cond" and len(node.args) == 2:
                return (ev.ev(node.args[0]), ev.ev(node.args[1]))
            if d == "self._alloc_dva":
                return (F.sym("d_work"), F.sym("v_work"), F.sym("a_work"))
            return NotImplemented

        for bdim in (1, 2):
            S1 = Sem(ctx, f_pre, call=call, erase_T=True, env={"m": (F.sym("M") if mcase == "given" else NONE), "b": F.sym("b"), "k": F.sym("k")},
                     cond=is_none_oracle({"k.ndim==1": True, "m.ndim==1": True, "b.ndim==1": bdim == 1}))
            ret = S1.ret()
            ok = isinstance(ret, tuple) and len(ret) == 3 and S1.same(ret[0], NONE) and S1.same(ret[2], F.sym("w")) and S1.same(ret[1], Usym * F.sym("b") * Usym) \
                and S1.same(S1.env("self.phi"), Usym)
            ctx.check(ok, f"_do_pre_eig (m {mcase}, b {bdim}-D): phi = eigenvectors of (k, m); returns m -> None, k -> eigenvalues, b -> phi.T b phi", f_pre,
                      None if ok else repr(ret))
        attrs = {k: v for k, v in S1.ev.env.items() if k.startswith("self.") and not is_unknown(v)}
        env = dict(attrs)
        env.update({"d0": F.sym("d0"), "v0": F.sym("v0"), "force": F.sym("f")})

        def sub(node, ev):
            if isinstance(node.value, ast.Name) and node.value.id == "force":
                return ev.ev(node.value)
            return NotImplemented

        S2 = Sem(ctx, f_dva, call=call, env=env, subscript=sub, erase_T=True,
                 cond=is_none_oracle({"self.pre_eig": True, "force.shape[0]!=self.n": False, "self.rfsize": False}))
        calls = S2.calls("self._init_dv")
        if len(calls) != 1:
            raise AnchorError("_init_dva: call to self._init_dv")
        tgt = ctx.src.func(O.BASE, "_BaseODE._init_dv")
        pnames = [a.arg for a in tgt.args.args][1:]
        vals = dict(zip(pnames, calls[0][1]))
        vals.update(calls[0][2])

        def norm(x):
            # eigenvectors normalised with respect to the mass: u = M^-1/2 (commuting model)
            return need(x).subs({"u": U})
        for nm, kind in (("d0", "inv"), ("v0", "inv"), ("F0", "T")):
            got = vals.get(nm)
            if got is None or is_unknown(got) or isinstance(got, tuple):
                ctx.error(f"_init_dva (pre_eig, m {mcase}): argument `{nm}` of _init_dv", calls[0][3], repr(got))
                continue
            usr = {"d0": "d0", "v0": "v0", "F0": "f"}[nm]
            if kind == "inv":
                res = norm(got) * U - F.sym(usr)           # phi * (modal value) must give back the physical value
            else:
                res = norm(got) - U * M * 0 - U * F.sym(usr) if False else norm(got) - U * F.sym(usr)   # phi.T f
            ok = res.is_zero()
            ctx.check(ok, f"_init_dva (pre_eig, m {mcase}): user array `{usr}` reaches _init_dv as " +
                      ("phi^-1 " + usr if kind == "inv" else "phi.T " + usr) + " (physical -> modal coordinates)", calls[0][3],
                      None if ok else {"value passed": repr(got), "with u = M^-1/2": repr(norm(got)),
                                       "witness": f"coupled system, pre_eig=True, non-identity mass, non-zero {usr}: sol.{usr[0]}[:, 0] != {usr}"},
                      key=f"C01-R4|_BaseODE._init_dva|{usr} not mapped by phi")
        ret = S2.ret()
        ok = isinstance(ret, tuple) and len(ret) == 4 and not is_unknown(ret[3]) and (norm(ret[3]) - U * F.sym("f")).is_zero()
        ctx.check(ok, f"_init_dva (pre_eig, m {mcase}): the force returned to the solver is the modal force phi.T f", f_dva, None if ok else repr(ret))
        # the way back
        for q in ("_BaseODE._solution", "_BaseODE._solution_freq"):
            f2 = ctx.src.func(O.BASE, q)
            S3 = Sem(ctx, f2, call=call, env=dict(attrs), erase_T=True, cond=is_none_oracle({"self.pre_eig": True, "self.h": True}))
            ns = S3.calls("SimpleNamespace")
            ok = len(ns) == 1 and all(S3.same(ns[0][2].get(x), Usym * F.sym(x)) for x in "dva")
            ctx.check(ok, f"{q} (m {mcase}): d, v, a are mapped back to physical coordinates with phi when pre_eig", f2)
    # and nothing is mapped when pre_eig is off
    S4 = Sem(ctx, f_dva, env={"d0": F.sym("d0"), "v0": F.sym("v0"), "force": F.sym("f")},
             cond=is_none_oracle({"self.pre_eig": False, "force.shape[0]!=self.n": False, "self.rfsize": False}),
             call=lambda node, ev: ((ev.ev(node.args[0]), ev.ev(node.args[1])) if dotted(node.func) == "self._set_initial_cond" else
                                    ((F.sym("d_work"), F.sym("v_work"), F.sym("a_work")) if dotted(node.func) == "self._alloc_dva" else NotImplemented)),
             subscript=lambda node, ev: (ev.ev(node.value) if isinstance(node.value, ast.Name) and node.value.id == "force" else NotImplemented))
    c4 = S4.calls("self._init_dv")
    ok = len(c4) == 1 and len(c4[0][1]) >= 5 and S4.same(c4[0][1][2], F.sym("d0")) and S4.same(c4[0][1][3], F.sym("v0")) and S4.same(c4[0][1][4], F.sym("f"))
    ctx.check(ok, "_init_dva (no pre_eig): d0, v0 and the force reach _init_dv unchanged", f_dva)
    # generator refuses pre_eig before any array is shared
    f4 = ctx.src.func(O.BASE, "_BaseODE._init_dva_part")
    first_alloc = min((n.lineno for n in ast.walk(f4) if isinstance(n, ast.Call) and dotted(n.func) == "self._alloc_dva"), default=None)
    guard = [n for n in f4.body if isinstance(n, ast.If) and ast.unparse(n.test).replace(" ", "") == "self.pre_eig"
             and any(isinstance(x, ast.Raise) for x in n.body)]
    ok = bool(guard) and first_alloc is not None and guard[0].lineno < first_alloc
    ctx.check(ok, "_init_dva_part (generator path): pre_eig is refused before any array is allocated", f4)


# ---------------------------------------------------------------------------
# C01-R6  acceleration recovered from equilibrium
BASEF = "pyyeti/ode/_base_ode_class.py"


def r6_equilibrium_acceleration(ctx):
    """_BaseODE._calc_acce_kdof: in each of its six arms (diagonal / diagonal with off-diagonal damping carried as a force / coupled, each with
    and without a mass) the stored acceleration is M^-1 (F - B v - K d) with B the *full* damping; the split of a coupled damping matrix into
    its diagonal `b` and zero-diagonal remainder `bo` (_chk_diag_part) is undone with the same index idiom; every time-domain solver calls it."""
    fn = ctx.src.func(BASEF, "_BaseODE._calc_acce_kdof")
    Fs, v, d, b, bo, k, invm = (F.sym(x) for x in ("Fk", "vk", "dk", "b", "bo", "k", "invm"))
    arms = [("diagonal, m given", dict(unc=True, cd=False, m=True), invm * (Fs - b * v - k * d)),
            ("diagonal, m None", dict(unc=True, cd=False, m=False), Fs - b * v - k * d),
            ("diagonal + off-diagonal damping as force, m given", dict(unc=True, cd=True, m=True), invm * (Fs - (b + bo) * v - k * d)),
            ("diagonal + off-diagonal damping as force, m None", dict(unc=True, cd=True, m=False), Fs - (b + bo) * v - k * d),
            ("coupled, m given", dict(unc=False, cd=False, m=True), invm * (Fs - b * v - k * d)),
            ("coupled, m None", dict(unc=False, cd=False, m=False), Fs - b * v - k * d)]
    for name, cfg, want in arms:
        def cond(test, ev, cfg=cfg):
            return {"self.ksize": True, "self.unc": cfg["unc"], "self.cdforces": cfg["cd"], "self.misnotNone": cfg["m"]}.get(utext(test))

        def sub(node, ev):
            return {"force[kdof]": Fs, "v[kdof]": v, "d[kdof]": d}.get(utext(node), NotImplemented)

        def call(node, ev):
            dn = dotted(node.func) or ""
            if dn == "la.lu_solve":
                a_, b_ = ev.ev(node.args[0]), ev.ev(node.args[1])
                if is_unknown(a_) or is_unknown(b_):
                    return a_ if is_unknown(a_) else b_
                return need(a_) * need(b_)       # self.invm holds the factorisation of M: lu_solve(invm, x) = M^-1 x
            if dn == "np.arange":
                return F.sym("__arange")
            return NotImplemented

        class Ev(Evaluator):
            def _assign(self, target, val, st, aug=False):
                # idiom: X[i, i] = y with i = np.arange(n): the diagonal of X is replaced by y.  X was built from a zero-diagonal matrix,
                # so X becomes (zero-diagonal part) + diag(y)
                if isinstance(target, ast.Subscript) and isinstance(target.value, ast.Name) and isinstance(target.slice, ast.Tuple) \
                        and len(target.slice.elts) == 2 and all(isinstance(e, ast.Name) and not is_unknown(self.env.get(e.id, Unknown("")))
                                                                 and repr(self.env.get(e.id)) == "__arange" for e in target.slice.elts) \
                        and target.slice.elts[0].id == target.slice.elts[1].id:
                    cur = self.env.get(target.value.id)
                    if cur is not None and not is_unknown(cur) and not is_unknown(val):
                        self.env[target.value.id] = need(cur) + need(val)
                        return
                return super()._assign(target, val, st, aug)

        ev = Ev(env={"self.bo": bo, "self.b": b, "self.k": k, "self.invm": invm, "self.kdof": F.sym("kdof")}, cond=cond, src=ctx.src, subscript=sub, call=call,
                store_accept=lambda n, i, node: True)
        ev.run(fn.body)
        got = [val for nm, idx, val, st in ev.stores if nm == "a"]
        if len(got) != 1 or is_unknown(got[0]):
            ctx.error(f"_calc_acce_kdof ({name}): acceleration store not lowered", fn, repr(got))
            continue
        ok = need(got[0]).equals(want)
        ctx.check(ok, f"_calc_acce_kdof ({name}): a = M^-1 (F - B v - K d) with the full damping matrix", fn,
                  None if ok else {"got": repr(got[0]), "want": repr(want)})
    # the zero-diagonal remainder: _chk_diag_part builds bo from a copy of b and must zero its diagonal
    cd = ctx.src.func(BASEF, "_BaseODE._chk_diag_part")
    stmts = [n for n in walk_no_nested(cd) if isinstance(n, (ast.Assign, ast.AugAssign, ast.Expr))]
    born = [n for n in stmts if isinstance(n, ast.Assign) and utext(n.targets[0]) == "bo" and utext(n.value) in ("b.copy()", "np.array(b)", "b+0")]
    if not born:
        ctx.error("_chk_diag_part: construction of the off-diagonal damping `bo` not recognised", cd)
    else:
        touch = []
        for n in stmts:
            if n.lineno <= born[0].lineno:
                continue
            t = utext(n)
            if t.startswith("bo[") or t.startswith("np.fill_diagonal(bo,") or (isinstance(n, ast.AugAssign) and utext(n.target) == "bo"):
                touch.append(t)
        zeroing = [t for t in touch if t in ("bo[i,i]=0.0", "bo[i,i]=0", "np.fill_diagonal(bo,0)", "np.fill_diagonal(bo,0.0)", "bo-=np.diag(np.diag(bo))", "bo-=np.diag(bd)")]
        if zeroing:
            ctx.ok("_chk_diag_part: the damping carried as a force is a copy of b with its diagonal zeroed (bo), so b_diag + bo is the full matrix that "
                   "_calc_acce_kdof reassembles", born[0])
        elif not touch:
            ctx.fail("_chk_diag_part: the damping carried as a force is a copy of b with its diagonal zeroed (bo), so b_diag + bo is the full matrix that "
                     "_calc_acce_kdof reassembles", born[0], "bo is a copy of the full matrix and its diagonal is never cleared: the diagonal damping is applied twice",
                     key="C01-R6|_chk_diag_part|bo diagonal not zeroed")
        else:
            ctx.error("_chk_diag_part: `bo` is modified by an idiom the checker does not know", born[0], touch)
    t = utext(cd)
    sel_b = [x for x in ("b=b[self.nonrf]",) if x in t]
    sel_bo = [x for x in ("bo=bo[np.ix_(self.nonrf,self.nonrf)]", "bo=bo[self.nonrf][:,self.nonrf]", "bo=bo[self.nonrf,:][:,self.nonrf]") if x in t]
    if sel_b and sel_bo:
        ctx.ok("_chk_diag_part: b and bo are restricted to the same non-rf rows (and columns)", cd)
    else:
        ctx.error("_chk_diag_part: the non-rf restriction of b / bo was not recognised", cd, {"b": sel_b, "bo": sel_bo})
    # callers: every time-domain solution passes through it after the d, v histories are complete
    for rel, q in ((SOLVEUNC, "SolveUnc.tsolve"), ("pyyeti/ode/solveexp2.py", "SolveExp2.tsolve"), (BASEF, "_BaseODE.finalize")):
        f2 = ctx.src.func(rel, q)
        calls = [n for n in walk_no_nested(f2) if isinstance(n, ast.Call) and dotted(n.func) == "self._calc_acce_kdof"]
        rets = [n for n in walk_no_nested(f2) if isinstance(n, ast.Call) and dotted(n.func) == "self._solution"]
        ok = len(calls) >= 1 and bool(rets) and all(c.lineno < rets[-1].lineno for c in calls) and \
            [utext(a) for a in calls[-1].args][:3] == ["d", "v", "a"]
        ctx.check(ok, f"{q}: the kdof acceleration is recovered from equilibrium on (d, v, a, force) before the solution is returned", calls[-1] if calls else f2)


def r7_subspace_typing(ctx):
    """get_su_coef and SolveUnc._get_complex_su_coefs partition the modes by masks and index vectors (under-, critically, over-damped, damped
    rigid-body for velocities / for displacements) and fill the coefficient vectors through those selectors.  Every selection must be applied
    to an array of the space the selector indexes, and every store must receive values computed on exactly the selected modes - otherwise a
    coefficient is built from another mode's mass / damping / frequency (invisible when the properties are uniform or the selected modes are
    the leading ones, as in every test)."""
    from .e3_masks import MaskTyper, A, I, S
    base_attrs = {"self.nonrf": I("N", "K"), "self.kdof": I("N", "K"), "self.rf": I("N", "N/rf"), "self.k": A("K"), "self.b": A("K"), "self.m": A("K")}
    for rel, qual, params, sizes, floor in (
            (UTIL, "get_su_coef", {"m": A("K"), "b": A("K"), "k": A("K"), "h": S, "rbmodes": I("K", "K/rbmodes"), "rfmodes": I("K", "K/rfmodes")},
             {"n": "K"}, 60),
            (BASEF, "_BaseODE._make_rb_el", dict(base_attrs, rb=I("N", "N/rb")), {"self.n": "N", "self.ksize": "K"}, 8),
            (BASEF, "_BaseODE._chk_diag_part", {"m": A("N"), "b": A("N"), "k": A("N"), "self.nonrf": I("N", "K"), "self.rf": I("N", "N/rf")}, {}, 6),
    ):
        fn = ctx.src.func(rel, qual)
        bad = []

        def report(kind, node, detail, bad=bad):
            bad.append((kind, node, detail))

        T = MaskTyper(params, sizes, report, passthrough={"self._ensure_index_type"}, cond={"self.rfsize": True} if qual.endswith("_chk_diag_part") else None)
        T.run(fn.body)
        if qual.endswith("_make_rb_el"):
            # what the method publishes: rb, el index the full set; _rb, _el index the non-rf set (the table the other rules rely on)
            for attr, dom in (("self.rb", "N"), ("self.el", "N"), ("self._rb", "K"), ("self._el", "K")):
                t = T.attr_types.get(attr)
                ok = isinstance(t, I) and t.dom == dom
                ctx.check(ok, f"_make_rb_el: `{attr}` holds positions relative to the {'full' if dom == 'N' else 'non-rf'} equation set", fn, repr(t))
        if qual.endswith("_chk_diag_part"):
            for attr, sp in (("self.m", "K"), ("self.b", "K"), ("self.k", "K"), ("self.krf", "N/rf")):
                t = T.attr_types.get(attr)
                ok = isinstance(t, A) and t.s in (sp, None) and (t.s == sp or attr == "self.m")
                ctx.check(ok, f"_chk_diag_part: `{attr}` is stored on the {'non-rf' if sp == 'K' else 'rf'} equations when there are rf modes", fn, repr(t))
        seen = set()
        for kind, node, detail in bad:
            key = f"C01-R7|{qual}|{kind}|{ast.unparse(node)[:60]}"
            if key in seen:
                continue
            seen.add(key)
            ctx.fail(f"{qual}: {kind}", node, detail, key=key)
        ctx.check(T.resolved >= floor, f"{qual}: {T.resolved} selections / stores / elementwise operations typed (mask and index sub-spaces of the mode list)", fn,
                  T.resolved, nontrivial=T.resolved >= floor)
        if not bad:
            ctx.ok(f"{qual}: every selector is applied to an array of its own space and every store receives values of the selected sub-space", fn)


def r8_solveexp1(ctx):
    """First-order exact solver y' = A y + f: the constructor takes E, P, Q from expmint.getEPQ(A, h, order) and tsolve advances
    y_j = E y_{j-1} + P f_{j-1} + Q f_j (order 1) / E y_{j-1} + P f_{j-1} (order 0) from y_0 = d0 (0 when not given), returning v = f + A y.
    Decided on a generic 4-sample history (force columns f0..f3 as symbols, matrices as commuting symbols; the loop over constant bounds is unrolled)."""
    from .sem import Sem
    SE1 = "pyyeti/ode/solveexp1.py"
    init = ctx.src.func(SE1, "SolveExp1.__init__")
    ts = ctx.src.func(SE1, "SolveExp1.tsolve")
    # constructor
    def call0(node, ev):
        d = dotted(node.func) or ""
        if d.endswith("getEPQ"):
            vals = [ev.ev(a) for a in node.args] + [ev.ev(k.value) for k in node.keywords]
            names = ["A", "h", "order"][:len(node.args)] + [k.arg for k in node.keywords]
            got = dict(zip(names, vals))
            ok = all(k in got and not is_unknown(got[k]) and need(got[k]).equals(F.sym(k)) for k in ("A", "h", "order"))
            ctx.check(ok, "SolveExp1.__init__: E, P, Q = getEPQ(A, h, order) - the state matrix, the step and the hold order are passed in their places", node,
                      None if ok else {k: repr(v) for k, v in got.items()})
            return (F.sym("E"), F.sym("P"), F.sym("Q"))
        return NotImplemented
    S0 = Sem(ctx, init, call=call0, cond=lambda t, ev: True if utext(t) == "h" else None, env={"A": F.sym("A"), "h": F.sym("h"), "order": F.sym("order")})
    ok = all(S0.same(S0.env(f"self.{x}"), F.sym(x)) for x in ("E", "P", "Q", "A", "h", "order"))
    ctx.check(ok, "SolveExp1.__init__: E, P, Q, A, h, order are stored under their own names", init, None if ok else {x: repr(S0.env(f"self.{x}")) for x in "EPQA"})
    NT = 4
    f = tuple(F.sym(f"f{k}") for k in range(NT))
    E_, P_, Q_, A_ = F.sym("E"), F.sym("P"), F.sym("Q"), F.sym("A")
    for order in (1, 0):
        for given in (True, False):
            def cond(test, ev, order=order, given=given):
                t = utext(test)
                return {"force.shape[0]!=self.n": False, "d0isnotNone": given, "d0isNone": not given, "nt>1": True, "self.h": True, "notself.h": False,
                        "self.order==1": order == 1, "self.order==0": order == 0}.get(t)

            def call(node, ev):
                d = dotted(node.func) or ""
                if d == "np.atleast_2d":
                    return ev.ev(node.args[0])
                if d in ("np.zeros", "np.empty") and len(node.args) == 2 and ast.unparse(node.args[0]) == "self.n":
                    return F.const(0)
                return NotImplemented
            S = Sem(ctx, ts, cond=cond, call=call, loop_unroll=8, pinned={"nt": F.const(NT)},
                    env={"force": f, "d0": F.sym("d0"), "self.E": E_, "self.P": P_, "self.Q": Q_, "self.A": A_, "self.h": F.sym("h")})
            cells = {}
            for ix, val, st in S.cells("d"):
                u = None
                try:
                    from .sem import unfn
                    u = unfn(ix)
                except Exception:  # noqa
                    pass
                if u and u[0] == "tuple" and len(u[1]) == 2 and not isinstance(u[1][1], str) and u[1][1].is_const():
                    cells[int(u[1][1].const_value())] = (val, st)
            y = F.sym("d0") if given else F.const(0)
            ok0 = (0 in cells and S.same(cells[0][0], F.sym("d0"))) if given else (0 not in cells)
            ctx.check(ok0, f"SolveExp1.tsolve (order {order}, d0 {'given' if given else 'None'}): the first column is the initial state"
                      + ("" if given else " (zero)"), ts)
            ok = True
            detail = None
            for j in range(1, NT):
                want = E_ * y + P_ * f[j - 1] + (Q_ * f[j] if order == 1 else 0)
                got = cells.get(j, (None, None))[0]
                if got is None or is_unknown(got) or isinstance(got, tuple) or not need(got).equals(want):
                    ok = False
                    detail = {"step": j, "stored": repr(got), "recurrence": repr(want)}
                    break
                y = want
            ctx.check(ok, f"SolveExp1.tsolve (order {order}, d0 {'given' if given else 'None'}): y_j = E y_j-1 + P f_j-1" + (" + Q f_j" if order == 1 else "")
                      + " for every step of a generic history", ts, detail)
            ns = S.calls("SimpleNamespace")
            ok = len(ns) == 1 and S.same(ns[0][2].get("d"), F.sym("d")) and isinstance(ns[0][2].get("v"), tuple) \
                and all(S.same(x, fk + A_ * F.sym("d")) for x, fk in zip(ns[0][2]["v"], f))
            ctx.check(ok, f"SolveExp1.tsolve (order {order}): returns d and v = f + A d (the first-order equation itself)", ns[0][3] if ns else ts)


def r9_solveexp2(ctx):
    """Second-order exact solver in state-space form z = [v; d], z' = A z + [M^-1 f; 0]: the constructor cuts E = expm(A h) into the four blocks
    E_vv, E_vd, E_dv, E_dd by the [v; d] layout, and tsolve advances d_i+1 = E_dd d_i + E_dv v_i + (P g_i + Q g_i+1)_d,
    v_i+1 = E_vd d_i + E_vv v_i + (P g_i + Q g_i+1)_v with g = M^-1 f (order 0: no Q term).  Decided on a generic 4-sample history
    (unrolled loop, stores forwarded to loads), for m None / diagonal / full."""
    from .sem import Sem, unfn
    SE2 = "pyyeti/ode/solveexp2.py"
    init = ctx.src.func(SE2, "SolveExp2.__init__")
    ts = ctx.src.func(SE2, "SolveExp2.tsolve")

    def call0(node, ev):
        d = dotted(node.func) or ""
        if d.endswith("getEPQ"):
            vals = [ev.ev(a) for a in node.args]
            kws = {k.arg: ev.ev(k.value) for k in node.keywords}
            got = dict(zip(["A", "h", "order"], vals))
            got.update(kws)
            ok = all(k in got and not is_unknown(got[k]) for k in ("A", "h", "order", "half")) and need(got["h"]).equals(F.sym("h")) \
                and need(got["order"]).equals(F.sym("order")) and need(got["half"]).equals(F.const(1)) and need(got["A"]).equals(F.sym("Astate"))
            ctx.check(ok, "SolveExp2.__init__: E, P, Q = getEPQ(A, h, order, half=True) with A the [v; d] state matrix - P, Q keep only the force half of "
                          "the input columns", node, None if ok else {k: repr(v) for k, v in got.items()})
            return (F.sym("E"), F.sym("P"), F.sym("Q"))
        if d == "self._build_A":
            return F.sym("Astate")
        return NotImplemented

    S0 = Sem(ctx, init, call=call0, cond=lambda t, ev: True if utext(t).startswith("hand") else None,
             env={"h": F.sym("h"), "order": F.sym("order"), "self.ksize": F.sym("ksize")})
    lo, hi = "slice(None, ksize, None)", "slice(ksize, None, None)"
    want = {"E_vv": ("v", "v"), "E_vd": ("v", "d"), "E_dv": ("d", "v"), "E_dd": ("d", "d")}
    half = {"v": S0.ev._index_value(ast.parse("x[:ksize]", mode="eval").body.slice), "d": S0.ev._index_value(ast.parse("x[ksize:]", mode="eval").body.slice)}
    for nm, (r, c) in want.items():
        got = S0.env(f"self.{nm}")
        w = F.fn("idx", F.sym("E"), F.fn("tuple", half[r], half[c]))
        ok = got is not None and not is_unknown(got) and not isinstance(got, tuple) and need(got).equals(w)
        ctx.check(ok, f"SolveExp2.__init__: {nm} is the block of E that maps the {('velocity' if c == 'v' else 'displacement')} half of the state to the "
                      f"{('velocity' if r == 'v' else 'displacement')} half (state layout [v; d]: rows/columns :ksize are velocities)", init, None if ok else repr(got))
    ok = S0.same(S0.env("self.P"), F.sym("P")) and S0.same(S0.env("self.Q"), F.sym("Q"))
    ctx.check(ok, "SolveExp2.__init__: P and Q are stored under their own names", init)
    # ---- tsolve on a generic history
    NT = 4
    f = tuple(F.sym(f"f{k}") for k in range(NT))
    Edd, Edv, Evd, Evv, P_, Q_ = (F.sym(x) for x in ("E_dd", "E_dv", "E_vd", "E_vv", "P", "Q"))
    IM = F.sym("invm")
    for order in (1, 0):
        for mcase in ("None", "diagonal", "full"):
            def cond(test, ev, order=order, mcase=mcase):
                t = utext(test)
                return {"ksize>0": True, "nt>1": True, "self.misnotNone": mcase != "None", "self.misNone": mcase == "None", "self.unc": mcase == "diagonal",
                        "self.order==1": order == 1, "self.order==0": order == 0, "notself.slices": False, "self.slices": True}.get(t)

            def call(node, ev):
                d = dotted(node.func) or ""
                if d == "np.atleast_2d":
                    return ev.ev(node.args[0])
                if d == "self._init_dva":
                    return (F.sym("d"), F.sym("v"), F.sym("a"), ev.ev(node.args[0]))
                if d in ("la.lu_solve", "la.solve") and len(node.args) >= 2:
                    a, b = ev.ev(node.args[0]), ev.ev(node.args[1])
                    if is_unknown(a) or isinstance(a, tuple):
                        return NotImplemented
                    if isinstance(b, tuple):
                        return tuple(need(a) * need(x) for x in b)      # invm stands for M^-1 in both storage forms
                    return need(a) * need(b)
                return NotImplemented

            def sub(node, ev):
                # force[kdof] -> the history itself (rows restricted); PQF[half, i] -> half(PQF_i); D = d[kdof] / V = v[kdof] -> work arrays
                t = utext(node)
                if t == "force[kdof]":
                    return ev.ev(node.value)
                if isinstance(node.value, ast.Name) and node.value.id == "PQF" and isinstance(node.slice, ast.Tuple) and len(node.slice.elts) == 2:
                    pq = ev.env.get("PQF")
                    i = ev.ev(node.slice.elts[1])
                    if isinstance(pq, tuple) and not is_unknown(i) and i.is_const():
                        h_ = utext(node.slice.elts[0])
                        which = {":ksize": "v", "ksize:": "d"}.get(h_)
                        k = int(i.const_value())
                        if which and 0 <= k < len(pq) and not is_unknown(pq[k]):
                            return F.fn("half", which, need(pq[k]))
                return NotImplemented

            S = Sem(ctx, ts, cond=cond, call=call, subscript=sub, loop_unroll=8, forward_stores=True, pinned={"nt": F.const(NT)},
                    env={"force": f, "self.E_dd": Edd, "self.E_dv": Edv, "self.E_vd": Evd, "self.E_vv": Evv, "self.P": P_, "self.Q": Q_, "self.invm": IM,
                         "self.ksize": F.sym("ksize")})
            g = tuple((IM * x) if mcase != "None" else x for x in f)
            col = lambda nm, k: F.fn("idx", F.sym(nm), F.fn("tuple", F.fn("slice", F.sym("None"), F.sym("None"), F.sym("None")), F.const(k)))
            dprev, vprev = col("D", 0), col("V", 0)
            cells = {}
            for nm_, ix, val, st in S.ev.cells:
                u = unfn(ix) if not is_unknown(ix) else None
                if nm_ in ("D", "V") and u and u[0] == "tuple" and len(u[1]) == 2 and not isinstance(u[1][1], str) and u[1][1].is_const():
                    cells[(nm_, int(u[1][1].const_value()))] = val
            ok, detail = True, None
            for i in range(NT - 1):
                pq = P_ * g[i] + (Q_ * g[i + 1] if order == 1 else 0)
                wd = Edd * dprev + Edv * vprev + F.fn("half", "d", pq)
                wv = Evd * dprev + Evv * vprev + F.fn("half", "v", pq)
                gd, gv = cells.get(("D", i + 1)), cells.get(("V", i + 1))
                for got, w, what in ((gd, wd, "displacement"), (gv, wv, "velocity")):
                    if got is None or is_unknown(got) or isinstance(got, tuple) or not need(got).equals(w):
                        ok = False
                        detail = detail or {"step": i + 1, "quantity": what, "stored": repr(got)[:300], "recurrence": repr(w)[:300]}
                dprev, vprev = wd, wv
                if not ok:
                    break
            ctx.check(ok, f"SolveExp2.tsolve (order {order}, m {mcase}): d and v follow z_i+1 = E z_i + P g_i" + (" + Q g_i+1" if order == 1 else "")
                      + " block by block (g = M^-1 f) on a generic history", ts, detail)


def r10_real_unc_batch(ctx):
    """SolveUnc's uncoupled time loop: D_i = F D_i-1 + G V_i-1 + A f_i-1 + B f_i, V_i = Fp D_i-1 + Gp V_i-1 + Ap f_i-1 + Bp f_i (order 0: f_i := f_i-1),
    with the eight coefficient vectors of get_su_coef handed over in the positions the loop function declares.  SolveUnc._solve_real_unc is
    evaluated on a generic 4-sample history with _solve_real_unc_inner_loop followed interprocedurally (so a swapped argument at the call site
    is seen), loop unrolled, stores forwarded."""
    from .sem import Sem, unfn, module_funcs
    fn = ctx.src.func(SOLVEUNC, "SolveUnc._solve_real_unc")
    NT = 4
    f = tuple(F.sym(f"f{k}") for k in range(NT))
    C = {x: F.fn("attr:" + x, F.sym("self.pc")) for x in ("F", "G", "A", "B", "Fp", "Gp", "Ap", "Bp")}     # pc = self.pc; pc.F ...
    inl = {k: v for k, v in module_funcs(ctx, SOLVEUNC).items() if k == "_solve_real_unc_inner_loop"}
    if not inl:
        raise AnchorError("_solve_real_unc_inner_loop")
    for order in (1, 0):
        def cond(test, ev, order=order):
            t = utext(test)
            return {"nt==1": False, "order==1": order == 1, "order==0": order == 0, "notself.slices": False, "self.slices": True}.get(t)

        def sub(node, ev):
            t = utext(node)
            if t == "force[kdof]":
                return ev.ev(node.value)
            return NotImplemented

        env = {"force": f, "self.order": F.const(order)}
        S = Sem(ctx, fn, cond=cond, subscript=sub, loop_unroll=8, forward_stores=True, pinned={"nt": F.const(NT)}, env=env, inline=inl)
        # `pc = self.pc` then `pc.F`: resolve through the env entries self.pc.*
        cells = {}
        for nm_, ix, val, st in S.ev.cells:
            u = unfn(ix) if not is_unknown(ix) else None
            if nm_ in ("D", "V") and u and u[0] == "tuple" and len(u[1]) == 2 and not isinstance(u[1][1], str) and u[1][1].is_const():
                cells[(nm_, int(u[1][1].const_value()))] = val
        col = lambda nm, k: F.fn("idx", F.sym(nm), F.fn("tuple", F.fn("slice", F.sym("None"), F.sym("None"), F.sym("None")), F.const(k)))
        dp, vp = col("D", 0), col("V", 0)
        ok, detail = True, None
        for i in range(1, NT):
            f1 = f[i] if order == 1 else f[i - 1]
            wd = C["F"] * dp + C["G"] * vp + C["A"] * f[i - 1] + C["B"] * f1
            wv = C["Fp"] * dp + C["Gp"] * vp + C["Ap"] * f[i - 1] + C["Bp"] * f1
            for got, w, what in ((cells.get(("D", i)), wd, "displacement"), (cells.get(("V", i)), wv, "velocity")):
                if got is None or is_unknown(got) or isinstance(got, tuple) or not need(got).equals(w):
                    ok = False
                    detail = detail or {"step": i, "quantity": what, "stored": repr(got)[:300], "recurrence": repr(w)[:300]}
            dp, vp = wd, wv
            if not ok:
                break
        ctx.check(ok, f"SolveUnc._solve_real_unc (order {order}): every step of a generic history is F d + G v + A f_i-1 + B f_i (and the primed twin), with "
                      "pc.F ... pc.Bp in the positions of the loop function's parameters", fn, detail)


def r11_complex_unc_batch(ctx):
    """SolveUnc's coupled (complex-mode) time loop on a generic 4-sample history: rigid-body part d_i+1 = d_i + G v_i + A (g_i + g_i+1 / 2),
    v_i+1 = v_i + Ap (g_i + g_i+1) (order 0: 1.5 A g_i, 2 Ap g_i; with pc.G = h, pc.A = h^2/3, pc.Ap = h/2 checked by C01-R1 these are the exact
    double integrals of the held force); elastic part y_0 = ur_inv_v v_0 + ur_inv_d d_0, y_i+1 = Fe y_i + Ae w_i + Be w_i+1 with
    w = ur_inv_v M^-1 f, and d = ur_d y, v = ur_v y (real systems: Re(ur y) = rur Re(y) - iur Im(y))."""
    from .sem import Sem, unfn
    fn = ctx.src.func(SOLVEUNC, "SolveUnc._solve_complex_unc")
    NT = 4
    f = tuple(F.sym(f"f{k}") for k in range(NT))
    pc = lambda x: F.fn("attr:" + x, F.sym("self.pc"))
    colix = lambda k: F.fn("tuple", F.fn("slice", F.sym("None"), F.sym("None"), F.sym("None")), F.const(k))
    for order in (1, 0):
        for systype in ("float", "complex"):
            def cond(test, ev, order=order, systype=systype):
                t = utext(test)
                return {"self.rbsize": True, "self.misnotNone": True, "self.unc": True, "nt>1": True, "self.order==1": order == 1, "self.order==0": order == 0,
                        "notself.slices": False, "self.ksizeandnt>1": True, "self.ksize": True, "self.systypeisfloat": systype == "float"}.get(t)

            def sub(node, ev):
                t = utext(node)
                if t in ("force[rb]", "force[kdof]"):
                    return ev.ev(node.value)
                if t.endswith("[:,None]"):
                    return ev.ev(node.value)           # column broadcast of a per-mode coefficient
                return NotImplemented

            def call(node, ev):
                d = dotted(node.func) or ""
                if d == "np.empty":
                    return F.const(0)
                return NotImplemented

            S = Sem(ctx, fn, cond=cond, subscript=sub, call=call, loop_unroll=8, forward_stores=True, pinned={"nt": F.const(NT)},
                    env={"force": f, "self.imrb": F.sym("imrb"), "self.invm": F.sym("invm")})
            cells = {}
            for nm_, ix, val, st in S.ev.cells:
                u = unfn(ix) if not is_unknown(ix) else None
                if u and u[0] == "tuple" and len(u[1]) == 2 and not isinstance(u[1][1], str) and u[1][1].is_const():
                    cells[(nm_, int(u[1][1].const_value()))] = val
            g = tuple(F.sym("imrb") * x for x in f)
            dp, vp = F.fn("idx", F.sym("drb"), colix(0)), F.fn("idx", F.sym("vrb"), colix(0))
            ok, detail = True, None
            for i in range(NT - 1):
                if order == 1:
                    wd = dp + pc("G") * vp + pc("A") * (g[i] + g[i + 1] / 2)
                    wv = vp + pc("Ap") * (g[i] + g[i + 1])
                else:
                    wd = dp + pc("G") * vp + F.const(3) / 2 * pc("A") * g[i]
                    wv = vp + 2 * pc("Ap") * g[i]
                for got, w, what in ((cells.get(("drb", i + 1)), wd, "displacement"), (cells.get(("vrb", i + 1)), wv, "velocity")):
                    if got is None or is_unknown(got) or isinstance(got, tuple) or not need(got).equals(w):
                        ok = False
                        detail = detail or {"step": i + 1, "quantity": what, "stored": repr(got)[:300], "recurrence": repr(w)[:300]}
                dp, vp = wd, wv
                if not ok:
                    break
            ctx.check(ok, f"_solve_complex_unc (order {order}, {systype}): rigid-body part is the exact double integration of the held modal acceleration "
                          "g = M_rb^-1 f on a generic history", fn, detail)
            ok = S.same(S.cell("a", "rb"), g)
            ctx.check(ok, f"_solve_complex_unc (order {order}, {systype}): rigid-body acceleration is M_rb^-1 f at every sample", fn)
            # elastic part
            w_ = tuple(pc("ur_inv_v") * (F.sym("invm") * x) for x in f)
            y0 = cells.get(("y", 0))
            E = S.E
            ok = y0 is not None and S.same(y0, "pc.ur_inv_v @ v[kdof, 0] + pc.ur_inv_d @ d[kdof, 0]")
            ctx.check(ok, f"_solve_complex_unc (order {order}, {systype}): modal state y_0 = ur_inv_v v_0 + ur_inv_d d_0 (state layout [v; d])", fn,
                      None if ok else repr(y0))
            yp = y0
            ok, detail = y0 is not None and not is_unknown(y0), None
            for i in range(NT - 1):
                if not ok:
                    break
                wy = pc("Fe") * need(yp) + pc("Ae") * w_[i] + (pc("Be") * w_[i + 1] if order == 1 else pc("Be") * w_[i])
                got = cells.get(("y", i + 1))
                if got is None or is_unknown(got) or isinstance(got, tuple) or not need(got).equals(wy):
                    ok = False
                    detail = {"step": i + 1, "stored": repr(got)[:300], "recurrence": repr(wy)[:300]}
                yp = wy
            ctx.check(ok, f"_solve_complex_unc (order {order}, {systype}): y_i+1 = Fe y_i + Ae w_i + Be w_i+1 with w = ur_inv_v M^-1 f on a generic history", fn, detail)
            Y = "y[:, 1:]"
            if systype == "float":
                wd_ = f"pc.rur_d @ {Y}.real.copy() - pc.iur_d @ {Y}.imag.copy()"
                wv_ = f"pc.rur_v @ {Y}.real.copy() - pc.iur_v @ {Y}.imag.copy()"
            else:
                wd_ = f"pc.ur_d @ {Y}"
                wv_ = f"pc.ur_v @ {Y}"
            ok = S.same(S.cell("d", "kdof, 1:"), wd_) and S.same(S.cell("v", "kdof, 1:"), wv_)
            ctx.check(ok, f"_solve_complex_unc (order {order}, {systype}): d = ur_d y and v = ur_v y on the dynamic equations" +
                      (" (real part taken as rur Re y - iur Im y)" if systype == "float" else ""), fn,
                      None if ok else {"d": repr(S.cell("d", "kdof, 1:"))[:300], "v": repr(S.cell("v", "kdof, 1:"))[:300]})


RULES = [
    ("C01-R1", r1_coef_identities, 150),
    ("C01-R1b", r1b_regime_selectors, 14),
    ("C01-R3", r3_partition_typing, 60),
    ("C01-R4", r4_frame_typing, 14),
    ("C01-R6", r6_equilibrium_acceleration, 11),
    ("C01-R7", r7_subspace_typing, 12),
    ("C01-R8", r8_solveexp1, 14),
    ("C01-R9", r9_solveexp2, 12),
    ("C01-R10", r10_real_unc_batch, 2),
    ("C01-R11", r11_complex_unc_batch, 20),
]

LEVEL = "other"
EXPLANATION = "see DESIGN.md section 3, C01"

MANIFEST = {
    "text": "Partial claim, decided statically for all inputs: the closed-form one-step coefficients extracted from "
            "get_su_coef satisfy the defining ODE identities (homogeneous, constant-force and ramp-force particular "
            "solutions with their h->0 initial values) in every damping regime, for m given and m=None, and each "
            "regime is the continuous limit of its neighbour; regime selectors depend on the mass-normalised problem only and the complex-path "
            "coefficients are the exact constant/ramp integrals (R1b); every subscript/operand pair in the ODE package agrees on its index space "
            "(full / non-rf / rb / el / rf, state halves) in both coefficient modes (R3); on the pre_eig path user arrays enter and leave through phi (R4); "
            "the kdof acceleration is M^-1 (F - B v - K d) with the full damping in all six arms (R6); the mask / index selectors of get_su_coef and the "
            "partition construction (_make_rb_el, _chk_diag_part) are applied to arrays of their own sub-space (R7); SolveExp1, SolveExp2 (all four E blocks, "
            "m None/diagonal/full), the uncoupled SolveUnc loop (with the coefficient vectors in the loop function's parameter positions) and the complex-mode "
            "loop (rigid-body double integration, modal recurrence, ur_d/ur_v mapping) are the documented one-step recurrences on a generic 4-sample history "
            "(R8-R11: loops over constant ranges unrolled, stores forwarded to loads, helper followed interprocedurally). "
            "Does not decide round-off levels, "
            "conditioning grades or library eigen/expm calls.",
    "note": "Trusted: CPython ast parser, the exact rational normal-form engine (verifier/e2_formula.py); assumes the regime "
            "partition vectors select w2>0 / w2=0 / w2<0 as their defining comparisons say (checked structurally).",
    "technique": "static formula extraction from the AST + exact rational/transcendental normal forms (differentiation, series) checked against ODE identities; "
                 "index-space / sub-space type inference; symbolic evaluation of the solver loops on a generic history compared with the documented recurrence",
}
