"""C01-R1 / C01-R1b on values: the closed-form coefficients of get_su_coef and of the complex path, extracted by evaluating the functions for
ONE generic mode of each damping regime (c01_ev.ModeEv).

A regime is a set of assumptions on the generic mode (w, beta symbols; k = wo2 m, b = 2 beta m):

    under   wo2 = w^2 + beta^2     (w2 = wo2 - beta^2 = +w^2)        elastic
    crit    wo2 = beta^2           (w2 = 0)                          elastic
    over    wo2 = beta^2 - w^2     (w2 = -w^2)                       elastic
    rbd     k = 0, b = 2 beta m, damping above both cut-offs         rigid-body
    rb      k = 0, b = 0                                             rigid-body

Every mask / index vector of the function evaluates to the truth value "the generic mode is selected": comparisons between constants are
computed, comparisons of a mode quantity with a threshold are answered by the regime (a quantity proportional to w2/wo2 is far above / far
below every threshold in the under / over regime, |beta| is far above the damping cut-offs in rbd, ...).  A store `X[sel] = v` therefore reaches
the returned coefficient exactly when the mode goes through `sel` - whatever the name of the selector, whether the block is inlined, sits in an
extracted helper, behind an inverted test or inside a loop over (mask, helper) pairs."""
from __future__ import annotations

import ast

from . import e2_formula as F
from .core import AnchorError, Unsupported
from .sem import unfn, module_funcs, module_consts
from .c01_ev import ModeEv, Sem01, NONE, DictV, helpers

UTIL = "pyyeti/ode/_utilities.py"
SOLVEUNC = "pyyeti/ode/solveunc.py"
COEFS = ("F", "G", "A", "B", "Fp", "Gp", "Ap", "Bp")
REGIMES = ("under", "crit", "over", "rbd", "rb")
POSITIVE_SYMS = {"h", "m"}
REAL_SYMS = {"beta", "w"}


def regime_params(regime, m_none):
    h, m, beta, w = F.sym("h"), F.sym("m"), F.sym("beta"), F.sym("w")
    mm = F.const(1) if m_none else m
    if regime == "under":
        wo2 = w * w + beta * beta
    elif regime == "over":
        wo2 = beta * beta - w * w
    elif regime == "crit":
        wo2 = beta * beta
    else:
        wo2 = F.const(0)
    b = F.const(0) if regime == "rb" else 2 * beta * mm
    k = wo2 * mm
    par = {"m": mm, "b": b, "k": k, "wo2": wo2, "beta": beta if regime != "rb" else F.const(0)}
    if regime in ("under", "over"):
        par["rat"] = (wo2 - beta * beta) / wo2
    return par


# ---- signs decided from the shape of a normal form (no sampling): positive symbols h, m; real symbols beta, w
def _mono_sign(p):
    """+1 / -1 when every term of the polynomial has that sign for all values of the symbols, else None"""
    sign = None
    if not p.t:
        return None
    for mono, c in p.t.items():
        for a, e in mono:
            d = F.atom_desc(a)
            if d[0] == "s" and d[1] in POSITIVE_SYMS:
                continue
            if d[0] in ("sqrt", "exp"):
                continue
            if d[0] == "fn" and d[1] == "root":
                continue
            if d[0] == "s" and d[1] in REAL_SYMS and e % 2 == 0:
                continue
            return None
        s = 1 if c > 0 else -1
        if sign is None:
            sign = s
        elif sign != s:
            return None
    return sign


def definite_sign(v):
    if not isinstance(v, F.Rat):
        return None
    a, b = _mono_sign(v.n), _mono_sign(v.d)
    if a is None or b is None:
        return None
    return a * b


def _proportional(p1, p2):
    """constant c with p1 = c * p2 (polynomials), else None"""
    if set(p1.t) != set(p2.t) or not p1.t:
        return None
    c = None
    for mono, a in p1.t.items():
        r = a / p2.t[mono]
        if c is None:
            c = r
        elif r != c:
            return None
    return c


def positive_multiple(x, ref):
    """+1 / -1 when x = (+/-) c * m^j * h^i * ref for a positive constant c and small integers i, j (m, h: the positive mass and step symbols), else
    None.  Decided by cross multiplication of the normal forms (Rat does not cancel common polynomial factors)."""
    if not isinstance(x, F.Rat) or not isinstance(ref, F.Rat) or ref.is_zero() or x.is_zero():
        return None
    m, h = F.sym("m"), F.sym("h")
    for i in (0, 1, -1, 2, -2):
        for j in (0, 1, -1, 2, -2):
            r = ref * (m ** j) * (h ** i)
            c = _proportional(x.n * r.d, x.d * r.n)
            if c is not None and c != 0:
                return 1 if c > 0 else -1
    return None


def strip_abs(x):
    """x = p * |y| with p a power of the (positive) mass symbol -> (y, True); else (x, False)"""
    m = F.sym("m")
    for j in (0, 1, -1, 2, -2):
        u = unfn(x / (m ** j)) if isinstance(x, F.Rat) else None
        if u and u[0] == "abs" and len(u[1]) == 1 and not isinstance(u[1][0], str):
            return u[1][0], True
    return x, False


def abs_hook(v, ev):
    """|v| when the sign of v is definite; a positive power of the mass is pulled out of the bars (|2 beta m| = m |2 beta|)"""
    s = definite_sign(v)
    if s is not None:
        return v if s > 0 else -v
    if v.depends_on("m"):
        m = F.sym("m")
        for j in (1, -1, 2, -2):
            y = v / (m ** j)
            if not y.depends_on("m"):
                return (m ** j) * F.fn("abs", y)
    return None


def mass_invariant(L, R):
    """the truth of `L op R` (an ordering comparison) does not change when the problem is rescaled by the mass: L - R is a power of m times a quantity
    free of m"""
    D = L - R
    m = F.sym("m")
    for j in (0, 1, -1, 2, -2):
        try:
            if not (D / (m ** j)).depends_on("m"):
                return True
        except Exception:  # noqa
            pass
    return False


def regime_oracle(regime, par, mode_syms=("beta", "w")):
    """ordering comparison `L op R` for the generic mode of `regime`"""
    refs = []
    if regime in ("under", "over"):
        refs.append((par["rat"], 1 if regime == "under" else -1))
    if regime in ("under", "over", "crit"):
        refs.append((par["wo2"], 1))
    if regime == "rbd":
        refs.append((par["beta"], 0))

    def mode_dep(x):
        return any(x.depends_on(s) for s in mode_syms)

    def cmp(node, op, L, R, ev):
        ops = {ast.Lt: "<", ast.LtE: "<", ast.Gt: ">", ast.GtE: ">"}
        o = ops[type(op)]
        if mode_dep(R) and not mode_dep(L):
            L, R = R, L
            o = "<" if o == ">" else ">"
        if not mode_dep(L):
            # both sides independent of the mode (e.g. |C| = 0 of an undamped rigid-body mode against the cut-off 1e-5 / sqrt(h))
            s = definite_sign(R - L)
            if s is None:
                return None
            return (s > 0) if o == "<" else (s < 0)
        if mode_dep(R):
            return None
        X, has_abs = strip_abs(L)
        cls = None
        for ref, sign in refs:
            pm = positive_multiple(X, ref)
            if pm is not None:
                cls = sign * pm
                break
        if cls is None:
            return None
        if has_abs:
            cls = 1
        if cls == 0:
            return None
        return (cls > 0) if o == ">" else (cls < 0)
    return cmp


class RegimeRaises(Exception):
    """the evaluation for the generic mode of a regime ends in a `raise`"""

    def __init__(self, node, ev):
        super().__init__("raise")
        self.node, self.ev = node, ev


def _consts(ctx, rel):
    try:
        return module_consts(ctx, rel)
    except Exception:  # noqa
        return None


def lib_hook(node, ev):
    """library functions with an exact lowering that e2_eval does not list: expm1(x) = exp(x) - 1 (a cancellation-free spelling, the same value)"""
    from .e1_srcmodel import dotted
    from .e2_eval import is_unknown
    if dotted(node.func) in ("np.expm1", "math.expm1") and len(node.args) == 1 and not node.keywords:
        try:
            a = ev.plain(ev.evr(node.args[0]))
        except Unsupported:
            return NotImplemented
        if isinstance(a, F.Rat) and not is_unknown(a):
            return F.exp(a) - 1
    return NotImplemented


def run_su_coef(ctx, fn, regime, m_none, rb_given=True, call=None, cmp=None):
    """evaluate get_su_coef for the generic mode of `regime`; -> (coefficients, parameters, evaluator)"""
    par = regime_params(regime, m_none)
    isrb = regime in ("rb", "rbd")
    env = {"h": F.sym("h"), "k": par["k"], "b": par["b"], "m": NONE if m_none else F.sym("m"), "rfmodes": NONE,
           "rbmodes": F.const(1 if isrb else 0) if rb_given else NONE}

    inl = {k: v for k, v in module_funcs(ctx, UTIL).items() if v is not fn}
    S = Sem01(ctx, fn, ev_cls=ModeEv, env=env, inline=inl, consts=_consts(ctx, UTIL), nonnull={"h", "m"},
              cmp=(cmp(regime, par) if cmp else regime_oracle(regime, par)), abs_hook=abs_hook, call=call or lib_hook)
    ev = S.ev
    if not ev.returns and ev.raised is not None:
        raise RegimeRaises(ev.raised, ev)
    if not ev.returns:
        raise AnchorError("get_su_coef has no return on the path of the regime " + regime)
    ret = ev.returns[-1][0]
    if not isinstance(ret, DictV):
        raise Unsupported(f"get_su_coef does not return a namespace SimpleNamespace(F=..., ...) for the {regime} regime: {ret!r}"[:300])
    if ev.lost:
        raise Unsupported(f"get_su_coef ({regime}): {ev.lost[0][1]} (line {getattr(ev.lost[0][0], 'lineno', '?')})"[:300])
    out = {}
    for c in COEFS:
        if c not in ret.d:
            raise AnchorError(f"coefficient {c} not returned by get_su_coef")
        out[c] = ev.plain(ret.d[c])          # the namespace holds the arrays by reference: their content at the return
    return out, par, ev


def lam_oracle(regime):
    """complex path: the generic eigenvalue is far above (`el`) or far below (`rbl`) the near-zero cut-off in magnitude"""
    lam = F.sym("lam")

    def cmp(node, op, L, R, ev):
        o = "<" if isinstance(op, (ast.Lt, ast.LtE)) else ">"
        if R.depends_on("lam") and not L.depends_on("lam"):
            L, R = R, L
            o = "<" if o == ">" else ">"
        if not L.depends_on("lam") or R.depends_on("lam"):
            return None
        X, has_abs = strip_abs(L)
        if not has_abs or positive_multiple(X, lam) is None:
            return None
        big = regime == "el"
        return big if o == ">" else (not big)
    return cmp


def run_complex_coefs(ctx, fn, regime, others=None, call=None):
    """SolveUnc._get_complex_su_coefs for one generic eigenvalue; -> ({Fe, Ae, Be}, evaluator).  `others`: what `np.all(x)` is when x holds for the
    generic eigenvalue (True: it holds for every other one as well, False: it fails for some other one, None: left open - a test on it is undecided)"""
    from .c01_ev import OTHERS
    inl = {k: v for k, v in helpers(ctx, (SOLVEUNC, "SolveUnc"), ("pyyeti/ode/_base_ode_class.py", "_BaseODE")).items() if v is not fn}
    S = Sem01(ctx, fn, ev_cls=ModeEv, env={"lam": F.sym("lam"), "h": F.sym("h")}, inline=inl, consts=_consts(ctx, SOLVEUNC), nonnull={"h", "lam", "pc"},
              cmp=lam_oracle(regime), abs_hook=None, truth=None if others is None else {OTHERS: others}, call=call or lib_hook)
    ev = S.ev
    pcname = [a.arg for a in fn.args.args]
    out = {}
    for x in ("Fe", "Ae", "Be"):
        v = None
        for root in pcname:
            if f"{root}.{x}" in ev.env:
                v = ev.plain(ev.env[f"{root}.{x}"])
        if ev.lost and v is not None:
            from .e2_eval import Unknown
            v = Unknown(f"{ev.lost[0][1]} (line {getattr(ev.lost[0][0], 'lineno', '?')})"[:200])      # a store whose destination was not identified: nothing is known
        out[x] = v
    return out, ev
